'''
Bootstrap shared by every check (DESIGN.md 2.1).

Copies the *working tree* state of /repo's packages into a private scratch
directory without the stale PLY table files, removes the editable finder that
would otherwise serve /repo's modules, imports the copies and forces PLY to
regenerate all four tables from the grammar of the copy.
'''
import atexit
import importlib
import os
import shutil
import signal
import sys
import tempfile

REPO = os.environ.get('VERIF_REPO', '/repo')
GUARD = 'PYXTUML_VERIF'

_scratch = None
_owner_pid = None

TAB_FILES = ('__oal_parsetab.py', '__oal_lextab.py', '__xtuml_parsetab.py',
             '__xtuml_lextab.py', 'parser.out')


def _cleanup():
    if _scratch and os.getpid() == _owner_pid:
        shutil.rmtree(_scratch, ignore_errors=True)


def _on_term(signum, frame):
    _cleanup()
    os._exit(128 + signum)


def scratch():
    return _scratch


def boot(need_bridgepoint=True):
    '''
    Prepare the scratch copy and import xtuml (and bridgepoint) from it.
    Returns the scratch directory. Idempotent.
    '''
    global _scratch, _owner_pid
    if _scratch:
        return _scratch

    base = '/dev/shm' if os.path.isdir('/dev/shm') and os.access('/dev/shm', os.W_OK) else None
    _scratch = tempfile.mkdtemp(prefix='pyxtuml-verif-', dir=base)
    _owner_pid = os.getpid()
    atexit.register(_cleanup)
    signal.signal(signal.SIGTERM, _on_term)

    ignore = shutil.ignore_patterns('__pycache__', '*.pyc', *TAB_FILES)
    for pkg in ('xtuml', 'bridgepoint'):
        shutil.copytree(os.path.join(REPO, pkg), os.path.join(_scratch, pkg),
                        ignore=ignore)
    res = os.path.join(REPO, 'tests', 'resources')
    if os.path.isdir(res):
        shutil.copytree(res, os.path.join(_scratch, 'resources'))
    os.makedirs(os.path.join(_scratch, 'tmp'))

    # drop the editable finder and anything already imported from /repo
    sys.meta_path[:] = [f for f in sys.meta_path
                        if '__editable__' not in getattr(f, '__module__', '')
                        and '__editable__' not in getattr(f, '__name__', '')
                        and '_EditableFinder' not in repr(f)]
    sys.path_hooks[:] = [h for h in sys.path_hooks
                         if '__editable__' not in getattr(h, '__module__', '')
                         and '__editable__' not in repr(h)]
    sys.path[:] = [p for p in sys.path if '__editable__' not in p
                   and os.path.abspath(p or '.') != os.path.abspath(REPO)]
    sys.path_importer_cache.clear()
    for name in list(sys.modules):
        if name == 'xtuml' or name.startswith('xtuml.') or \
           name == 'bridgepoint' or name.startswith('bridgepoint.'):
            del sys.modules[name]
    sys.path.insert(0, _scratch)
    os.environ[GUARD] = '1'
    importlib.invalidate_caches()

    import logging
    logging.disable(logging.CRITICAL)

    import xtuml
    _assert_in_scratch(xtuml)
    # force table generation (twice: first call writes, second re-imports)
    xtuml.ModelLoader().input('')
    xtuml.ModelLoader().input('')
    for tab in ('xtuml.__xtuml_parsetab', 'xtuml.__xtuml_lextab'):
        _assert_in_scratch(sys.modules.get(tab) or importlib.import_module(tab))

    if need_bridgepoint:
        import bridgepoint
        from bridgepoint import oal
        _assert_in_scratch(bridgepoint)
        oal.parse('')
        oal.parse('')
        for tab in ('bridgepoint.__oal_parsetab', 'bridgepoint.__oal_lextab'):
            _assert_in_scratch(sys.modules.get(tab) or importlib.import_module(tab))
    return _scratch


def _assert_in_scratch(mod):
    f = os.path.realpath(getattr(mod, '__file__', '') or '')
    if not f.startswith(os.path.realpath(_scratch) + os.sep):
        sys.stderr.write('HARNESS ERROR: %s loaded from %s, not from the scratch '
                         'copy %s\n' % (mod.__name__, f, _scratch))
        sys.exit(2)


def tmpdir():
    '''A directory for files the code under test writes (inside scratch).'''
    return os.path.join(_scratch, 'tmp')
