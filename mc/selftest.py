'''Self-tests of the framework and of the reference models (run by setup.sh).'''
import sys


def main():
    from mc import bootstrap, core
    bootstrap.boot()
    import xtuml
    assert xtuml.__file__.startswith(bootstrap.scratch())
    c = core.Ctx('C00')
    assert c.pmap(lambda sub, t: t * 2, [1, 2, 3], chunk=1) == [2, 4, 6]
    try:
        with core.time_limit(0.2):
            while True:
                pass
    except core.Timeout:
        pass
    else:
        raise AssertionError('time limit did not fire')
    import importlib
    import pkgutil
    import mc.refs
    for m in pkgutil.iter_modules(mc.refs.__path__):
        mod = importlib.import_module('mc.refs.' + m.name)
        if hasattr(mod, 'selftest'):
            mod.selftest()
    print('selftest ok')


if __name__ == '__main__':
    sys.exit(main())
