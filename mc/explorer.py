'''
E1 -- explicit-state breadth-first search over the real transition function.

A state is represented by the history (list of JSON-able operations) that
reaches it; live pyxtuml objects do not copy, so a state is rebuilt by
replaying its history on fresh objects (implementation + reference model).
Every (state, enabled operation) pair is executed; after every transition the
model's oracle compares implementation and reference.
'''
from mc import core


class Model(object):
    '''Interface a property implements for the explorer.'''

    def initial(self):
        '''List of initial histories.'''
        return [[]]

    def build(self, hist):
        '''Fresh world with *hist* replayed on implementation and reference.
        Must not report; may raise if the history does not replay.'''
        raise NotImplementedError

    def enabled(self, world):
        '''Finite menu of operations (JSON-able), computed from the reference.'''
        raise NotImplementedError

    def apply(self, ctx, world, op, hist):
        '''Apply *op* to both sides, check the oracle (ctx.violation on mismatch).
        Return False to prune the successor (e.g. after a violation).'''
        raise NotImplementedError

    def probes(self, ctx, world, hist):
        '''State invariants / read-only queries evaluated in every state.'''

    def canon(self, world):
        '''Hashable canonical form: reference state + implementation-only proxy.'''
        raise NotImplementedError

    def case(self, hist, op):
        '''JSON-able replay case for (history, operation).'''
        return dict(hist=hist, op=op)


def rotate(seq, seed):
    seq = list(seq)
    if not seq or not seed:
        return seq
    k = seed % len(seq)
    return seq[k:] + seq[:k]


LIMIT_S = 3.0


def guarded(sub, model, hist, op, fn):
    '''Run fn() under the per-execution time limit; a hang is a violation.'''
    limit = getattr(model, 'limit_s', LIMIT_S)
    if sub.n('hangs') >= 3:
        return False, None          # enough confirmed hangs in this worker: do not spend the budget on more
    try:
        try:
            with core.time_limit(limit):
                return True, fn()
        except core.Timeout:
            # a loaded machine can exceed the first limit; only a repeated timeout with a 10x limit counts
            sub.count('timeouts_first')
            with core.time_limit(max(limit * 3, 10.0)):
                return True, fn()
    except core.Timeout:
        sub.count('hangs')
        sub.violation('%s:hang' % sub.prop.lower(), model.case(hist, op),
                      'execution did not finish within %.0f s: history %r, operation %r' %
                      (max(limit * 3, 10.0), hist, op))
        return False, None
    except MemoryError:
        sub.violation('%s:memory' % sub.prop.lower(), model.case(hist, op),
                      'execution exhausted memory: history %r, operation %r' % (hist, op))
        return False, None
    except core.HarnessError:
        raise
    except Exception as e:
        # an exception the model did not anticipate, raised by the code under test while replaying a history or
        # observing a state: the execution cannot be judged against the reference, which is itself a finding
        import traceback
        sub.violation('%s:crash:%s' % (sub.prop.lower(), type(e).__name__), model.case(hist, op),
                      'history %r, operation %r raised %s: %s' % (hist, op, type(e).__name__, e), None,
                      traceback.format_exc()[-1200:])
        return False, None


def _expand(sub, args):
    model, hist = args
    ok, world = guarded(sub, model, hist, None, lambda: model.build(hist))
    if not ok:
        return []
    sub.count('states_expanded')
    ok, _ = guarded(sub, model, hist, None, lambda: model.probes(sub, world, hist))
    if not ok:
        return []
    ops = rotate(model.enabled(world), sub.seed)
    out = []
    for op in ops:
        sub.count('transitions')

        def one():
            w = model.build(hist)
            if model.apply(sub, w, op, hist):
                return model.canon(w)
            return None
        ok, key = guarded(sub, model, hist, op, one)
        if ok and key is not None:
            out.append((key, op))
    return out


def bfs(ctx, model, max_depth=None, max_states=None, chunk=4, label='bfs', budget_s=None):
    '''
    Search to closure (or to max_depth / max_states, reported as a cap).
    Returns dict(states=..., depth=..., closed=bool).
    '''
    seen = {}
    frontier = []
    for h in model.initial():
        ok, k = guarded(ctx, model, h, None, lambda: model.canon(model.build(h)))
        if not ok:
            continue
        if k not in seen:
            seen[k] = h
            frontier.append(h)
    depth = 0
    closed = True
    t_start = ctx.elapsed()
    while frontier:
        if max_depth is not None and depth >= max_depth:
            closed = False
            ctx.cap('%s: depth bound %d reached with %d unexpanded states' %
                    (label, max_depth, len(frontier)))
            # still evaluate the probes of the unexpanded states
            ctx.pmap(_probe_only, [(model, h) for h in frontier], chunk=chunk)
            break
        results = ctx.pmap(_expand, [(model, h) for h in frontier], chunk=chunk)
        nxt = []
        for h, succ in zip(frontier, results):
            for k, op in succ:
                if k not in seen:
                    if max_states is not None and len(seen) >= max_states:
                        closed = False
                        ctx.cap('%s: state cap %d' % (label, max_states))
                        continue
                    seen[k] = h + [op]
                    nxt.append(h + [op])
        frontier = nxt
        depth += 1
        if ctx.time_left() < 0 or (budget_s is not None and ctx.elapsed() - t_start > budget_s and frontier):
            closed = False
            ctx.cap('%s: time budget reached at depth %d' % (label, depth))
            break
    ctx.count('states', len(seen))
    ctx.notes.setdefault(label, {}).update(states=len(seen), depth=depth, closed=closed)
    return dict(states=len(seen), depth=depth, closed=closed, seen=seen)


def _probe_only(sub, args):
    model, hist = args
    ok, world = guarded(sub, model, hist, None, lambda: model.build(hist))
    if ok:
        guarded(sub, model, hist, None, lambda: model.probes(sub, world, hist))
    return None


def replay_case(ctx, model, hist, op):
    '''Re-run one (history, operation) pair -- or the probes of one state -- under the watchdog.'''
    if op is None or (isinstance(op, list) and op and op[0] in ('state', 'probe')):
        ok, world = guarded(ctx, model, hist, op, lambda: model.build(hist))
        if ok:
            guarded(ctx, model, hist, op, lambda: model.probes(ctx, world, hist))
    else:
        guarded(ctx, model, hist, op, lambda: model.apply(ctx, model.build(hist), op, hist))
