'''
Host model, program families, run engine and oracles shared by C05 (prebuild
followed by text generation reproduces the program) and C06 (the prebuilt
population is well-formed and correctly typed).  DESIGN.md sections C05 / C06.

Part 1  host model: an ooaofooa metamodel (bridgepoint.ooaofooa.Loader) populated
        through the xtuml API with everything the programs refer to by name, and
        the same model as plain python data for the generator and the typer
Part 2  static analysis of a printed program (name resolution, scoping, typing):
        decides well-formedness and annotates the expected tree
Part 3  run engine: one pristine host per worker, every translation in a forked
        copy-on-write snapshot of it, hard kill on hang
Part 4  C05 oracle          Part 5  independent constraint count
Part 6  program families    Part 7  C06 oracle (population walk)
Part 8  canonical population dump (used by C08)
'''

HOMES = ['function', 'bridge', 'operation', 'attribute']

# ---------------------------------------------------------------------------
# static description of the host model (names, declared types)
# ---------------------------------------------------------------------------

# user data types (S_UDT), global like the enumerations: name -> the type it is defined over (R18) -- a core type, or another
# user data type (Tick is two levels above integer).  A value declared with one of them has THAT type, not the core type
# underneath: attribute and parameter reads and invocation values carry the declared type, and so does the transient first
# assigned such a value (round 8 of the seeds for C06: the first assignment unwrapped the type down to the core type)
USER_TYPES = [('Stamp', 'integer'), ('Label', 'string'), ('Tick', 'Stamp')]
# class -> ordered attributes (name, declared type, kind)   kind: base | derived | ref.  A.When and B.When share their name,
# not their type
CLASSES = {
    'A': [('Id', 'unique_id', 'base'), ('Flag', 'boolean', 'base'), ('Num', 'integer', 'base'),
          ('Rate', 'real', 'base'), ('Name', 'string', 'base'), ('Col', 'Color', 'base'),
          ('Der', 'integer', 'derived'), ('When', 'Stamp', 'base'), ('Tag', 'Label', 'base'), ('Beat', 'Tick', 'base')],
    'B': [('Id', 'unique_id', 'base'), ('A_Id', 'unique_id', 'ref'), ('Num', 'integer', 'base'), ('When', 'Tick', 'base')],
    'C': [('Id', 'unique_id', 'base')],
}
# callable elements: name -> (return type, [(parameter, type)]).  The function, bridge and operation HOMES are main, relay and
# run: the parameters of f, b and op followed by parameters declared with user data types (the programs call f, b and op with
# the parameter lists they always had)
FUNCTIONS = {'f': ('integer', [('x', 'integer'), ('y', 'real')]),
             'h': ('integer', [('x', 'integer')]),
             'g': ('void', []),
             'main': ('integer', [('x', 'integer'), ('y', 'real'), ('w', 'Stamp'), ('l', 'Label')]),
             'stamp': ('Stamp', [('w', 'Stamp')])}
BRIDGES = {'b': ('integer', [('p', 'integer'), ('q', 'string')]),
           'n': ('void', []),
           'relay': ('integer', [('p', 'integer'), ('q', 'string'), ('w', 'Stamp'), ('l', 'Label')]),
           'title': ('Label', [('l', 'Label')])}
OPERATIONS = {'op': ('integer', True, [('q', 'integer'), ('r', 'boolean')]),     # instance based
              'cop': ('integer', False, []),                                      # class based
              'cop2': ('integer', False, [('k', 'integer'), ('s', 'string')]),    # class based, with parameters
              'run': ('integer', True, [('q', 'integer'), ('r', 'boolean'), ('w', 'Stamp'), ('k', 'Tick')]),
              'mark': ('Stamp', True, []),                                        # instance based, returns a user data type
              'tick': ('Tick', False, [])}                                        # class based, returns a two-level one
OPERATION_ORDER = ['op', 'cop', 'cop2', 'run', 'mark', 'tick']                    # R125
HOME_CALLABLE = {'function': 'main', 'bridge': 'relay', 'operation': 'run'}
EE = 'EE'
ENUM = ('Color', ['Red', 'Green', 'Blue'])
CONSTANT = ('K', 'TEN', 'integer', '10')
# every enumeration type and every constant of the host.  Names are deliberately shared across namespaces: the
# enumerator Red belongs to Color (first) and to Mode (second), the constant TEN to the groups K (integer) and L
# (string), and the group L has a constant named like the enumerator Red -- a qualified name NS::name must be
# resolved relative to NS
ENUMS = [ENUM, ('Mode', ['Off', 'Red', 'On'])]
# SWITCHED OFF -- finding on the unchanged tree (reported, repair pending): a user data type defined over an enumeration
# (S_UDT 'Tint' over 'Color', R18).  prebuild.accept_EnumOrNamedConstantNode resolves the alias and relates the V_LEN to
# the S_ENUM of Color; sourcegen.accept_V_LEN prints the name of the enumeration, so "x = Tint::Red;" is regenerated
# as "x = Color::Red;" -- another namespace in the tree (sig c05:AssignmentNode:namespace).  Set to True to explore it:
# the host then declares the alias and the family "names" reads Tint::Red next to every other qualified name.
EXPLORE_ENUM_ALIASES = False
ENUM_ALIASES = [('Tint', 'Color')]
CONSTANTS = [CONSTANT, ('L', 'TEN', 'string', 'ten'), ('L', 'Red', 'integer', '7')]
# relationship number -> description
RELS = {1: ('simple', 'A', 'B'), 2: ('reflexive', 'A', 'A'), 3: ('linked', 'A', 'B', 'C')}
# phrase written at each end (the phrase used when navigating TO that end's class)
PHRASES = {(1, 'A'): 'is owned by', (1, 'B'): 'owns', (2, 'part'): 'next', (2, 'form'): 'prev', (3, 'A'): 'left', (3, 'B'): 'right'}
# navigation steps: (from class, rel, to class, phrase or None) -> whether the step is to-many
# R1: one A -- many B;  R2: A 0..1 'next' -- 0..1 'prev' A;  R3: one A -- many B through C (one C per pair)
STEPS = {}
for _ph in (None, 'owns'):
    STEPS['A', 1, 'B', _ph] = True
for _ph in (None, 'is owned by'):
    STEPS['B', 1, 'A', _ph] = False
STEPS['A', 2, 'A', 'next'] = False
STEPS['A', 2, 'A', 'prev'] = False
for _ph in (None, 'right'):
    STEPS['A', 3, 'B', _ph] = True
    STEPS['C', 3, 'B', _ph] = False
for _ph in (None, 'left'):
    STEPS['B', 3, 'A', _ph] = False
    STEPS['C', 3, 'A', _ph] = False
STEPS['A', 3, 'C', None] = True
STEPS['B', 3, 'C', None] = False

# parameters of each home, in declaration order
HOME_PARAMS = {'function': FUNCTIONS[HOME_CALLABLE['function']][1], 'bridge': BRIDGES[HOME_CALLABLE['bridge']][1],
               'operation': OPERATIONS[HOME_CALLABLE['operation']][2], 'attribute': []}
HOME_HAS_SELF = {'function': False, 'bridge': False, 'operation': True, 'attribute': True}


class Host(object):
    '''The populated metamodel and its four action homes.'''
    def __init__(self, m):
        self.m = m
        self.homes = {}
        self.types = {}           # type name -> the S_DT instance an action of the homes sees under that name
        self.variant = None


# Host variants (build_host(m, variant)).  None: every element is global (no package, no component).  'components': three
# components below one system-level package, created in this order: a twin, the component of the four homes, a twin.  A twin
# declares everything an action refers to through the names visible from its component -- classes with the same key letters
# and attribute names, associations with the same numbers and phrases, functions, an external entity with the same key
# letters and bridges, operations -- with every declared type replaced according to TWIN_RETYPE.  Names in an action are
# resolved from the component that defines the action, so the twins must never show in its population.
#
# 'refchain': the default host plus a referential attribute two references deep.  Class B gets a second identifier {A_Id} (A_Id
# is itself referential: it refers to A.Id across R1); class A gets the attribute B_A_Id that refers to B.A_Id across R4 (B one,
# identified by its second identifier -- many A), with the O_REF / O_RTIDA / O_OIDA instances every BridgePoint model holds for a
# referential attribute.  Its base attribute (R113) is A.Id, so a read of B_A_Id has the declared type of A.Id.
HOST_VARIANTS = (None, 'components', 'refchain')
# attributes a host variant adds to the static description: variant -> class -> [(name, type, kind)]
VARIANT_ATTRS = {'refchain': {'A': [('B_A_Id', 'unique_id', 'ref')]}}

# 'handles' (C06, round 11): the default host plus everything needed to reach an instance through EVERY kind of handle expression
# the grammar offers in front of ".<name>" -- an instance variable, self, selected, a parameter declared inst_ref<Class>, an
# element of an array (parameter, attribute) of such handles, an attribute declared inst_ref<Class>, and chains of these -- and
# attributes whose names the translation knows from elsewhere: `length` (what the translation takes for the length of an array
# when nothing else fits), declared with another type in each class, `Length`, `sender`.  Arrays of core-typed elements
# (parameter ns, attribute A.Nums, next to the transient arrays of the prelude) let the genuine <array>.length be read too.
HOST_VARIANTS += ('handles',)
VARIANT_ATTRS['handles'] = {
    'A': [('length', 'real', 'base'), ('Length', 'string', 'base'), ('sender', 'boolean', 'base'), ('Peer', 'inst_ref<A>', 'base'),
          ('Mate', 'inst_ref<B>', 'base'), ('Via', 'inst_ref<C>', 'base'), ('Peers', 'inst_ref<A>', 'base'), ('Nums', 'integer', 'base'),
          ('Info', 'Rec', 'base')],
    'B': [('length', 'Label', 'base'), ('Owner', 'inst_ref<A>', 'base')],
    'C': [('length', 'integer', 'base')],
}
# parameters a host variant appends to the callable of a home: variant -> home -> [(name, type)]
VARIANT_PARAMS = {'handles': dict((home, [('h', 'inst_ref<A>'), ('hb', 'inst_ref<B>'), ('hs', 'inst_ref<A>'), ('ns', 'integer'), ('rec', 'Rec')])
                                  for home in ('function', 'bridge', 'operation'))}
# structured data types (S_SDT) a host variant declares: variant -> [(name, [(member, type)])].  Rec has a member named `length`
# and one that holds an instance handle (another kind of expression in front of ".<name>")
VARIANT_STRUCTS = {'handles': [('Rec', [('length', 'real'), ('who', 'inst_ref<A>'), ('count', 'integer')])]}


def struct_members(variant, t):
    '''[(member, type)] of the structured data type named t in the host of the variant, else None.'''
    return dict(VARIANT_STRUCTS.get(variant, ())).get(t)
# array dimensions (element counts) of attributes and parameters: variant -> ('attr', class, name) | ('param', name) -> [counts]
VARIANT_DIMS = {'handles': {('attr', 'A', 'Peers'): [3], ('attr', 'A', 'Nums'): [4], ('param', 'hs'): [2], ('param', 'ns'): [5]}}


def home_params_of(home, variant=None):
    '''Parameters (name, type) of the home in the host of the given variant, in declaration order.'''
    return HOME_PARAMS[home] + VARIANT_PARAMS.get(variant, {}).get(home, [])


# attribute names the translation (bridgepoint/prebuild.py) compares names with: `length` in accept_FieldAccessNode, `sender` and
# `self` in find_symbol (`self` is a keyword and cannot name an attribute); `Length` differs from the first in case only
SPECIAL_ATTRIBUTE_NAMES = ('length', 'Length', 'sender')


def handle_kind(h):
    '''Kind of the expression in front of ".<name>" or "[...]": variable | self | selected | parameter | attribute-of-<kind> |
    element-of-<kind> (kinds nest: element-of-attribute-of-parameter).'''
    cls = h['cls']
    if cls == 'FieldAccessNode':
        return ('member-of-' if h.get('vkind') == 'V_MVL' else 'attribute-of-') + handle_kind(h['fields']['handle'])
    if cls == 'IndexAccessNode':
        return 'element-of-' + handle_kind(h['fields']['handle'])
    return {'VariableAccessNode': 'variable', 'SelfAccessNode': 'self', 'SelectedAccessNode': 'selected',
            'ParamAccessNode': 'parameter'}.get(cls, cls)


def dims_of(variant, *key):
    '''Number of array dimensions of an attribute ('attr', class, name) or a home parameter ('param', name).'''
    return len(VARIANT_DIMS.get(variant, {}).get(key, ()))


def class_attrs(kl, variant=None):
    '''Ordered attributes (name, declared type, kind) of the class in the host of the given variant.'''
    return CLASSES[kl] + VARIANT_ATTRS.get(variant, {}).get(kl, [])

TWIN_RETYPE = {'integer': 'string', 'string': 'boolean', 'boolean': 'real', 'real': 'integer', 'Color': 'Mode',
               'Stamp': 'Label', 'Label': 'Tick', 'Tick': 'Stamp'}


def base_t(t):
    '''The core type underneath a user data type (any other type: itself).'''
    d = dict(USER_TYPES)
    while t in d:
        t = d[t]
    return t


def loader():
    from bridgepoint import ooaofooa
    return ooaofooa.Loader()


def build_host(m, variant=None):
    '''Populate the ooaofooa metamodel *m* through the API.  Returns a Host.'''
    import xtuml
    from xtuml import where_eq as where
    assert variant in HOST_VARIANTS, variant

    def rel(a, b, n, phrase=''):
        if not xtuml.relate(a, b, n, phrase):
            raise AssertionError('host: relate %s %s R%s failed' % (a, b, n))

    def dt(name):
        d = m.select_any('S_DT', where(Name=name))
        assert d is not None, name
        return d

    package = [None]            # the EP_PKG the packageable elements created next belong to (None: they are global)

    def pe(inst, ty, c_c=None):
        p = m.new('PE_PE', Visibility=1, type=ty)
        rel(inst, p, 8001)
        if c_c is not None:
            rel(p, c_c, 8003)
        elif package[0] is not None:
            rel(p, package[0], 8000)
        return p

    host = Host(m)
    host.variant = variant

    # -- enumerations Color {Red, Green, Blue} and Mode {Off, Red, On}, chained by R56 --------------------
    for ename, enumerators in ENUMS:
        s_dt = m.new('S_DT', Name=ename)
        pe(s_dt, 3)
        s_edt = m.new('S_EDT')
        rel(s_edt, s_dt, 17)
        prev = None
        for name in enumerators:
            s_enum = m.new('S_ENUM', Name=name)
            rel(s_enum, s_edt, 27)
            if prev is not None:
                rel(prev, s_enum, 56, 'precedes')
            prev = s_enum
    if EXPLORE_ENUM_ALIASES:
        for alias, base in ENUM_ALIASES:
            s_dt = m.new('S_DT', Name=alias)
            pe(s_dt, 3)
            s_udt = m.new('S_UDT')
            rel(s_udt, s_dt, 17)
            rel(s_udt, dt(base), 18)
    # -- user data types, each defined (R18) over a core type or over the one declared before it ---------------
    for uname, over in USER_TYPES:
        s_dt = m.new('S_DT', Name=uname)
        pe(s_dt, 3)
        s_udt = m.new('S_UDT')
        rel(s_udt, s_dt, 17)
        rel(s_udt, dt(over), 18)
    enums = m.select_many('S_ENUM')
    second = [e for e in enums if e.Name == ENUM[1][1]][0]
    first = [e for e in enums if e.Name == ENUM[1][0]][0]
    assert second.Previous_Enum_ID == first.Enum_ID, 'host: R56 chained the wrong way'

    # -- constant groups K {TEN} and L {TEN, Red} ---------------------------------------
    groups = {}
    prev_syc = {}
    for gname, cname, cty, cval in CONSTANTS:
        if gname not in groups:
            groups[gname] = m.new('CNST_CSP', InformalGroupName=gname)
            pe(groups[gname], 10)
        csp = groups[gname]
        syc = m.new('CNST_SYC', Name=cname)
        lfsc = m.new('CNST_LFSC')
        lsc = m.new('CNST_LSC', Value=cval)
        rel(syc, dt(cty), 1500)
        rel(syc, csp, 1504)
        rel(lfsc, syc, 1502)
        rel(lsc, lfsc, 1503)
        if gname in prev_syc:
            rel(prev_syc[gname], syc, 1505, 'precedes')
            assert syc.Previous_Const_ID == prev_syc[gname].Const_ID, 'host: R1505 chained the wrong way'
        prev_syc[gname] = syc

    def dimensions(inst, rel_id, *key):
        '''The S_DIM instances of an attribute or parameter the variant declares as an array (none in the other variants).'''
        for n, count in enumerate(VARIANT_DIMS.get(variant, {}).get(key, ())):
            rel(m.new('S_DIM', elementCount=count, dimensionCount=n), inst, rel_id)

    def home_parameters(home, name, params):
        '''The declared parameters, followed -- for the callable of a home -- by the ones the variant appends.'''
        return params + (VARIANT_PARAMS.get(variant, {}).get(home, []) if name == HOME_CALLABLE[home] else [])

    def component(own, retype):
        '''Everything an action refers to through its component: classes, associations, functions, the external entity
        and the operations.  own: the component of the four homes; retype: declared type -> type declared here.'''
        # -- classes ----------------------------------------------------------------------
        objs, attrs, oids = {}, {}, {}
        for numb, kl in enumerate(sorted(CLASSES), 1):
            o_obj = m.new('O_OBJ', Name=('Class ' if own else 'Twin ') + kl, Key_Lett=kl, Numb=numb)      # name differs from the key letters
            pe(o_obj, 4)
            objs[kl] = o_obj
            for i in range(3):
                o_id = m.new('O_ID', Oid_ID=i)
                rel(o_id, o_obj, 104)
                oids[kl, i] = o_id
            for isset in (False, True):
                s_dt = m.new('S_DT', Name=('inst_ref_set<%s>' if isset else 'inst_ref<%s>') % kl)
                pe(s_dt, 3)
                s_irdt = m.new('S_IRDT', isSet=isset)
                rel(s_irdt, s_dt, 17)
                rel(s_irdt, o_obj, 123)
                if own:
                    host.types[s_dt.Name] = s_dt
        # -- structured data types of the variant (declared behind the classes: a member may hold an instance handle) ---------
        for sname, members in (VARIANT_STRUCTS.get(variant, []) if own else []):
            s_dt = m.new('S_DT', Name=sname)
            pe(s_dt, 3)
            s_sdt = m.new('S_SDT')
            rel(s_sdt, s_dt, 17)
            prev = None
            for mname, mty in members:
                s_mbr = m.new('S_MBR', Name=mname)
                rel(s_mbr, s_sdt, 44)
                rel(s_mbr, dt(mty), 45)
                if prev is not None:
                    rel(prev, s_mbr, 46, 'precedes')
                prev = s_mbr
        for kl in sorted(CLASSES):
            prev = None
            for name, ty, kind in class_attrs(kl, variant):
                o_attr = m.new('O_ATTR', Name=name, Root_Nam=name)
                rel(o_attr, objs[kl], 102)
                rel(o_attr, dt('same_as<Base_Attribute>' if kind == 'ref' else retype(ty)), 114)
                if prev is not None:
                    rel(prev, o_attr, 103, 'precedes')
                prev = o_attr
                attrs[kl, name] = o_attr
                dimensions(o_attr, 120, 'attr', kl, name)
                if kind == 'ref':
                    continue
                o_battr = m.new('O_BATTR')
                rel(o_battr, o_attr, 106)
                if kind == 'derived':
                    o_dbattr = m.new('O_DBATTR')
                    rel(o_dbattr, o_battr, 107)
                    if own:
                        host.homes['attribute'] = o_dbattr
                else:
                    rel(m.new('O_NBATTR'), o_battr, 107)
            o_oida = m.new('O_OIDA', localAttributeName='Id')
            rel(o_oida, oids[kl, 0], 105)
            rel(o_oida, attrs[kl, 'Id'], 105)
        assert attrs['A', 'Flag'].PAttr_ID == attrs['A', 'Id'].Attr_ID, 'host: R103 chained the wrong way'

        # -- relationships, one R_OIR per end ---------------------------------------------------
        def r_rel(numb):
            r = m.new('R_REL', Numb=numb)
            pe(r, 9)
            return r

        def oir(r, kl):
            x = m.new('R_OIR')
            rel(x, r, 201)
            rel(x, objs[kl], 201)
            return x

        def rto(r, kl, sub, **kw):
            r_rto = m.new('R_RTO')
            rel(r_rto, oir(r, kl), 203)
            rel(r_rto, oids[kl, 0], 109)
            s = m.new(sub, **kw)
            rel(s, r_rto, 204)
            return r_rto, s

        def rgo(r, kl, sub, **kw):
            r_rgo = m.new('R_RGO')
            rel(r_rgo, oir(r, kl), 203)
            s = m.new(sub, **kw)
            rel(s, r_rgo, 205)
            return r_rgo, s

        # R1: A (participant) 1 -- * B (formaliser), B.A_Id refers to A.Id
        r1 = r_rel(1)
        r_simp = m.new('R_SIMP')
        rel(r_simp, r1, 206)
        r_rto, r_part = rto(r1, 'A', 'R_PART', Mult=0, Cond=0, Txt_Phrs=PHRASES[1, 'A'])
        rel(r_part, r_simp, 207)
        r_rgo, r_form = rgo(r1, 'B', 'R_FORM', Mult=1, Cond=1, Txt_Phrs=PHRASES[1, 'B'])
        rel(r_form, r_simp, 208)
        o_rattr = m.new('O_RATTR', Ref_Mode=0, BaseAttrName='Id')
        rel(o_rattr, attrs['B', 'A_Id'], 106)
        rel(o_rattr, xtuml.navigate_one(attrs['A', 'Id']).O_BATTR[106](), 113)
        o_rtida = m.new('O_RTIDA')
        rel(o_rtida, r_rto, 110)
        rel(o_rtida, xtuml.navigate_one(attrs['A', 'Id']).O_OIDA[105](), 110)
        o_ref = m.new('O_REF', Is_Cstrd=False, RObj_Name='A', RAttr_Name='Id')
        rel(o_ref, r_rgo, 111)
        rel(o_ref, o_rtida, 111)
        rel(o_ref, o_rattr, 108)

        if variant == 'refchain':
            # B's second identifier {A_Id}; R4: B (participant, identified by it) 1 -- * A (formaliser): A.B_A_Id refers to
            # B.A_Id, which itself refers to A.Id
            o_oida2 = m.new('O_OIDA', localAttributeName='A_Id')
            rel(o_oida2, oids['B', 1], 105)
            rel(o_oida2, attrs['B', 'A_Id'], 105)
            r4 = r_rel(4)
            r_simp4 = m.new('R_SIMP')
            rel(r_simp4, r4, 206)
            r_rto4 = m.new('R_RTO')
            rel(r_rto4, oir(r4, 'B'), 203)
            rel(r_rto4, oids['B', 1], 109)
            r_part4 = m.new('R_PART', Mult=0, Cond=0, Txt_Phrs='heads')
            rel(r_part4, r_rto4, 204)
            rel(r_part4, r_simp4, 207)
            r_rgo4, r_form4 = rgo(r4, 'A', 'R_FORM', Mult=1, Cond=1, Txt_Phrs='follows')
            rel(r_form4, r_simp4, 208)
            o_rattr2 = m.new('O_RATTR', Ref_Mode=0, BaseAttrName='Id')
            rel(o_rattr2, attrs['A', 'B_A_Id'], 106)
            rel(o_rattr2, xtuml.navigate_one(attrs['A', 'Id']).O_BATTR[106](), 113)
            o_rtida2 = m.new('O_RTIDA')
            rel(o_rtida2, r_rto4, 110)
            rel(o_rtida2, o_oida2, 110)
            o_ref2 = m.new('O_REF', Is_Cstrd=False, RObj_Name='B', RAttr_Name='A_Id')
            rel(o_ref2, r_rgo4, 111)
            rel(o_ref2, o_rtida2, 111)
            rel(o_ref2, o_rattr2, 108)

        # R2: reflexive on A with the phrases 'next' / 'prev'
        r2 = r_rel(2)
        r_simp = m.new('R_SIMP')
        rel(r_simp, r2, 206)
        _, r_part = rto(r2, 'A', 'R_PART', Mult=0, Cond=1, Txt_Phrs=PHRASES[2, 'part'])
        rel(r_part, r_simp, 207)
        _, r_form = rgo(r2, 'A', 'R_FORM', Mult=0, Cond=1, Txt_Phrs=PHRASES[2, 'form'])
        rel(r_form, r_simp, 208)

        # R3: A -- B linked through the association class C
        r3 = r_rel(3)
        r_assoc = m.new('R_ASSOC')
        rel(r_assoc, r3, 206)
        _, r_aone = rto(r3, 'A', 'R_AONE', Mult=0, Cond=1, Txt_Phrs=PHRASES[3, 'A'])
        rel(r_aone, r_assoc, 209)
        _, r_aoth = rto(r3, 'B', 'R_AOTH', Mult=1, Cond=1, Txt_Phrs=PHRASES[3, 'B'])
        rel(r_aoth, r_assoc, 210)
        _, r_assr = rgo(r3, 'C', 'R_ASSR', Mult=0)
        rel(r_assr, r_assoc, 211)

        # -- functions ----------------------------------------------------------------------------
        for numb, name in enumerate(sorted(FUNCTIONS), 1):
            ret, params = FUNCTIONS[name]
            s_sync = m.new('S_SYNC', Name=name, Numb=numb, Suc_Pars=0)
            pe(s_sync, 1)
            rel(s_sync, dt(retype(ret)), 25)
            prev = None
            for pname, pty in home_parameters('function', name, params):
                s_sparm = m.new('S_SPARM', Name=pname, By_Ref=0)
                rel(s_sparm, s_sync, 24)
                rel(s_sparm, dt(retype(pty)), 26)
                if name == HOME_CALLABLE['function']:
                    dimensions(s_sparm, 52, 'param', pname)
                if prev is not None:
                    rel(prev, s_sparm, 54, 'precedes')
                prev = s_sparm
            if name == HOME_CALLABLE['function'] and own:
                host.homes['function'] = s_sync

        # -- external entity with bridges ------------------------------------------------------------
        s_ee = m.new('S_EE', Name='External Entity' if own else 'Twin Entity', Key_Lett=EE)
        pe(s_ee, 5)
        for name in sorted(BRIDGES):
            ret, params = BRIDGES[name]
            s_brg = m.new('S_BRG', Name=name, Brg_Typ=0, Suc_Pars=0)
            rel(s_brg, s_ee, 19)
            rel(s_brg, dt(retype(ret)), 20)
            prev = None
            for pname, pty in home_parameters('bridge', name, params):
                s_bparm = m.new('S_BPARM', Name=pname, By_Ref=0)
                rel(s_bparm, s_brg, 21)
                rel(s_bparm, dt(retype(pty)), 22)
                if name == HOME_CALLABLE['bridge']:
                    dimensions(s_bparm, 49, 'param', pname)
                if prev is not None:
                    rel(prev, s_bparm, 55, 'precedes')
                prev = s_bparm
            if name == HOME_CALLABLE['bridge'] and own:
                host.homes['bridge'] = s_brg

        # -- operations of A ----------------------------------------------------------------------------
        prev_tfr = None
        for numb, name in enumerate(OPERATION_ORDER, 1):
            ret, instance_based, params = OPERATIONS[name]
            o_tfr = m.new('O_TFR', Name=name, Instance_Based=int(instance_based), Numb=numb, Suc_Pars=0)
            rel(o_tfr, objs['A'], 115)
            rel(o_tfr, dt(retype(ret)), 116)
            if prev_tfr is not None:
                rel(prev_tfr, o_tfr, 125, 'precedes')
            prev_tfr = o_tfr
            prev = None
            for pname, pty in home_parameters('operation', name, params):
                o_tparm = m.new('O_TPARM', Name=pname, By_Ref=0)
                rel(o_tparm, o_tfr, 117)
                rel(o_tparm, dt(retype(pty)), 118)
                if name == HOME_CALLABLE['operation']:
                    dimensions(o_tparm, 121, 'param', pname)
                if prev is not None:
                    rel(prev, o_tparm, 124, 'precedes')
                prev = o_tparm
            if name == HOME_CALLABLE['operation'] and own:
                host.homes['operation'] = o_tfr


    if variant in (None, 'refchain', 'handles'):
        component(True, lambda t: t)
    else:
        s_sys = m.new('S_SYS', Name='host')
        root = m.new('EP_PKG', Name='system')
        pe(root, 7)
        rel(root, s_sys, 1401)
        rel(root, s_sys, 1405)
        for cname in ('before', 'own', 'after'):
            c_c = m.new('C_C', Name=cname)
            package[0] = root
            pe(c_c, 2)
            pkg = m.new('EP_PKG', Name=cname + ' elements')      # the usual layout: a package inside the component
            pe(pkg, 7, c_c=c_c)
            rel(pkg, s_sys, 1405)
            package[0] = pkg
            component(cname == 'own', (lambda t: t) if cname == 'own' else (lambda t: TWIN_RETYPE.get(t, t)))
        package[0] = None
    for s_dt in m.select_many('S_DT'):
        if xtuml.navigate_one(s_dt).S_IRDT[17]() is None:
            assert s_dt.Name not in host.types, 'host: two data types named %s' % s_dt.Name
            host.types[s_dt.Name] = s_dt

    assert sorted(host.homes) == sorted(HOMES)
    return host


# ---------------------------------------------------------------------------
# Part 2 -- static analysis of a printed program: name resolution, OAL scoping
# and typing.  Works on the expected parse tree the printer of oalast produced
# (dict(cls, fields, first, last)); annotates expression nodes with 't' (type)
# and 'claim' (the typing rule of the C06 statement that applies, or None), and
# variable references with 'var'.  Raises IllFormed for programs outside the
# quantifier (unresolved names, ill-typed operands, break outside a loop...).
#
# User data types: a value declared with one (attribute, parameter, return
# value) has exactly that type, and so has the transient it is first assigned
# to.  For well-formedness a user data type stands for the core type underneath
# it (base_t): such a value may be an operand next to core-typed ones, a
# parameter value, and be assigned to something declared with the core type or
# with another user data type over the same core type -- the thing assigned to
# keeps the type it was declared with.
# ---------------------------------------------------------------------------

class IllFormed(Exception):
    def __init__(self, why, name=None):
        Exception.__init__(self, why)
        self.name = name          # undeclared variable, when that is the reason


NUMERIC = ('integer', 'real')
COMPARISONS = ('<', '<=', '==', '!=', '>=', '>')


def inst_t(kl):
    return 'inst_ref<%s>' % kl


def set_t(kl):
    return 'inst_ref_set<%s>' % kl


def class_of(t):
    '''(class, is set) of an instance(-set) reference type, else None.'''
    if t and t.startswith('inst_ref_set<'):
        return t[13:-1], True
    if t and t.startswith('inst_ref<'):
        return t[9:-1], False
    return None


class Var(object):
    def __init__(self, name, t, block, dims=0, first=None, claimed=True):
        self.name = name
        self.t = t                  # declared type (element type for arrays)
        self.block = block          # expected BlockNode of the declaring block
        self.dims = dims
        self.first = first          # expression node first assigned (transients), else None
        self.claimed = claimed      # whether t is claimed by the property or only relative to the first value
        self.insts = []             # (filled by the C06 walk) V_VAR instances the references resolved to


class Scope(object):
    def __init__(self, parent, block, in_loop):
        self.parent = parent
        self.block = block
        self.in_loop = in_loop
        self.vars = {}

    def lookup(self, name):
        s = self
        while s is not None:
            if name in s.vars:
                return s.vars[name]
            s = s.parent
        return None


class Analysis(object):
    def __init__(self, printed, home, variant=None):
        self.p = printed
        self.home = home
        self.variant = variant      # host variant: decides which attributes the classes have
        self.vars = []
        self.blocks = []            # every BlockNode, outermost first
        self.features = set()
        self.n_statements = 0
        self.max_depth = 0
        self.selected = []          # stack of classes `selected` refers to
        self.qualified = []         # (enumerator | constant, namespace, name) of every qualified read, in source order
        root = printed.expected['fields']['block']
        self.block(root, None, False, 1)

    # -- helpers -------------------------------------------------------------
    def f(self, node, name):
        v = node['fields'][name]
        if isinstance(v, tuple) and v and v[0] == 'kwtext':
            return self.p.toks[v[1]].text.lower()
        return v

    def declare(self, scope, name, t, dims=0, first=None, claimed=True):
        v = Var(name, t, scope.block, dims, first, claimed)
        scope.vars[name] = v
        self.vars.append(v)
        return v

    # -- blocks and statements -----------------------------------------------------
    def block(self, node, parent, in_loop, depth):
        scope = Scope(parent, node, in_loop)
        node['depth'] = depth
        self.blocks.append(node)
        self.max_depth = max(self.max_depth, depth)
        for s in node['fields']['statement_list']['fields']['children']:
            self.n_statements += 1
            self.features.add('stmt:' + s['cls'])
            getattr(self, 's_' + s['cls'])(s, scope)
        return scope

    def s_AssignmentNode(self, s, scope):
        r = s['fields']['expression']
        l = s['fields']['variable_access']
        tr = self.expr(r, scope)
        if tr == 'void':
            raise IllFormed('void value assigned')
        if r['cls'].endswith('InvocationNode'):
            self.invocation_feature(r, 'expr')
        cls = l['cls']
        if cls == 'VariableAccessNode':
            name = self.f(l, 'variable_name')
            v = scope.lookup(name)
            if v is None:
                claimed = bool(r.get('claim')) or class_of(tr) is not None
                if r.get('var') is not None and not r['var'].claimed:
                    claimed = False         # a copy of a variable whose type is not claimed: relative to the observed type again
                v = self.declare(scope, name, tr, 0, r, claimed)
                l['declares'] = True
                self.features.add('assign:declares')
                if v.claimed and base_t(tr) != tr:
                    self.features.add('udt:declares-transient')
                if class_of(tr):
                    self.features.add('assign:migrates-' + ('set' if class_of(tr)[1] else 'instance'))
            elif v.dims or base_t(v.t) != base_t(tr):
                raise IllFormed('assignment changes the type of %s' % name)
            elif v.t != tr:
                self.features.add('udt:assigned-across-types')
            l['var'] = v
            l['t'] = v.t
            l['claim'] = 'variable'
            self.features.add('assign:scalar')
        elif cls == 'FieldAccessNode' and self.variant == 'handles':
            # an attribute of the instance ANY handle expression yields (selected has no place on the left)
            ta, da = self.hx(l, scope)
            attr = l.get('attr')
            if l.get('claim') == 'member' and not da and 'parameter' not in handle_kind(l) and not handle_kind(l).endswith('selected'):
                attr = (None, self.f(l, 'name'), ta, 'base')         # a member of a structure held by a transient or an attribute
            if da or attr is None or handle_kind(l).endswith('selected'):
                raise IllFormed('not an attribute of an instance')
            ok = attr[3] == 'base' and attr[1] != 'Id' or \
                (attr[3] == 'derived' and self.home == 'attribute' and l['fields']['handle']['cls'] == 'SelfAccessNode')
            if not ok:
                raise IllFormed('attribute is not writable here')
            if base_t(ta) != base_t(tr):
                raise IllFormed('attribute assigned a value of another type')
            self.features.add('assign:attribute')
            self.features.add('attribute-written-through:%s:%s' % (handle_kind(l['fields']['handle']),
                                                                   attr[1] if attr[1] in SPECIAL_ATTRIBUTE_NAMES else 'other'))
        elif cls == 'FieldAccessNode':
            h = l['fields']['handle']
            th = self.expr(h, scope)
            k = class_of(th)
            if h['cls'] not in ('VariableAccessNode', 'SelfAccessNode') or not k or k[1]:
                raise IllFormed('attribute written through something else than an instance handle')
            attr = [a for a in class_attrs(k[0], self.variant) if a[0] == self.f(l, 'name')]
            if not attr:
                raise IllFormed('unknown attribute')
            ok = attr[0][2] == 'base' and attr[0][0] != 'Id' or \
                (attr[0][2] == 'derived' and self.home == 'attribute' and h['cls'] == 'SelfAccessNode')
            if not ok:
                raise IllFormed('attribute is not writable here')
            if base_t(attr[0][1]) != base_t(tr):
                raise IllFormed('attribute assigned a value of another type')
            if base_t(attr[0][1]) != attr[0][1]:
                self.features.add('udt:attribute-write')
            l['t'] = attr[0][1]
            l['claim'] = 'attribute'
            self.features.add('assign:attribute')
        elif cls == 'IndexAccessNode':
            idx = []
            n = l
            while n['cls'] == 'IndexAccessNode':
                idx.append(n['fields']['expression'])
                n = n['fields']['handle']
            if n['cls'] != 'VariableAccessNode':
                raise IllFormed('array element of something else than a variable')
            name = self.f(n, 'variable_name')
            v = scope.lookup(name)
            if v is None:
                for x in idx:
                    if x['cls'] != 'IntegerNode' and not (x['cls'] == 'BinaryOperationNode' and self.f(x, 'operator') in '+-*' and
                                                          x['fields']['left']['cls'] == x['fields']['right']['cls'] == 'IntegerNode'):
                        raise IllFormed('array declared with a non-constant index', name)
                v = self.declare(scope, name, tr, len(idx), r, bool(r.get('claim')))
                n['declares'] = True
                self.features.add('assign:declares-array')
            elif v.dims != len(idx) or base_t(v.t) != base_t(tr):
                raise IllFormed('array element assignment does not fit the array')
            for x in idx:
                if self.expr(x, scope) != 'integer':
                    raise IllFormed('index is not an integer')
            m = l
            while m['cls'] == 'IndexAccessNode':
                m['t'] = v.t
                m['claim'] = None
                m = m['fields']['handle']
            n['var'] = v
            n['t'] = v.t
            n['claim'] = 'variable'
            self.features.add('assign:array-%d' % len(idx))
        else:
            raise IllFormed('unsupported assignment target')

    def s_BreakNode(self, s, scope):
        if not scope.in_loop:
            raise IllFormed('break outside a loop')

    s_ContinueNode = s_BreakNode

    def s_ControlNode(self, s, scope):
        pass

    def s_ReturnNode(self, s, scope):
        e = s['fields']['expression']
        if e is not None:
            if self.expr(e, scope) == 'void':
                raise IllFormed('void value returned')
            if e['cls'].endswith('InvocationNode'):
                self.invocation_feature(e, 'expr')
            self.features.add('return:value')
        else:
            self.features.add('return:bare')

    def inst_var(self, scope, name, kl=None, is_set=False):
        if name == 'self':
            if not HOME_HAS_SELF[self.home]:
                raise IllFormed('self outside an instance-based action')
            self.features.add('self')
            t = inst_t('A')
            v = None
        else:
            v = scope.lookup(name)
            if v is None:
                raise IllFormed('undeclared variable %s' % name, name)
            if v.dims:
                raise IllFormed('array used as a handle')
            t = v.t
        k = class_of(t)
        if not k or k[1] != is_set or (kl is not None and k[0] != kl):
            raise IllFormed('%s is not a handle of the required kind' % name)
        return v, k[0]

    def result_var(self, s, scope, field, kl, is_set):
        name = self.f(s, field)
        v = scope.lookup(name)
        if v is None:
            v = self.declare(scope, name, set_t(kl) if is_set else inst_t(kl))
            s.setdefault('declares', []).append(field)
            self.features.add('declares:' + s['cls'])
        else:
            if v.dims or v.t != (set_t(kl) if is_set else inst_t(kl)):
                raise IllFormed('%s redeclared with another kind' % name)
            self.features.add('reuses:' + s['cls'])
        s.setdefault('vars', {})[field] = v

    def s_CreateObjectNode(self, s, scope):
        kl = self.f(s, 'key_letter')
        if kl not in CLASSES:
            raise IllFormed('unknown class')
        self.result_var(s, scope, 'variable_name', kl, False)

    def s_CreateObjectNoVariableNode(self, s, scope):
        if self.f(s, 'key_letter') not in CLASSES:
            raise IllFormed('unknown class')

    def s_DeleteNode(self, s, scope):
        v, _ = self.inst_var(scope, self.f(s, 'variable_name'))
        s.setdefault('vars', {})['variable_name'] = v

    def s_RelateNode(self, s, scope):
        va, ka = self.inst_var(scope, self.f(s, 'from_variable_name'))
        vb, kb = self.inst_var(scope, self.f(s, 'to_variable_name'))
        rel = self.f(s, 'rel_id')
        if rel not in ('R1', 'R2', 'R3'):
            raise IllFormed('unknown relationship')
        n = int(rel[1:])
        ph = self.f(s, 'phrase')
        ph = ph[1:-1] if ph else None
        using = 'using_variable_name' in s['fields']
        if n == 3:
            if not using or (ka, n, kb, ph) not in STEPS or 'C' in (ka, kb):
                raise IllFormed('R3 relates an A and a B using a C')
            vc, _ = self.inst_var(scope, self.f(s, 'using_variable_name'), 'C')
            s.setdefault('vars', {})['using_variable_name'] = vc
            self.features.add('using')
        else:
            if using or (ka, n, kb, ph) not in STEPS:
                raise IllFormed('relationship does not connect these classes with this phrase')
        if ph is not None:
            self.features.add('relate:phrase')
        s.setdefault('vars', {})['from_variable_name'] = va
        s['vars']['to_variable_name'] = vb

    s_RelateUsingNode = s_UnrelateNode = s_UnrelateUsingNode = s_RelateNode

    def where(self, s, scope, kl):
        w = s['fields']['where_clause']
        self.selected.append(kl)
        try:
            if self.expr(w, scope) != 'boolean':
                raise IllFormed('where clause is not boolean')
        finally:
            self.selected.pop()
        if w['cls'].endswith('InvocationNode'):
            self.invocation_feature(w, 'expr')

    def s_SelectFromNode(self, s, scope):
        kl = self.f(s, 'key_letter')
        card = self.f(s, 'cardinality')
        if kl not in CLASSES or card not in ('any', 'many'):
            raise IllFormed('bad select')
        if 'where_clause' in s['fields']:
            self.where(s, scope, kl)
        self.result_var(s, scope, 'variable_name', kl, card == 'many')
        self.features.add('select:%s:%s' % ('from-where' if 'where_clause' in s['fields'] else 'from', card))

    s_SelectFromWhereNode = s_SelectFromNode

    def s_SelectRelatedNode(self, s, scope):
        h = s['fields']['handle']
        if h['cls'] not in ('VariableAccessNode', 'SelfAccessNode'):
            raise IllFormed('unsupported navigation start')
        k = class_of(self.expr(h, scope))
        if not k:
            raise IllFormed('navigation does not start at a handle')
        kl, many = k
        steps = s['fields']['navigation_chain']['fields']['children']
        for st in steps:
            rel = self.f(st, 'rel_id')
            ph = self.f(st, 'phrase')
            key = (kl, int(rel[1:]) if rel in ('R1', 'R2', 'R3') else 0, self.f(st, 'key_letter'), ph[1:-1] if ph else None)
            if key not in STEPS:
                raise IllFormed('navigation step is not defined in the class diagram')
            many = many or STEPS[key]
            kl = key[2]
            if ph:
                self.features.add('chain:phrase-at-step-%d' % min(steps.index(st) + 1, 2))
        card = self.f(s, 'cardinality')
        if (card == 'one') == many:
            raise IllFormed('cardinality does not fit the multiplicity of the chain')
        form = 'related-where' if 'where_clause' in s['fields'] else 'related'
        if form == 'related':
            self.result_var(s, scope, 'variable_name', kl, card == 'many')
        else:
            self.where(s, scope, kl)
            self.result_var(s, scope, 'variable_name', kl, card == 'many')
        self.features.add('select:%s:%s' % (form, card))
        self.features.add('chain:%d' % min(len(steps), 3))

    s_SelectRelatedWhereNode = s_SelectRelatedNode

    def cond(self, s, scope):
        e = s['fields']['expression']
        if self.expr(e, scope) != 'boolean':
            raise IllFormed('condition is not boolean')
        if e['cls'].endswith('InvocationNode'):
            self.invocation_feature(e, 'expr')

    def s_IfNode(self, s, scope):
        self.cond(s, scope)
        d = scope.block['depth'] + 1
        self.block(s['fields']['block'], scope, scope.in_loop, d)
        elifs = s['fields']['elif_list']['fields']['children']
        for e in elifs:
            self.cond(e, scope)
            self.block(e['fields']['block'], scope, scope.in_loop, d)
        if s['fields']['else_clause'] is not None:
            self.block(s['fields']['else_clause']['fields']['block'], scope, scope.in_loop, d)
        self.features.add('if:elif-%d:%s' % (min(len(elifs), 2), 'else' if s['fields']['else_clause'] else 'no-else'))

    def s_WhileNode(self, s, scope):
        self.cond(s, scope)
        self.block(s['fields']['block'], scope, True, scope.block['depth'] + 1)

    def s_ForEachNode(self, s, scope):
        vs, kl = self.inst_var(scope, self.f(s, 'set_variable_name'), None, True)
        self.result_var(s, scope, 'instance_variable_name', kl, False)
        s['vars']['set_variable_name'] = vs
        self.block(s['fields']['block'], scope, True, scope.block['depth'] + 1)

    def s_InvocationStatementNode(self, s, scope):
        inv = s['fields']['invocation']
        self.expr(inv, scope)
        self.invocation_feature(inv, 'stmt')

    def invocation_feature(self, inv, where):
        n = len(inv['fields']['parameter_list']['fields']['children'])
        self.features.add('invoke:%s:%s' % (where, ('0', '1', '2+')[min(n, 2)]))
        self.features.add('invoke:%s:%s' % (where, inv['kind']))

    # -- expressions -------------------------------------------------------------------
    def expr(self, e, scope):
        t = getattr(self, 'e_' + e['cls'])(e, scope)
        e['t'] = t
        e.setdefault('claim', None)
        return t

    def lit(t):
        def fn(self, e, scope):
            e['claim'] = 'literal'
            return t
        return fn
    e_IntegerNode = lit('integer')
    e_RealNode = lit('real')
    e_StringNode = lit('string')
    e_BooleanNode = lit('boolean')
    del lit

    def e_VariableAccessNode(self, e, scope):
        name = self.f(e, 'variable_name')
        v = scope.lookup(name)
        if v is None:
            raise IllFormed('undeclared variable %s' % name, name)
        if v.dims:
            raise IllFormed('array read as a whole')
        e['var'] = v
        e['claim'] = 'variable'
        if v.claimed and base_t(v.t) != v.t:
            self.features.add('udt:transient-read')
        return v.t

    def e_SelfAccessNode(self, e, scope):
        if not HOME_HAS_SELF[self.home]:
            raise IllFormed('self outside an instance-based action')
        self.features.add('self')
        e['claim'] = 'variable'
        return inst_t('A')

    def e_SelectedAccessNode(self, e, scope):
        if not self.selected:
            raise IllFormed('selected outside a where clause')
        self.features.add('selected')
        return inst_t(self.selected[-1])         # not claimed (the statement does not list it)

    def e_ParamAccessNode(self, e, scope):
        p = [t for n, t in home_params_of(self.home, self.variant) if n == self.f(e, 'variable_name')]
        if not p:
            raise IllFormed('no such parameter in this home')
        if dims_of(self.variant, 'param', self.f(e, 'variable_name')) and not e.get('as_array'):
            raise IllFormed('array parameter read as a whole')
        self.features.add('param-read')
        e['claim'] = 'parameter'
        self.udt_feature(p[0], 'param-read')
        return p[0]

    def udt_feature(self, t, what):
        if base_t(t) != t:
            self.features.add('udt:' + what)
            if base_t(t) != dict(USER_TYPES)[t]:
                self.features.add('udt:two-level')

    # -- host variant 'handles': ".<name>" behind every kind of handle expression; arrays in parameters and attributes ------
    def hx(self, e, scope):
        '''(type, array dimensions left) of an access expression on the host variant 'handles'; annotates like expr().
        <array>.length (an array of core-typed elements, indexed less often than it has dimensions) is the integer the
        translation represents as V_ALV; <instance>.<attribute> is an attribute read of the declared type whatever the
        attribute is called and whatever expression yields the instance.'''
        cls = e['cls']
        dims = 0
        if cls == 'VariableAccessNode':
            name = self.f(e, 'variable_name')
            v = scope.lookup(name)
            if v is None:
                raise IllFormed('undeclared variable %s' % name, name)
            e['var'] = v
            e['claim'] = 'variable'
            t, dims = v.t, v.dims
        elif cls == 'ParamAccessNode':
            e['as_array'] = True
            t = self.e_ParamAccessNode(e, scope)
            dims = dims_of(self.variant, 'param', self.f(e, 'variable_name'))
        elif cls in ('SelfAccessNode', 'SelectedAccessNode'):
            t = getattr(self, 'e_' + cls)(e, scope)
        elif cls == 'IndexAccessNode':
            t, dh = self.hx(e['fields']['handle'], scope)
            if not dh:
                raise IllFormed('element of something that is not an array')
            if self.expr(e['fields']['expression'], scope) != 'integer':
                raise IllFormed('index is not an integer')
            dims = dh - 1
            e['claim'] = None
            if not dims:
                self.features.add('element-read:' + handle_kind(e['fields']['handle']))
        elif cls == 'FieldAccessNode':
            h = e['fields']['handle']
            th, dh = self.hx(h, scope)
            name = self.f(e, 'name')
            if dh:
                if name != 'length':
                    raise IllFormed('field of an array')
                if class_of(th):
                    # kept out -- finding on the unchanged tree: the length of an array of instance handles is translated as
                    # a read of the attribute of that name (V_AVL of its type), or fails when the class has none
                    raise IllFormed('length of an array of instance handles')
                e['claim'] = 'array-length'
                e['vkind'] = 'V_ALV'
                self.features.add('array-length:' + handle_kind(h))
                t = 'integer'
            elif struct_members(self.variant, th) is not None:
                mbr = [x for x in struct_members(self.variant, th) if x[0] == name]
                if not mbr:
                    raise IllFormed('unknown member')
                e['claim'] = 'member'
                e['vkind'] = 'V_MVL'
                self.features.add('member-of:%s:%s' % (handle_kind(h), name if name in SPECIAL_ATTRIBUTE_NAMES else 'other'))
                t = mbr[0][1]
            else:
                k = class_of(th)
                if not k or k[1]:
                    raise IllFormed('attribute of something else than an instance')
                attr = [a for a in class_attrs(k[0], self.variant) if a[0] == name]
                if not attr:
                    raise IllFormed('unknown attribute')
                e['claim'] = 'attribute'
                e['attr'] = (k[0],) + tuple(attr[0])
                self.features.add('attribute-read:' + attr[0][2])
                self.features.add('attribute-through:%s:%s' % (handle_kind(h), name if name in SPECIAL_ATTRIBUTE_NAMES else 'other'))
                self.udt_feature(attr[0][1], 'attribute-read')
                t, dims = attr[0][1], dims_of(self.variant, 'attr', k[0], name)
        else:
            raise IllFormed('unsupported access expression')
        e['t'] = t
        e.setdefault('claim', None)
        return t, dims

    def hx_value(self, e, scope):
        t, dims = self.hx(e, scope)
        if dims:
            raise IllFormed('array read as a whole')
        return t

    def e_FieldAccessNode(self, e, scope):
        if self.variant == 'handles':
            return self.hx_value(e, scope)
        h = e['fields']['handle']
        if h['cls'] not in ('VariableAccessNode', 'SelfAccessNode', 'SelectedAccessNode'):
            raise IllFormed('unsupported attribute access')
        k = class_of(self.expr(h, scope))
        if not k or k[1]:
            raise IllFormed('attribute of something else than an instance')
        attr = [a for a in class_attrs(k[0], self.variant) if a[0] == self.f(e, 'name')]
        if not attr:
            raise IllFormed('unknown attribute')
        e['claim'] = 'attribute'
        self.features.add('attribute-read:' + attr[0][2])
        self.udt_feature(attr[0][1], 'attribute-read')
        return attr[0][1]

    def e_IndexAccessNode(self, e, scope):
        if self.variant == 'handles':
            return self.hx_value(e, scope)
        idx = []
        n = e
        while n['cls'] == 'IndexAccessNode':
            idx.append(n)
            n = n['fields']['handle']
        if n['cls'] != 'VariableAccessNode':
            raise IllFormed('unsupported array access')
        name = self.f(n, 'variable_name')
        v = scope.lookup(name)
        if v is None:
            raise IllFormed('undeclared variable %s' % name, name)
        if v.dims != len(idx):
            raise IllFormed('wrong number of dimensions')
        for x in idx:
            if self.expr(x['fields']['expression'], scope) != 'integer':
                raise IllFormed('index is not an integer')
            x['t'] = v.t
            x['claim'] = None
        n['var'] = v
        n['t'] = v.t
        n['claim'] = 'variable'
        self.features.add('array-read-%d' % len(idx))
        return v.t

    def e_EnumOrNamedConstantNode(self, e, scope):
        ns, name = self.f(e, 'namespace'), self.f(e, 'name')
        for ename, enumerators in ENUMS:
            if ns == ename and name in enumerators:
                e['claim'] = 'enumerator'
                e['qkind'] = 'enumerator'
                self.features.add('enumerator')
                self.qualified_read('enumerator', ns, name)
                return ename
        if EXPLORE_ENUM_ALIASES:
            for alias, base in ENUM_ALIASES:
                if ns == alias and name in dict(ENUMS)[base]:
                    self.features.add('enumerator:through-alias')
                    e['qkind'] = 'enumerator'
                    self.qualified_read('enumerator', ns, name)
                    return base                     # the type of the value is not claimed (alias or enumeration)
        for gname, cname, cty, _ in CONSTANTS:
            if ns == gname and name == cname:
                e['claim'] = 'constant'
                e['qkind'] = 'constant'
                self.features.add('constant')
                self.qualified_read('constant', ns, name)
                return cty
        raise IllFormed('unknown enumerator or constant')

    def qualified_read(self, what, ns, name):
        '''Record NS::name; mark bodies that read one name in two namespaces (in this order of kinds).'''
        for what0, ns0, name0 in self.qualified:
            if name0 == name and ns0 != ns:
                self.features.add('same-name:%s-then-%s' % (what0, what))
        self.qualified.append((what, ns, name))

    def e_UnaryOperationNode(self, e, scope):
        op = self.f(e, 'operator')
        x = e['fields']['operand']
        t = self.expr(x, scope)
        if x['cls'].endswith('InvocationNode'):
            self.invocation_feature(x, 'expr')
        self.features.add('unary:' + op)
        if op == 'not':
            if t != 'boolean':
                raise IllFormed('not of a non-boolean')
            e['claim'] = 'boolean-operator'
            return 'boolean'
        if op in ('empty', 'not_empty', 'cardinality'):
            if not class_of(t):
                raise IllFormed('%s of a non-handle' % op)
            e['claim'] = 'cardinality' if op == 'cardinality' else 'boolean-operator'
            return 'integer' if op == 'cardinality' else 'boolean'
        if base_t(t) not in NUMERIC:
            raise IllFormed('sign of a non-number')
        return t                                    # arithmetic: not claimed

    def e_BinaryOperationNode(self, e, scope):
        op = self.f(e, 'operator')
        l, r = e['fields']['left'], e['fields']['right']
        tl = self.expr(l, scope)
        tr = self.expr(r, scope)
        for x in (l, r):
            if x['cls'].endswith('InvocationNode'):
                self.invocation_feature(x, 'expr')
        self.features.add('binary:' + op)
        if tl != tr and base_t(tl) == base_t(tr):
            self.features.add('udt:operand-next-to-' + ('core-type' if base_t(tl) in (tl, tr) else 'user-type'))
        # operands of a user data type count as operands of its core type; the results of arithmetic are not claimed (the
        # translation gives them the type of the left operand), comparisons are boolean whatever is compared
        tl, tr = base_t(tl), base_t(tr)
        if op in ('and', 'or'):
            if tl != 'boolean' or tr != 'boolean':
                raise IllFormed('boolean operator on non-booleans')
            e['claim'] = 'boolean-operator'
            return 'boolean'
        if op in COMPARISONS:
            both_num = tl in NUMERIC and tr in NUMERIC
            if op in ('==', '!='):
                ok = both_num or (tl == tr and tl != 'void')
            else:
                ok = both_num or (tl == tr == 'string')
            if not ok:
                raise IllFormed('comparison of incomparable operands')
            e['claim'] = 'comparison'
            return 'boolean'
        if op in ('+', '-', '*', '/'):
            if tl in NUMERIC and tr in NUMERIC:
                return 'integer' if tl == tr == 'integer' else 'real'
            if op == '+' and tl == tr == 'string':
                return 'string'
            raise IllFormed('arithmetic on non-numbers')
        if op == '%':
            if tl == tr == 'integer':
                return 'integer'
            raise IllFormed('remainder of non-integers')
        if op in ('|', '&', '^'):
            kl, kr = class_of(tl), class_of(tr)
            if kl and kr and kl[0] == kr[0] and kl[1] and kr[1]:
                self.features.add('set-operator')
                return tl
            raise IllFormed('set operator on non-sets')
        raise IllFormed('unknown operator')

    def params(self, e, scope, declared):
        ps = e['fields']['parameter_list']['fields']['children']
        names = [self.f(p, 'name') for p in ps]
        if sorted(names) != sorted(n for n, _ in declared):
            raise IllFormed('parameters do not match the declaration')
        for p in ps:
            x = p['fields']['expression']
            tx, td = self.expr(x, scope), dict(declared)[self.f(p, 'name')]
            if base_t(tx) != base_t(td):
                raise IllFormed('parameter value of another type')
            if base_t(tx) != tx:
                self.features.add('udt:argument:' + ('same-type' if tx == td else 'of-core-type' if td == base_t(td) else 'of-other-user-type'))
            if x['cls'].endswith('InvocationNode'):
                self.invocation_feature(x, 'expr')
        if len(names) >= 2 and names != [n for n, _ in declared]:
            self.features.add('params:reordered')
        e['claim'] = 'invocation'

    def e_FunctionInvocationNode(self, e, scope):
        name = self.f(e, 'action_name')
        if name not in FUNCTIONS:
            raise IllFormed('unknown function')
        self.params(e, scope, FUNCTIONS[name][1])
        e['kind'] = 'function'
        self.udt_feature(FUNCTIONS[name][0], 'invocation:function')
        return FUNCTIONS[name][0]

    def e_ImplicitInvocationNode(self, e, scope):
        ns, name = self.f(e, 'namespace'), self.f(e, 'action_name')
        if ns == EE and name in BRIDGES and e['cls'] != 'ClassInvocationNode':
            self.params(e, scope, BRIDGES[name][1])
            e['kind'] = 'bridge'
            self.udt_feature(BRIDGES[name][0], 'invocation:bridge')
            return BRIDGES[name][0]
        if ns == 'A' and name in OPERATIONS and not OPERATIONS[name][1] and e['cls'] != 'BridgeInvocationNode':
            self.params(e, scope, OPERATIONS[name][2])
            e['kind'] = 'class-operation'
            self.udt_feature(OPERATIONS[name][0], 'invocation:class-operation')
            return OPERATIONS[name][0]
        raise IllFormed('unknown bridge or class operation')

    e_BridgeInvocationNode = e_ClassInvocationNode = e_ImplicitInvocationNode

    def e_InstanceInvocationNode(self, e, scope):
        h = e['fields']['handle']
        if h['cls'] not in ('VariableAccessNode', 'SelfAccessNode'):
            raise IllFormed('unsupported operation target')
        if self.expr(h, scope) != inst_t('A'):
            raise IllFormed('operation on something else than an A')
        name = self.f(e, 'action_name')
        if name not in OPERATIONS or not OPERATIONS[name][1]:
            raise IllFormed('unknown instance operation')
        self.params(e, scope, OPERATIONS[name][2])
        e['kind'] = 'instance-operation'
        self.udt_feature(OPERATIONS[name][0], 'invocation:instance-operation')
        return OPERATIONS[name][0]


# ---------------------------------------------------------------------------
# preludes: the conventional free variables of the families and the statements
# that declare them.  complete() prepends the declarations a program needs.
# ---------------------------------------------------------------------------

def V(n):
    return ('var', n)


def I(n):
    return ('int', str(n))


def ASSIGN(lhs, rhs, explicit=False):
    return ('assign', V(lhs) if isinstance(lhs, str) else lhs, rhs, explicit)


PRELUDE_ORDER = ['a', 'a2', 'b', 'c', 'aset', 'bset', 'i', 'j', 'r', 's', 't', 'e', 'v', 'w', 'md', 'st', 'lb']
PRELUDE = {
    'a': ('create', 'a', 'A'), 'a2': ('create', 'a2', 'A'), 'b': ('create', 'b', 'B'), 'c': ('create', 'c', 'C'),
    'aset': ('selfrom', 'many', 'aset', 'A', None, True), 'bset': ('selfrom', 'many', 'bset', 'B', None, True),
    'i': ASSIGN('i', I(1)), 'j': ASSIGN('j', I(2)), 'r': ASSIGN('r', ('real', '1.5')), 's': ASSIGN('s', ('str', 's')),
    't': ASSIGN('t', ('bool', 'true')), 'e': ASSIGN('e', ('enum', 'Color', 'Red')), 'md': ASSIGN('md', ('enum', 'Mode', 'Off')),
    'v': ASSIGN(('index', V('v'), I(2)), I(0)), 'w': ASSIGN(('index', ('index', V('w'), I(1)), I(1)), I(0)),
    # transients of the user data types Stamp and Label (declared by their first assignment: the read of an attribute)
    'st': ASSIGN('st', ('field', V('a'), 'When')), 'lb': ASSIGN('lb', ('field', V('a'), 'Tag')),
}


def complete(stmts, home, paren='minimal', variant=None):
    '''(full program, printed, analysis) with the needed prelude prepended, or None when the program is not
    well-formed in this home (of the host of the given variant).'''
    from mc.refs import oalast
    need = []
    for _ in range(len(PRELUDE_ORDER) + 1):
        full = [PRELUDE[n] for n in PRELUDE_ORDER if n in need] + list(stmts)
        printed = oalast.print_program(full, paren)
        try:
            return full, printed, Analysis(printed, home, variant)
        except IllFormed as ex:
            if ex.name in PRELUDE and ex.name not in need:
                need.append(ex.name)
                continue
            return None
    return None


# ---------------------------------------------------------------------------
# Part 3 -- run engine.  One host is built (and checked consistent) per worker
# process; every translation runs in a forked child of that worker, i.e. on a
# private copy-on-write snapshot of the pristine host, and is killed by the
# parent when it does not finish.
# ---------------------------------------------------------------------------

RUN_LIMIT_S = 20.0       # soft limit inside the child (core.time_limit)
KILL_AFTER_S = 60.0      # hard limit enforced by the parent

_worker_hosts = {}


def worker_host(variant=None):
    '''The pristine host (of the given variant) of this process (built once, verified consistent).'''
    if variant not in _worker_hosts:
        from mc import core
        m = loader().build_metamodel()
        host = build_host(m, variant)
        if not m.is_consistent():
            raise core.HarnessError('the host model (%s) is inconsistent before prebuild' % variant)
        bad = constraint_violations(m)
        if bad:
            raise core.HarnessError('the host model (%s) violates schema constraints before prebuild: %s' % (variant, bad[:5]))
        _worker_hosts[variant] = host
        # everything alive now is shared with the forked children: keep the collector from touching (and thereby
        # copying) those pages in every child
        import gc
        gc.collect()
        gc.freeze()
    return _worker_hosts[variant]


def isolated(ctx, fn, *args, **kw):
    '''Run fn(subctx, host, *args) in a forked child on a snapshot of the pristine host (keyword variant: which host).
    The child's counters, sets and violations are merged into ctx.  Returns fn's (picklable) result, or ('killed',) /
    ('died', text).'''
    import os
    import pickle
    import select
    import signal
    import time
    from mc import core
    host = worker_host(kw.get('variant'))
    r, w = os.pipe()
    pid = os.fork()
    if pid == 0:
        code = 1
        try:
            os.close(r)
            sub = core.Ctx(ctx.prop, ctx.tier, ctx.seed)
            try:
                with core.time_limit(RUN_LIMIT_S):
                    res = fn(sub, host, *args)
            except core.Timeout:
                res = ('timeout',)
            data = pickle.dumps((sub.export(), res))
            view = memoryview(data)
            while view:
                n = os.write(w, view[:65536])
                view = view[n:]
            code = 0
        except BaseException:
            import traceback
            try:
                os.write(w, pickle.dumps((None, ('died', traceback.format_exc()[-3000:]))))
            except BaseException:
                pass
        finally:
            os._exit(code)
    os.close(w)
    chunks = []
    deadline = time.time() + KILL_AFTER_S
    killed = False
    while True:
        left = deadline - time.time()
        if left <= 0:
            os.kill(pid, signal.SIGKILL)
            killed = True
            break
        ready, _, _ = select.select([r], [], [], min(left, 1.0))
        if ready:
            data = os.read(r, 1 << 20)
            if not data:
                break
            chunks.append(data)
    os.close(r)
    os.waitpid(pid, 0)
    if killed:
        return ('killed',)
    try:
        part, res = pickle.loads(b''.join(chunks))
    except Exception as e:
        return ('died', 'no result from the child: %s' % e)
    if part is not None:
        ctx.merge(part)
    return res


_stop_flag = None


def arm_early_stop():
    '''Optional (VERIF_STOP_EARLY=1, used for mutant runs): once a chunk of tasks has produced a violation the
    remaining tasks are skipped; the run then reports the cap and is not exhaustive.'''
    global _stop_flag
    import os
    from mc import bootstrap
    _stop_flag = None
    if os.environ.get('VERIF_STOP_EARLY'):
        _stop_flag = os.path.join(bootstrap.tmpdir(), 'stop-%d' % os.getpid())
        if os.path.exists(_stop_flag):
            os.unlink(_stop_flag)


def stopped():
    import os
    return _stop_flag is not None and os.path.exists(_stop_flag)


def stop_if_violated(ctx):
    if _stop_flag is not None and ctx.violations:
        open(_stop_flag, 'w').close()


def translate(host, home, text, entry='action'):
    '''Place *text* in the home, prebuild it and generate text back.'''
    import bridgepoint
    inst = host.homes[home]
    inst.Action_Semantics_internal = text
    inst.Suc_Pars = 1
    if entry == 'model':
        bridgepoint.prebuild_model(host.m)
    else:
        bridgepoint.prebuild_action(inst)
    return bridgepoint.gen_text_action(inst)


def case_of(task, **extra):
    c = dict(family=task['family'], stmts=task['stmts'], home=task['home'], entry=task.get('entry', 'action'),
             layout=task.get('layout', 'default'))
    if task.get('history'):
        c['history'] = task['history']          # what the process did before this translation: part of the case
    if task.get('host'):
        c['host'] = task['host']                # the variant of the host model
    c.update(extra)
    return c


def unit_test(text, home, extra='', variant=None):
    return ('# host: mc.refs.prebuildhost.build_host(bridgepoint.ooaofooa.Loader().build_metamodel()%s)\n'
            'inst = host.homes[%r]\ninst.Action_Semantics_internal = %r\n'
            'bridgepoint.prebuild_action(inst)\nprint(bridgepoint.gen_text_action(inst))\n%s' %
            (', %r' % variant if variant else '', home, text, extra))


LAYOUTS = {
    'default': None,                                   # one line, single spaces
    'lines': 'lines',                                  # line break and two spaces of indentation after every ';'
    'spread': 'spread',                                # every gap is a line break followed by one space
    'upper': 'upper',                                  # one line, every keyword in UPPER case
    'cap': 'cap',                                      # one line, every keyword Capitalised
    'mixed': 'mixed',                                  # one line, every keyword in aLtErNaTiNg case
    'remarks': 'remarks',                              # several lines, comments holding every character of ODD_CHARACTERS
    'stairs': 'stairs',                                # a line per statement / elif / else, every line one column further left
    'climb': 'climb',                                  # ... one column further right
    'stairs-remarks': 'stairs-remarks',                # stairs, every line ending in a // comment
}
# Characters str.splitlines() (and \s, and some editors) take as line boundaries although they are none in OAL, where a
# line ends in "\n" only: form feed, vertical tab, FS, GS, RS, NEL, LINE and PARAGRAPH SEPARATOR -- and a lone carriage
# return, which is blank space.  In the layout "remarks" they stand inside block comments and "//" comments in front
# of, behind and between the tokens of statements, so that a line counted for one of them shifts every later position.
ODD_CHARACTERS = '\x0c\x0b\x1c\x1d\x1e\x85\u2028\u2029'
REMARK_GAPS = [
    ' /* page\x0c break, \x0b, FS\x1c GS\x1d RS\x1e, NEL\x85, LS\u2028 PS\u2029 */\n  ',       # trailing the previous statement
    '\n  /*\x0c*/ ',                                                                           # in front, on the line of the statement
    '\n// \x0c\x85\u2028 \r c\n  ',                                                             # a "//" line of its own
    '\n/* a\x0b\n b\r\x85\n*/\n  ',                                                             # a comment of three lines
]
REMARK_INNER = [' /*\x0b*/ ', ' \r ', ' /* \u2028\x0c */\n    ']                                # between the tokens of a statement


def layout_of(printed, name):
    from mc.refs import oalast
    if name in (None, 'default'):
        return oalast.Layout()
    if name == 'lines':
        gaps = {}
        for i, t in enumerate(printed.toks):
            if i and printed.toks[i - 1].text == ';':
                gaps[i] = '\n  '
        return oalast.Layout(gaps=gaps, lead='\n')
    if name == 'spread':
        return oalast.Layout(default='\n ')
    if name in ('upper', 'cap', 'mixed'):
        return oalast.Layout(kwcase=lambda kind, n: name)
    if name == 'remarks':
        gaps = {}
        k = 0
        for i, t in enumerate(printed.toks):
            if not i or printed.toks[i - 1].glue:
                continue
            if printed.toks[i - 1].text == ';':
                gaps[i] = REMARK_GAPS[k % len(REMARK_GAPS)]
                k += 1
            elif i % 4 == 2:
                gaps[i] = REMARK_INNER[(i // 4) % len(REMARK_INNER)]
        return oalast.Layout(gaps=gaps, lead='/*\x85\x0c*/ /* \x0b */\n', trail=' /*\x0c*/')
    if name == 'joined':
        return joined_layout(printed)
    if name == 'stairs-remarks':
        # stairs, every line ending in a "//" comment (a token that ends with its line break)
        base = layout_of(printed, 'stairs')
        gaps = dict((i, ' // ends the line' + g if k % 3 else ' //' + g) for k, (i, g) in enumerate(sorted(base.gaps.items())))
        return oalast.Layout(gaps=gaps, lead='// head\n' + ' ' * 14)
    if name in ('stairs', 'climb'):
        # every statement and every elif / else clause on a line of its own, each line indented one column less (stairs)
        # or one column more (climb) than the line before: a later clause starts in a smaller (larger) column
        gaps = {}
        k = 0
        for i, t in enumerate(printed.toks):
            if not i or printed.toks[i - 1].glue:
                continue
            if printed.toks[i - 1].text == ';' or t.text.lower() in ('elif', 'else'):
                k += 1
                gaps[i] = '\n' + ' ' * ((14 - k) % 15 if name == 'stairs' else k % 15)
        return oalast.Layout(gaps=gaps, lead=' ' * (14 if name == 'stairs' else 0))
    raise ValueError(name)


# Layout "joined": statements that start on a line on which a token holding a line break ends -- a block comment of
# several lines (begun on the line of the previous statement, on a line of its own, or several of them in a row) or an
# `end if` / `end for` / `end while` whose two words stand on two lines, the next statement following on the line of
# the second word.  A line still ends in "\n" only, wherever that "\n" stands; columns count from the last one.
LAYOUTS['joined'] = 'joined'
JOINED_GAPS = [
    ' /* begins behind the statement\n   and ends in front of the next */ ',
    '\n/* a\n\n b */ ',
    ' ',                                                                # same line (behind `end\n if;` and others)
    '\n  /* one line */ /* two\n lines */ /* and\n*/',                 # the statement follows the comment without a blank
    ' /*\n*/ /**\n**/  ',
]
JOINED_INNER = [' /* in\n between */ ', '\n', ' /*\n\n*/']              # between the tokens of a statement
JOINED_END = ['\n', ' \n  ', '\n\n', '\r\n\t']                          # between `end` and `if` / `for` / `while`


def joined_layout(printed):
    from mc.refs import oalast
    gaps, inner = {}, {}
    k = e = 0
    for i, t in enumerate(printed.toks):
        if t.inner:
            inner[i] = JOINED_END[e % len(JOINED_END)]
            e += 1
        if not i or printed.toks[i - 1].glue:
            continue
        if printed.toks[i - 1].text == ';':
            # behind a split `end if;` the next statement stays on the line of the second word every other time
            gaps[i] = ' ' if i >= 2 and printed.toks[i - 2].inner and e % 2 else JOINED_GAPS[k % len(JOINED_GAPS)]
            k += 1
        elif i % 5 == 3:
            gaps[i] = JOINED_INNER[(i // 5) % len(JOINED_INNER)]
    return oalast.Layout(gaps=gaps, inner=inner, lead='/* head\n of the action */ ', trail=' /* tail\n*/')


# ---------------------------------------------------------------------------
# Part 4 -- the C05 oracle
# ---------------------------------------------------------------------------

def canonical_invocations(expected):
    '''The statement keywords `bridge` / `transform` are optional words: the grammar reduces
    "bridge EE::b()" to a BridgeInvocationNode and "EE::b()" to an ImplicitInvocationNode with the same three
    fields, and the translation resolves the implicit form by name (external entity first, then class).  Both
    trees are therefore mapped to the explicit class the name resolves to in the host: namespace EE -> Bridge,
    namespace of a class -> Class.  An explicit node whose keyword contradicts the resolution is left alone and
    so keeps failing the comparison.'''
    def canon(cls, ns):
        if cls == 'ImplicitInvocationNode':
            if ns == EE:
                return 'BridgeInvocationNode'
            if ns in CLASSES:
                return 'ClassInvocationNode'
        return cls

    def walk_expected(n):
        if isinstance(n, dict):
            if 'cls' in n and n['cls'] in ('ImplicitInvocationNode', 'BridgeInvocationNode', 'ClassInvocationNode'):
                n['cls'] = canon(n['cls'], n['fields']['namespace'])
            for v in n.get('fields', {}).values():
                walk_expected(v)
        elif isinstance(n, list):
            for v in n:
                walk_expected(v)
    walk_expected(expected)

    def walk_real(node):
        from bridgepoint import oal
        if isinstance(node, (list, tuple)):
            for c in node:
                walk_real(c)
        elif isinstance(node, oal.Node):
            if type(node) is oal.ImplicitInvocationNode:
                node.__class__ = getattr(oal, canon('ImplicitInvocationNode', node.namespace))
            for v in vars(node).values():
                walk_real(v)
    return walk_real


def classify_c05(diffs, printed, analysis):
    '''Structural signature of a tree mismatch: statement kind and the field that differs.'''
    d = diffs[0]
    path = d.split(':')[0]
    if 'parameter_list' in path:
        # same parameter names in another order?
        return 'c05:parameter-order' if ('.name' in path or 'expression' in path) else 'c05:parameter-list'
    import re
    m = re.match(r'root\.block\.statement_list\.children\[(\d+)\]', path)
    kind = 'program'
    if m:
        kids = printed.expected['fields']['block']['fields']['statement_list']['fields']['children']
        i = int(m.group(1))
        if i < len(kids):
            kind = kids[i]['cls']
    field = re.sub(r'\[\d+\]', '', path).split('.')[-1]
    return 'c05:%s:%s' % (kind, field)


def c05_first(sub, host, task):
    '''Child 1: translate the original text; compare the regenerated text's tree with the program.'''
    from bridgepoint import oal
    from mc.refs import oalast
    full, printed, an = complete(task['stmts'], task['home'], variant=task.get('host'))
    text, spans = oalast.assemble(printed, layout_of(printed, task.get('layout')))
    case = case_of(task)
    sub.count('translations')
    try:
        gen = translate(host, task['home'], text, task.get('entry', 'action'))
    except Exception as e:
        sub.violation('c05:%s:translate-exception:%s' % (task['family'], type(e).__name__), case,
                      'translating %r in the %s home raised %s: %s' % (text, task['home'], type(e).__name__, e),
                      'instances and regenerated text', repr(e), unit_test(text, task['home']))
        return None
    sub.count('parses')
    try:
        root = oal.parse(gen)
    except Exception as e:
        expr_inv = any(f.startswith('invoke:expr:') for f in an.features)
        sig = 'c05:invocation-in-expression:reparse' if expr_inv and ('transform ' in gen or 'bridge ' in gen) \
            else 'c05:%s:reparse' % task['family']
        sub.violation(sig, case, 'the text generated for %r (%s home) does not parse: %r: %s' % (text, task['home'], gen, e),
                      'text that parses to the tree of the original', gen, unit_test(text, task['home'], 'bridgepoint.oal.parse(_)'))
        return None
    walk_real = canonical_invocations(printed.expected)
    walk_real(root)
    diffs = oalast.compare(root, printed.expected, text, spans, positions=False, kwfold=True)
    if diffs:
        sub.violation(classify_c05(diffs, printed, an), case,
                      '%r (%s home) regenerates as %r, which is another program: %s' % (text, task['home'], gen, '; '.join(diffs[:3])),
                      text, gen, unit_test(text, task['home']))
        return None
    return gen


def c05_second(sub, host, task, gen):
    '''Child 2: translate the generated text in a fresh host; the text generated from that must be identical.'''
    case = case_of(task)
    sub.count('translations')
    try:
        gen2 = translate(host, task['home'], gen, task.get('entry', 'action'))
    except Exception as e:
        sub.violation('c05:%s:retranslate-exception:%s' % (task['family'], type(e).__name__), case,
                      'translating the generated text %r (%s home) raised %s: %s' % (gen, task['home'], type(e).__name__, e),
                      'the same text again', repr(e), unit_test(gen, task['home']))
        return False
    if gen2 != gen:
        sub.violation('c05:%s:not-idempotent' % task['family'], case,
                      'generated text %r (%s home) translates and regenerates as the different text %r' % (gen, task['home'], gen2),
                      gen, gen2, unit_test(gen, task['home']))
        return False
    return True


def c05_run(ctx, task):
    '''One (program, home) state of C05.'''
    r = complete(task['stmts'], task['home'], variant=task.get('host'))
    if r is None:
        raise ValueError('task is not well-formed: %r' % (task,))
    an = r[2]
    ctx.count('runs')
    gen = isolated(ctx, c05_first, task)
    ok = False
    if isinstance(gen, tuple):
        hang_or_crash(ctx, 'c05', task, gen)
    elif gen is not None:
        res = isolated(ctx, c05_second, task, gen)
        if isinstance(res, tuple):
            hang_or_crash(ctx, 'c05', task, res)
        ok = res is True
    record_coverage(ctx, task, an, ok)


def hang_or_crash(ctx, prop, task, res):
    from mc import core
    if res[0] in ('killed', 'timeout'):
        ctx.violation('%s:%s:hang' % (prop, task['family']), case_of(task),
                      'translation did not finish within %.0f s' % (RUN_LIMIT_S if res[0] == 'timeout' else KILL_AFTER_S))
    else:
        raise core.HarnessError('isolated run failed: %s' % (res[1],))


def record_coverage(ctx, task, an, ok):
    key = (repr(task['stmts']), task['home'])
    if task.get('history'):
        key += (repr(task['history']),)
    if task.get('host'):
        key += (task['host'],)
    if task.get('layout') not in (None, 'default', '-'):
        key += ('layout:' + task['layout'],)
    ctx.distinct('states', key)
    ctx.distinct('programs', repr(task['stmts']))
    ctx.distinct('home:' + task['home'], repr(task['stmts']))
    ctx.count('family:' + task['family'])
    ctx.count('entry:' + task.get('entry', 'action'))
    if task.get('layout') != '-':
        ctx.count('layout:' + str(task.get('layout', 'default')))
    for f in an.features:
        ctx.distinct('features', f)
    if ok:
        ctx.count('traces')
        if an.n_statements >= 2 or an.max_depth >= 2:
            ctx.distinct('nontrivial', key)
    ctx.count('statements:%d' % an.n_statements)
    ctx.count('depth:%d' % an.max_depth)


# ---------------------------------------------------------------------------
# Part 5 -- independent count of multiplicity and uniqueness violations.
# Written from the schema text (own regular expressions over
# bridgepoint.schema), evaluated on attribute values as persisted, not on
# pyxtuml's link tables.
# ---------------------------------------------------------------------------

_SCHEMA = None


def schema_constraints():
    '''(associations, identifiers, subtypes) read from the schema text.
    association: (rel, scard, src, skeys, tcard, tgt, tkeys); identifier: (kind, name, attrs);
    subtypes: {(rel, supertype): [subtype kinds]} for R603 and R801.'''
    global _SCHEMA
    if _SCHEMA is None:
        import re
        from bridgepoint import schema
        assocs = []
        rx = re.compile(r"CREATE ROP REF_ID (R\d+)\s+FROM\s+(1C|1|MC|M)\s+(\w+)\s*\(([^)]*)\)(?:\s*PHRASE\s*'[^']*')?\s+"
                        r"TO\s+(1C|1|MC|M)\s+(\w+)\s*\(([^)]*)\)(?:\s*PHRASE\s*'[^']*')?\s*;")
        for m in rx.finditer(schema.associations):
            rel, sc, src, sk, tc, tgt, tk = m.groups()
            assocs.append((rel, sc, src, tuple(x.strip() for x in sk.split(',')), tc, tgt, tuple(x.strip() for x in tk.split(','))))
        if len(assocs) != schema.associations.count('CREATE ROP'):
            raise AssertionError('schema reader missed associations')
        idents = []
        for m in re.finditer(r'CREATE UNIQUE INDEX (\w+) ON (\w+)\s*\(([^)]*)\)\s*;', schema.indices):
            idents.append((m.group(2), m.group(1), tuple(x.strip() for x in m.group(3).split(','))))
        types = {}
        for m in re.finditer(r'CREATE TABLE (\w+) \((.*?)\);', schema.classes, re.S):
            types[m.group(1)] = dict((p.split()[0], p.split()[1].upper()) for p in m.group(2).split(','))
        subs = {}
        for rel, sup in (('R603', 'ACT_SMT'), ('R801', 'V_VAL')):
            subs[rel, sup] = sorted(a[2] for a in assocs if a[0] == rel and a[5] == sup)
        _SCHEMA = (assocs, idents, subs, types)
    return _SCHEMA


def constraint_violations(m):
    '''List of violated constraints (strings) in the population of metamodel *m*.'''
    assocs, idents, _, types = schema_constraints()
    pools = {}
    for kind, mc in m.metaclasses.items():
        insts = list(mc.select_many())
        if insts:
            pools[kind] = insts
    cache = {}

    def null(kind, attr, value):
        if value is None:
            return True
        ty = types[kind].get(attr, '')
        return (ty == 'UNIQUE_ID' and value == 0) or (ty == 'STRING' and value == '')

    def keys(kind, attrs):
        k = (kind, attrs)
        if k not in cache:
            rows = []
            for inst in pools.get(kind, ()):
                vals = tuple(getattr(inst, a) for a in attrs)
                rows.append(None if any(null(kind, a, v) for a, v in zip(attrs, vals)) else vals)
            cache[k] = rows
        return cache[k]

    def histogram(rows):
        h = {}
        for r in rows:
            if r is not None:
                h[r] = h.get(r, 0) + 1
        return h

    out = []
    for rel, sc, src, sk, tc, tgt, tk in assocs:
        if src not in pools and tgt not in pools:
            continue
        srows, trows = keys(src, sk), keys(tgt, tk)
        sh, th = histogram(srows), histogram(trows)
        # every referring instance: how many referred instances carry its key
        for r in srows:
            n = th.get(r, 0) if r is not None else 0
            if (n == 0 and 'C' not in tc) or (n > 1 and 'M' not in tc):
                out.append('%s: a %s refers to %d %s (%s)' % (rel, src, n, tgt, tc))
        for r in trows:
            n = sh.get(r, 0) if r is not None else 0
            if (n == 0 and 'C' not in sc) or (n > 1 and 'M' not in sc):
                out.append('%s: a %s is referred to by %d %s (%s)' % (rel, tgt, n, src, sc))
    for kind, name, attrs in idents:
        if kind not in pools:
            continue
        rows = [tuple(getattr(inst, a) for a in attrs) for inst in pools[kind]]
        for r in rows:
            if any(null(kind, a, v) for a, v in zip(attrs, r)):
                out.append('%s.%s: null identifying attribute' % (kind, name))
        if len(set(rows)) != len(rows):
            out.append('%s.%s: duplicate identifier' % (kind, name))
    return out


# ---------------------------------------------------------------------------
# Part 6 -- program families (bounded, exhaustive within the stated menus).
# A family yields core statement lists; complete() adds the prelude and drops
# candidates that are not well-formed (unresolved names, ill-typed operands,
# break outside a loop, cardinality not fitting the chain...), per home.
# ---------------------------------------------------------------------------

def T(s):
    return ('t', s)


def ID(s):
    return ('i', s)


R15 = ('real', '1.5')
STR = ('str', 's')
TRUE = ('bool', 'true')
FALSE = ('bool', 'false')
RED = ('enum', 'Color', 'Red')
TEN = ('enum', 'K', 'TEN')
SEL = ('selected',)
SELF = ('self',)


def F(h, name):
    return ('field', V(h) if isinstance(h, str) else h, name)


def BIN(op, l, r):
    return ('bin', op, l, r)


def UN(op, x):
    return ('un', op, x)


def calls_in_expressions():
    '''Every value-returning callable with its parameters in declaration order and reversed.'''
    out = [('fcall', 'f', [('x', I(1)), ('y', R15)]), ('fcall', 'f', [('y', R15), ('x', I(2))]),
           ('fcall', 'h', [('x', I(3))]),
           ('ncall', 'EE', 'b', [('p', I(1)), ('q', STR)]), ('ncall', 'EE', 'b', [('q', STR), ('p', I(2))]),
           ('ncall', 'A', 'cop', []),
           ('icall', V('a'), 'op', [('q', I(1)), ('r', TRUE)]), ('icall', V('a'), 'op', [('r', FALSE), ('q', I(2))]),
           ('icall', SELF, 'op', [('q', I(1)), ('r', TRUE)]),
           # (appended: positions in this list are used by index below)
           ('ncall', 'A', 'cop2', [('k', I(1)), ('s', STR)]), ('ncall', 'A', 'cop2', [('s', STR), ('k', I(2))])]
    return out


def leaves_by_type():
    return {
        'integer': [I(1), V('i'), F('a', 'Num'), TEN, ('index', V('v'), I(0)), UN('cardinality', V('aset'))],
        'real': [R15, V('r'), F('a', 'Rate')],
        'boolean': [TRUE, V('t'), F('a', 'Flag'), UN('empty', V('a'))],
        'string': [STR, V('s'), F('a', 'Name')],
        'Color': [RED, V('e'), F('a', 'Col')],
        'inst': [V('a'), V('a2')],
        'set': [V('aset')],
    }


def operands(tier):
    L = leaves_by_type()
    n = 2 if tier == 'quick' else 3
    return dict((k, v[:n]) for k, v in L.items())


def where_clauses():
    return [BIN('==', F(SEL, 'Num'), I(1)),
            BIN('and', BIN('>', F(SEL, 'Num'), V('i')), UN('not', F(SEL, 'Flag'))),
            BIN('==', F(SEL, 'Num'), ('fcall', 'h', [('x', I(1))])),
            F(SEL, 'Flag'),
            BIN('!=', F(SEL, 'Name'), STR),
            BIN('==', F(SEL, 'Num'), ('param', '$0'))]


def chains(maxlen, optional_phrases=(1, 3)):
    '''Every navigation chain of the class diagram up to maxlen steps: (start class, [(class, rel, phrase)], many).
    The optional phrase of a non-reflexive relationship is used only for the relationships in *optional_phrases*.'''
    out = []

    def ext(start, cur, steps, many):
        if steps:
            out.append((start, list(steps), many))
        if len(steps) == maxlen:
            return
        for (frm, rel, to, ph), m in sorted(STEPS.items(), key=repr):
            if frm == cur and (ph is None or rel == 2 or rel in optional_phrases):
                ext(start, to, steps + [(to, 'R%d' % rel, None if ph is None else T(ph))], many or m)
    for k in sorted(CLASSES):
        ext(k, k, [], False)
    return out


def family_statements(tier):
    '''Every statement form of the supported set, one core statement per program.'''
    S = []
    add = lambda *stmts: S.append(list(stmts))
    L = leaves_by_type()
    calls = calls_in_expressions()
    # -- assignments to scalars: every operand kind, every operator, every callable ---------------------
    rhs = []
    for k in ('integer', 'real', 'boolean', 'string', 'Color', 'inst', 'set'):
        rhs += L[k]
    rhs += [I(0), I(12), ('real', '2.'), ('real', '.5'), ('real', '1e3'), ('real', '0.25'), ('str', ''), ('str', 'a b'),
            ('str', "it's /* no */ -- // x"), FALSE]
    rhs += [SELF, ('param', '$0'), ('param', '$1'), F('a', 'Id'), F('a', 'Der'), F('b', 'A_Id'), F(SELF, 'Num'),
            ('index', V('v'), V('i')), ('index', ('index', V('w'), I(0)), I(1)), ('index', V('v'), BIN('+', V('i'), I(1))),
            UN('not', V('t')), UN('-', V('i')), UN('+', R15), UN('empty', V('aset')), UN('not_empty', V('a')),
            UN('cardinality', V('a')), UN('not_empty', SELF)]
    for op in ('+', '-', '*', '/', '%'):
        rhs.append(BIN(op, V('i'), I(2)))
    for op in COMPARISONS:
        rhs.append(BIN(op, V('i'), I(2)))
    rhs += [BIN('and', V('t'), TRUE), BIN('or', V('t'), FALSE), BIN('+', V('s'), STR), BIN('==', V('a'), V('a2')),
            BIN('!=', V('e'), RED), BIN('<', V('r'), V('i')), BIN('|', V('aset'), V('aset')), BIN('&', V('aset'), V('aset')),
            BIN('^', V('aset'), V('aset')), BIN('==', V('s'), STR), BIN('==', V('t'), FALSE)]
    rhs += calls
    for c in calls[:4]:
        rhs += [BIN('+', c, I(1)), BIN('*', V('i'), c), BIN('<', c, c), UN('-', c)]
    rhs += [('fcall', 'h', [('x', ('fcall', 'h', [('x', I(1))]))]),
            ('fcall', 'f', [('x', ('ncall', 'A', 'cop', [])), ('y', BIN('*', V('r'), R15))]),
            ('index', V('v'), ('fcall', 'h', [('x', I(0))])),
            ('icall', V('a'), 'op', [('q', F('a', 'Num')), ('r', BIN('<', V('i'), I(2)))])]
    for e in rhs:
        add(ASSIGN('x', e))
    for e in (I(2), BIN('+', V('i'), I(1)), F('a', 'Num'), calls[0], calls[3], calls[6]):
        add(ASSIGN('i', e))
        add(ASSIGN('x', e, True))
    add(ASSIGN('x', V('a')), ASSIGN('y', F('x', 'Num')))            # migrated handle is usable
    add(ASSIGN('xs', V('aset')), ('foreach', 'k', 'xs', [], False))
    add(ASSIGN('a2', V('a')))                                        # declared handles assigned again
    add(ASSIGN('a', SELF))
    add(ASSIGN('aset', BIN('|', V('aset'), V('aset'))))
    add(ASSIGN('x', V('a')), ASSIGN('x', V('a2')), ASSIGN('y', F('x', 'Num')))
    add(ASSIGN('xs', V('aset')), ASSIGN('xs', V('aset')), ('foreach', 'k', 'xs', [], False))
    add(('selfrom', 'any', 'n', 'A', BIN('==', F(SEL, 'Id'), F(SELF, 'Id')), True), ASSIGN('z', SELF))
    add(('if', V('t'), [ASSIGN('q', SELF)], [], [ASSIGN('q', F(SELF, 'Num'))], [False]), ASSIGN('q', UN('not_empty', SELF)))
    # -- attributes ------------------------------------------------------------------------------------------
    for lhs, e in ((F('a', 'Num'), I(1)), (F('a', 'Num'), BIN('+', F('a', 'Num'), V('i'))), (F('a', 'Flag'), TRUE),
                   (F('a', 'Rate'), R15), (F('a', 'Name'), STR), (F('a', 'Col'), RED), (F(SELF, 'Num'), I(1)),
                   (F('b', 'Num'), F('a', 'Num')), (F(SELF, 'Der'), I(1)), (F('a', 'Num'), calls[2]),
                   (F('a', 'Num'), calls[6]), (F(SELF, 'Der'), BIN('*', F(SELF, 'Num'), I(2)))):
        add(('assign', lhs, e, False))
    add(('assign', F('a', 'Flag'), FALSE, True))
    # -- array elements ------------------------------------------------------------------------------------------
    add(ASSIGN(('index', V('x'), I(0)), I(1)))
    add(ASSIGN(('index', V('x'), I(2)), V('i')))
    add(ASSIGN(('index', V('x'), BIN('+', I(1), I(1))), STR))
    add(ASSIGN(('index', V('v'), I(0)), I(1)))
    add(ASSIGN(('index', V('v'), V('i')), ('index', V('v'), I(0))))
    add(ASSIGN(('index', ('index', V('y'), I(1)), I(2)), I(3)))
    add(ASSIGN(('index', ('index', V('w'), I(0)), V('i')), I(1)))
    add(ASSIGN(('index', V('x'), I(1)), R15), ASSIGN('z', ('index', V('x'), I(0))))
    add(ASSIGN(('index', V('v'), ('fcall', 'h', [('x', I(1))])), I(1)))
    # -- control flow --------------------------------------------------------------------------------------------
    n = lambda k: [ASSIGN('n', I(k))]
    for elifs in (0, 1, 2):
        for els in (False, True):
            for th in (False, True):
                add(('if', BIN('==', V('i'), I(0)), n(0), [(BIN('==', V('i'), I(k)), n(k)) for k in range(1, elifs + 1)],
                     n(9) if els else None, [th] * (elifs + 1)))
    add(('if', V('t'), [], [(FALSE, [])], [], [False, False]))
    add(('if', ('fcall', 'h', [('x', I(1))]), n(1), [], None, [False]))          # ill-typed: dropped by the analysis
    add(('if', BIN('==', ('fcall', 'h', [('x', I(1))]), I(1)), n(1), [], None, [False]))
    for loop in (False, True):
        for body in ([], n(1), [('break',)], [('continue',)], [ASSIGN('i', BIN('+', V('i'), I(1))), ('break',)]):
            add(('while', BIN('<', V('i'), I(3)), body, loop))
        for lv in ('k', 'a'):
            for body in ([], [ASSIGN('n', F(lv, 'Num'))], [('break',)], [('continue',)]):
                add(('foreach', lv, 'aset', body, loop))
    add(('while', BIN('>', calls[0], I(0)), [('break',)], False))
    for e in (None, I(1), V('i'), BIN('+', V('i'), I(1)), calls[0], calls[3], calls[6], F('a', 'Num'), TRUE, ('param', '$0')):
        add(('return', e))
    add(('stop',))
    add(('empty',), ASSIGN('x', I(1)), ('empty',))
    # -- create / delete ---------------------------------------------------------------------------------------------
    for kl in sorted(CLASSES):
        add(('create', 'n', kl))
        add(('create', None, kl))
        add(('create', kl.lower(), kl))        # a, b, c: declared by the prelude?  no: the statement declares them itself
        add(('create', 'n', kl), ('create', 'n', kl))            # second create reuses the variable
    add(('delete', 'a'))
    add(('delete', 'self'))
    # -- relate / unrelate ---------------------------------------------------------------------------------------------
    combos = [('a', 'b', 'R1', None, None), ('b', 'a', 'R1', None, None), ('a', 'b', 'R1', T('owns'), None),
              ('b', 'a', 'R1', T('is owned by'), None), ('a', 'b', 'R1', ID('owns'), None),
              ('self', 'b', 'R1', None, None), ('b', 'self', 'R1', None, None),
              ('a', 'a2', 'R2', T('next'), None), ('a', 'a2', 'R2', ID('next'), None), ('a2', 'a', 'R2', T('prev'), None),
              ('self', 'a', 'R2', ID('prev'), None), ('a', 'self', 'R2', T('next'), None),
              ('a', 'b', 'R3', None, 'c'), ('b', 'a', 'R3', None, 'c'), ('self', 'b', 'R3', None, 'c'),
              ('a', 'b', 'R3', T('right'), 'c'), ('b', 'a', 'R3', ID('left'), 'c')]
    for k in ('relate', 'unrelate'):
        for a, b, r, ph, u in combos:
            add((k, a, b, r, ph, u))
    # -- select from instances --------------------------------------------------------------------------------------------
    W = where_clauses()
    for card in ('any', 'many'):
        for inst_of in (True, False):
            for kl in ('A', 'B'):
                add(('selfrom', card, 'n', kl, None, inst_of))
            for w in W:
                add(('selfrom', card, 'n', 'A', w, inst_of))
        add(('selfrom', card, 'a' if card == 'any' else 'aset', 'A', None, True))        # declared variable reused
        add(('selfrom', card, 'a' if card == 'any' else 'aset', 'A', W[0], True))
    # -- select related ---------------------------------------------------------------------------------------------------------
    handle = {'A': ['a', 'self', 'aset'], 'B': ['b', 'bset'], 'C': ['c']}
    for start, steps, many in chains(2, (1,)) if tier == 'quick' else chains(3):
        for h in handle[start]:
            hm = many or h.endswith('set')
            for card in (('any', 'many') if hm else ('one',)):
                ws = [None, W[0]] if len(steps) > 1 or h in ('self', 'aset', 'bset') else [None] + W[:3]
                if steps[-1][0] != 'A':
                    ws = [None, BIN('!=', F(SEL, 'Id'), F(SEL, 'Id'))] if steps[-1][0] == 'C' else [None, BIN('<', F(SEL, 'Num'), I(5))]
                for w in ws:
                    add(('selrel', card, 'n', SELF if h == 'self' else V(h), steps, w))
    add(('selrel', 'one', 'a2', V('a'), [('A', 'R2', ID('next'))], None))               # identifier phrase, declared result
    add(('selrel', 'one', 'n', V('a'), [('A', 'R2', ID('next')), ('A', 'R2', ID('prev'))], None))
    add(('selrel', 'many', 'bset', V('a'), [('B', 'R1', ID('owns'))], W[0]))
    add(('selrel', 'one', 'n', V('a'), [('A', 'R2', T('next')), ('A', 'R2', T('next')), ('A', 'R2', T('prev'))], None))
    add(('selrel', 'many', 'n', V('c'), [('A', 'R3', None), ('B', 'R1', T('owns')), ('C', 'R3', None)], None))
    add(('selrel', 'many', 'n', V('a'), [('B', 'R3', T('right'))], None))
    add(('selrel', 'one', 'n', V('c'), [('A', 'R3', ID('left')), ('A', 'R2', T('prev'))], W[0]))
    # -- invocations as statements ----------------------------------------------------------------------------------------------
    add(('call', None, ('fcall', 'g', [])))
    for c in calls:
        add(('call', None, c))
        if c[0] == 'ncall':
            add(('call', 'bridge' if c[1] == 'EE' else 'transform', c))
            add(('callassign', 'bridge' if c[1] == 'EE' else 'transform', V('x'), c))
            add(('callassign', 'bridge' if c[1] == 'EE' else 'transform', V('i'), c))
        if c[0] == 'icall':
            add(('call', 'transform', c))
            add(('callassign', 'transform', V('x'), c))
            add(('callassign', 'transform', F('a', 'Num'), c))
    add(('call', None, ('ncall', 'EE', 'n', [])))
    add(('call', 'bridge', ('ncall', 'EE', 'n', [])))
    add(('call', None, ('fcall', 'f', [('x', BIN('+', V('i'), I(1))), ('y', F('a', 'Rate'))])))
    add(('call', None, ('fcall', 'h', [('x', ('ncall', 'EE', 'b', [('p', I(1)), ('q', STR)]))])))
    add(('call', None, ('ncall', 'EE', 'b', [('p', ('icall', V('a'), 'op', [('q', I(1)), ('r', TRUE)])), ('q', F('a', 'Name'))])))
    add(('call', None, ('icall', V('a'), 'op', [('q', ('param', '$0')), ('r', UN('not', V('t')))])))
    # -- string literals are content: any character but '"' and the line feed, none of them an escape ------------------------
    for lit in STRING_LITERALS:
        e = ('str', lit)
        add(ASSIGN('x', e))
        add(('assign', F('a', 'Name'), BIN('+', e, V('s')), False))
        add(('selfrom', 'many', 'n', 'A', BIN('==', F(SEL, 'Name'), e), True), ('return', BIN('!=', V('s'), e)))
        add(('call', None, ('ncall', 'EE', 'b', [('p', I(1)), ('q', e)])), ('return', e))
    return S


def usertype_sources():
    '''(expression, declared type) -- every way a value of a user data type enters a body: attribute reads (through a handle
    and through self), parameter reads, the values of a function, a bridge, a class-based and an instance-based operation.  $2
    is the Stamp parameter of every home with parameters; $3 is declared Label (function, bridge) or Tick (operation): it is
    listed under both types and the analysis keeps the forms that are well-typed in the home.'''
    return [(F('a', 'When'), 'Stamp'), (F('a', 'Tag'), 'Label'), (F('a', 'Beat'), 'Tick'), (('param', '$2'), 'Stamp'),
            (F('b', 'When'), 'Tick'), (F(SELF, 'When'), 'Stamp'), (('param', '$3'), 'Label'), (('param', '$3'), 'Tick'),
            (('fcall', 'stamp', [('w', I(1))]), 'Stamp'), (('ncall', 'EE', 'title', [('l', STR)]), 'Label'),
            (('ncall', 'A', 'tick', []), 'Tick'), (('icall', V('a'), 'mark', []), 'Stamp')]


def family_usertypes(tier):
    '''Programs of the statement family about user data types.  For every source of usertype_sources(): the value is the
    FIRST assignment to a transient (which thereby has the user data type), the transient is copied, used next to core-typed
    operands (arithmetic, comparison, sign), passed as a parameter value (to a parameter of its own type, of the core type
    and of another user data type over the same core type), written back to attributes (of its type and of the core type) and
    assigned again; the other way round a transient first assigned a core-typed value keeps the core type; and the value is used
    directly.  For the first four sources (a one-level type over integer, one over string, the two-level one, a parameter)
    also: the explicit "assign", blocks, loops, an array, a where clause, return values and the invocation statement forms.'''
    P = []
    add = lambda *stmts: P.append(list(stmts))
    attr_of = {'Stamp': 'When', 'Label': 'Tag', 'Tick': 'Beat'}
    for n, (src, ty) in enumerate(usertype_sources()):
        num = base_t(ty) == 'integer'
        K, kv, core_attr, other = (I(1), V('i'), 'Num', V('st')) if num else (STR, V('s'), 'Name', V('lb'))
        u, u2 = V('u'), V('u2')
        same = ('fcall', 'stamp', [('w', u)]) if num else ('ncall', 'EE', 'title', [('l', u)])            # Stamp / Label parameter
        core = ('fcall', 'h', [('x', u)]) if num else ('ncall', 'EE', 'b', [('p', I(1)), ('q', u)])       # integer / string parameter
        add(ASSIGN('u', src))
        add(ASSIGN('u', src), ASSIGN('u2', u), ASSIGN('n', BIN('+', u, K)), ASSIGN('q', BIN('==', u2, K)), ASSIGN('m', BIN('+', kv, u2)))
        add(ASSIGN('u', src), ASSIGN('n', core), ('call', None, same), ASSIGN(F('a', attr_of[ty]), u), ASSIGN(F('a', core_attr), u))
        add(ASSIGN('u', src), ASSIGN('u', K), ASSIGN('u2', u))
        add(ASSIGN('n', K), ASSIGN('n', src), ASSIGN('m', V('n')))
        add(ASSIGN(F('a', core_attr), src), ASSIGN('q', BIN('!=', src, kv)), ('return', BIN('+', src, K)))
        add(ASSIGN('u', src), ASSIGN('q', BIN('==', u, other)), ASSIGN('u2', same), ASSIGN('q2', BIN('<', u2, other)))
        if n >= 4:
            continue
        add(ASSIGN('u', src, True), ASSIGN('u2', u, True))
        add(('if', V('t'), [ASSIGN('u', src), ASSIGN('u2', u)], [(BIN('==', src, K), [ASSIGN('u', K), ASSIGN('u2', u)])],
             [ASSIGN('u', other), ASSIGN('u', src)], [False, False]), ASSIGN('u', TRUE))
        add(ASSIGN('u', src), ('while', BIN('<', u, K), [ASSIGN('u2', u), ASSIGN('u', u2), ('break',)], False), ('return', u))
        add(ASSIGN('u', src), ('foreach', 'k', 'aset', [ASSIGN(F('k', attr_of[ty]), u), ASSIGN('u2', F('k', attr_of[ty]))], False))
        add(ASSIGN(('index', V('arr'), I(1)), src), ASSIGN('z', ('index', V('arr'), I(0))), ASSIGN(('index', V('arr'), I(0)), K))
        add(ASSIGN('u', src), ('selfrom', 'any', 'n', 'A', BIN('==', F(SEL, attr_of[ty]), u), True),
            ('selrel', 'many', 'ns', V('a'), [('B', 'R1', None)], BIN('!=', F(SEL, 'When'), u) if num else BIN('!=', u, STR)))
        add(('return', src))
        add(ASSIGN('u', src), ('return', u))
        if num:
            add(ASSIGN('u', src), ASSIGN('n', UN('-', u)), ASSIGN('m', BIN('%', u, I(2))), ASSIGN('d', BIN('/', R15, u)))
    # a transient declared by the value of an invocation written with its statement keyword
    add(('callassign', 'bridge', V('u'), ('ncall', 'EE', 'title', [('l', STR)])), ASSIGN('u2', V('u')))
    add(('callassign', 'transform', V('u'), ('ncall', 'A', 'tick', [])), ASSIGN('u2', V('u')))
    add(('callassign', 'transform', V('u'), ('icall', V('a'), 'mark', [])), ASSIGN('u2', V('u')))
    # values of user data types as the parameter values of the callables declared with them, nested
    add(ASSIGN('u', ('fcall', 'stamp', [('w', ('fcall', 'stamp', [('w', F('a', 'Beat'))]))])), ASSIGN('u2', V('u')))
    add(('call', None, ('fcall', 'main', [('x', F('a', 'When')), ('y', R15), ('w', ('ncall', 'A', 'tick', [])), ('l', F('a', 'Tag'))])))
    add(('call', None, ('ncall', 'EE', 'relay', [('l', V('lb')), ('w', V('st')), ('q', V('lb')), ('p', V('st'))])))
    add(ASSIGN('n', ('icall', V('a'), 'run', [('q', I(1)), ('r', TRUE), ('w', ('icall', V('a'), 'mark', [])), ('k', F('b', 'When'))])))
    # the same attribute name declared with two types in two classes
    add(ASSIGN('u', F('a', 'When')), ASSIGN('u2', F('b', 'When')), ASSIGN('q', BIN('==', V('u'), V('u2'))))
    add(ASSIGN('u', F('b', 'When')), ASSIGN('u2', F('a', 'When')), ASSIGN(F('b', 'When'), V('u2')), ASSIGN(F('a', 'When'), V('u')))
    return P


# backslashes (also last, and in front of what would be an escape elsewhere), control characters (tab, other C0 / C1 ones, a lone
# carriage return), characters outside ASCII (Latin-1, BMP, the line / paragraph separators, beyond the BMP), format directives
STRING_LITERALS = ['C:\\users\\x1\\', '\\n \\t \\u0041 \\x41 \\\\ %s %(a)s {0} {}', 'tab\there \x01\x1f\x7f\x85',
                   'caf\u00e9 \u4e2d\u6587 \u2028\u2029 \U0001f600', 'cr\rlf']


def family_expressions(tier):
    '''Typed expression trees: every operator over every operand pair (depth 2), every operator pair in both
    shapes over one operand per type (depth 3); each as the value of "x = e".'''
    O = operands(tier)
    num = O['integer'] + O['real']
    out = []
    # depth 2
    for op in ('+', '-', '*', '/'):
        out += [BIN(op, l, r) for l in num for r in num]
    out += [BIN('%', l, r) for l in O['integer'] for r in O['integer']]
    for op in COMPARISONS:
        out += [BIN(op, l, r) for l in num for r in num]
        out += [BIN(op, l, r) for l in O['string'] for r in O['string']]
    for op in ('==', '!='):
        for k in ('boolean', 'Color', 'inst', 'set'):
            out += [BIN(op, l, r) for l in O[k] for r in O[k]]
    for op in ('and', 'or'):
        out += [BIN(op, l, r) for l in O['boolean'] for r in O['boolean']]
    for op in ('|', '&', '^'):
        out += [BIN(op, l, r) for l in O['set'] for r in O['set']]
    out += [UN('not', x) for x in O['boolean']]
    out += [UN(op, x) for op in ('-', '+') for x in num]
    out += [UN(op, x) for op in ('empty', 'not_empty', 'cardinality') for x in O['inst'] + O['set']]
    # unary operators applied to the value of unary operators (round 10, C05-20): two nested unaries are two nodes
    for outer in ('not',):
        out += [UN(outer, UN(op, x)) for op in ('empty', 'not_empty') for x in O['inst'] + O['set']]
        out += [UN(outer, UN('not', x)) for x in O['boolean']]
        out += [UN(outer, UN(outer, UN('empty', x))) for x in O['inst'][:1] + O['set'][:1]]
    out += [UN('-', UN('-', x)) for x in num[:2]] + [UN('-', UN('cardinality', x)) for x in O['set'][:1]]
    out += [UN('+', UN('-', x)) for x in num[:1]] + [UN('-', UN('+', x)) for x in num[:1]]
    # depth 3: one operand per type
    i, r, t, s = V('i'), V('r'), V('t'), V('aset')
    AR, CM, LG, ST = ('+', '-', '*', '/', '%'), COMPARISONS, ('and', 'or'), ('|', '&', '^')
    for o1 in AR:
        for o2 in AR:
            out += [BIN(o1, BIN(o2, i, I(2)), I(3)), BIN(o1, i, BIN(o2, I(2), I(3)))]
        out += [BIN(o1, UN('-', i), I(2)), BIN(o1, i, UN('-', I(2))), UN('-', BIN(o1, i, I(2)))]
    for c in CM:
        for o in AR:
            out += [BIN(c, BIN(o, i, I(2)), I(3)), BIN(c, i, BIN(o, I(2), I(3)))]
        out += [BIN(c, UN('-', i), I(2)), UN('not', BIN(c, i, I(2))), BIN(c, UN('cardinality', s), I(1))]
        for l in LG:
            out += [BIN(l, BIN(c, i, I(1)), t), BIN(l, t, BIN(c, i, I(1)))]
        for e in ('==', '!='):
            out += [BIN(e, BIN(c, i, I(1)), t), BIN(e, t, BIN(c, i, I(1)))]
    for l1 in LG:
        for l2 in LG:
            out += [BIN(l1, BIN(l2, t, TRUE), FALSE), BIN(l1, t, BIN(l2, TRUE, FALSE))]
        out += [BIN(l1, UN('not', t), TRUE), UN('not', BIN(l1, t, TRUE)), BIN(l1, UN('empty', s), UN('not_empty', V('a')))]
        for e in ('==', '!='):
            out += [BIN(e, BIN(l1, t, TRUE), FALSE), BIN(l1, BIN(e, t, TRUE), FALSE)]
    for s1 in ST:
        for s2 in ST:
            out += [BIN(s1, BIN(s2, s, s), s), BIN(s1, s, BIN(s2, s, s))]
        out += [UN('cardinality', BIN(s1, s, s)), UN('empty', BIN(s1, s, s))]
    out += [UN('not', UN('not', t)), UN('-', UN('-', i)), UN('-', UN('+', r)), BIN('+', BIN('+', V('s'), STR), STR)]
    if tier == 'thorough':
        # depth 4 chains of three operators of rising / falling / equal precedence
        reps = ['or', 'and', '==', '<', '+', '*', '%']
        for o1 in reps:
            for o2 in reps:
                for o3 in reps:
                    out += [BIN(o1, BIN(o2, BIN(o3, i, I(1)), I(2)), I(3)), BIN(o1, I(3), BIN(o2, I(2), BIN(o3, I(1), i))),
                            BIN(o1, BIN(o2, i, I(1)), BIN(o3, I(2), I(3)))]
    progs = [[ASSIGN('x', e)] for e in out]
    # expression contexts
    ctxs = [BIN('+', BIN('*', V('i'), I(2)), I(1)), BIN('*', BIN('+', V('i'), I(2)), I(3)), UN('-', BIN('+', V('i'), I(1))),
            BIN('-', V('i'), BIN('-', I(2), I(1))), ('fcall', 'h', [('x', BIN('+', V('i'), I(1)))])]
    bools = [BIN('and', BIN('<', V('i'), I(3)), UN('not', V('t'))), BIN('or', V('t'), BIN('and', V('t'), TRUE)),
             BIN('==', BIN('+', V('i'), I(1)), I(2)), UN('not', BIN('or', V('t'), FALSE)), BIN('<', ('fcall', 'h', [('x', I(1))]), V('i'))]
    for e in ctxs:
        progs += [[('return', e)], [ASSIGN(F('a', 'Num'), e)], [ASSIGN(('index', V('v'), e), e)], [ASSIGN('x', ('index', V('v'), e))],
                  [('call', None, ('fcall', 'h', [('x', e)]))], [('call', None, ('icall', V('a'), 'op', [('q', e), ('r', TRUE)]))],
                  [('selfrom', 'any', 'n', 'A', BIN('==', F(SEL, 'Num'), e), True)]]
    for e in bools:
        progs += [[('if', e, [], [], None, [False])], [('while', e, [('break',)], False)], [('if', TRUE, [], [(e, [])], None, [False, False])],
                  [('selfrom', 'many', 'n', 'A', BIN('and', F(SEL, 'Flag'), e), True)],
                  [('selrel', 'many', 'n', V('a'), [('B', 'R1', None)], BIN('or', BIN('==', F(SEL, 'Num'), I(1)), e))],
                  [('call', None, ('icall', V('a'), 'op', [('q', I(1)), ('r', e)]))], [ASSIGN(F('a', 'Flag'), e)], [('return', e)]]
    return progs


def sequence_menu():
    '''Core menu of the sequence family: one statement of every kind.'''
    return [
        ASSIGN('x', I(1)),
        ASSIGN('y', BIN('+', V('x'), I(1))),
        ASSIGN(F('a', 'Num'), V('i')),
        ('create', 'n', 'A'),
        ('selfrom', 'any', 'n', 'A', None, True),
        ('selrel', 'many', 'ns', V('a'), [('B', 'R1', None)], None),
        ('foreach', 'm', 'ns', [ASSIGN('x', F('m', 'Num'))], False),
        ('if', V('t'), [ASSIGN('x', I(2))], [], None, [False]),
        ('while', V('t'), [('break',)], False),
        ('relate', 'a', 'b', 'R1', None, None),
        ('call', None, ('fcall', 'g', [])),
        ASSIGN('x', ('fcall', 'f', [('x', I(1)), ('y', R15)])),
        ('delete', 'n'),
        ('return', None),
        # (appended: the sequences of three are drawn from the first eight)  a transient declared with a user data type by
        # its first assignment, and a copy of it into x -- which is declared by the copy, or was declared before
        ASSIGN('st', F('a', 'When')),
        ASSIGN('x', V('st')),
    ]


def family_sequences(tier):
    import itertools
    K = sequence_menu()
    out = []
    if tier == 'quick':
        bounds = [(2, len(K)), (3, 8)]
    else:
        bounds = [(2, len(K)), (3, len(K)), (4, 8)]
    seen = set()
    for n, width in bounds:
        for seq in itertools.product(K[:width], repeat=n):
            if repr(seq) not in seen:
                seen.add(repr(seq))
                out.append(list(seq))
    return out, bounds


def family_nesting(tier):
    '''Control-flow nesting: every container around every body, to nesting depth 2 (thorough 3).'''
    simple = [ASSIGN('x', I(1)), ASSIGN(F('a', 'Num'), V('i')), ('call', None, ('fcall', 'g', [])), ('return', None),
              ('selfrom', 'any', 'n', 'A', None, True)]
    loop_only = [('break',), ('continue',)]
    c0, c1, c2 = V('t'), BIN('<', V('i'), I(3)), BIN('==', V('i'), I(7))

    def containers(bodies, bodies2):
        '''bodies: full list for the main block; bodies2: short list for secondary blocks.'''
        out = []
        for b in bodies:
            out.append(('if', c0, b, [], None, [False]))
            out.append(('while', c1, b, False))
            out.append(('foreach', 'k', 'aset', b, False))
            for b2 in bodies2:
                out.append(('if', c0, b, [], b2, [False]))
                out.append(('if', c0, b2, [(c2, b)], None, [False, False]))
                # the block of an elif that is FOLLOWED by further clauses (else / another elif)
                out.append(('if', c0, b2, [(c2, b)], b2, [False, False]))
                out.append(('if', c0, b2, [(c2, b), (c1, b2)], None, [False, False, False]))
                out.append(('if', c0, b2, [(c1, b2), (c2, b)], b2, [False, False, False]))
        for b in bodies2:
            for b2 in bodies2:
                for b3 in bodies2:
                    out.append(('if', c0, b, [(c1, b2), (c2, b3)], None, [False, False, False]))
                    out.append(('if', c0, b, [(c1, b2)], b3, [False, False]))
        return out

    one = [[s] for s in simple + loop_only]
    two = [[s, u] for s in simple[:3] + loop_only[:1] for u in simple[:3] + loop_only[:1]]
    short = [[simple[0]], [simple[2]], []]
    level1 = containers(one + two + [[]], short)
    progs = [[c] for c in level1]
    # depth 2: a container inside every block position of a container
    inner = containers([[simple[0]], [loop_only[0]], []], [[simple[2]]])
    if tier == 'quick':
        inner = [c for c in inner if not (c[0] == 'if' and len(c[3]) == 2)]
    for c in inner:
        for b in ([c], [simple[0], c], [c, simple[0]], [c, c]):
            progs += [[x] for x in containers([b], [[simple[2]]]) if not (x[0] == 'if' and len(x[3]) == 2 and tier == 'quick')]
        progs.append([('if', c0, [simple[0]], [], [c], [False])])
        progs.append([('if', c0, [simple[0]], [(c1, [c])], None, [False, False])])
    if tier == 'thorough':
        deep = containers([[inner[0]], [inner[1]], [inner[2]]], [[simple[2]]])
        for c in deep:
            progs += [[x] for x in containers([[c]], [[simple[2]]])]
    # scoping: declarations inside blocks do not leak, outer declarations are reused
    progs += [
        # variable names that differ only in letter case are different variables
        [ASSIGN('step', I(1)), ASSIGN('Step', I(2)), ASSIGN('z', BIN('*', V('step'), V('Step')))],
        [ASSIGN('Step', I(1)), ASSIGN('step', STR), ASSIGN('STEP', V('Step')), ASSIGN('z', V('step'))],
        [('selfrom', 'any', 'n', 'A', None, True), ('selfrom', 'many', 'N', 'A', None, True), ('foreach', 'k', 'N', [ASSIGN('x', F('n', 'Num'))], False)],
        [('if', c0, [ASSIGN('x', I(1))], [], [ASSIGN('x', STR)], [False]), ASSIGN('x', TRUE)],
        [ASSIGN('x', I(1)), ('if', c0, [ASSIGN('x', I(2)), ASSIGN('y', V('x'))], [], None, [False]), ASSIGN('y', STR)],
        [('while', c1, [('create', 'n', 'A'), ('if', c0, [('delete', 'n'), ('break',)], [], None, [False])], False), ('create', 'n', 'B')],
        [('foreach', 'k', 'aset', [('selrel', 'many', 'bs', V('k'), [('B', 'R1', None)], None),
                                   ('foreach', 'b2', 'bs', [ASSIGN('x', F('b2', 'Num'))], False)], False), ASSIGN('z', F('k', 'Num'))],
    ]
    return progs


def qualified_names():
    '''Every enumerator and every constant of the host as a qualified read.'''
    out = [('enum', ename, n) for ename, ns in ENUMS for n in ns] + [('enum', g, c) for g, c, _, _ in CONSTANTS]
    if EXPLORE_ENUM_ALIASES:
        out += [('enum', alias, dict(ENUMS)[base][0]) for alias, base in ENUM_ALIASES]
    return out


def family_names(tier):
    '''Qualified names (NS::name) whose unqualified part is shared between namespaces: every ordered pair of
    enumerator / constant reads in one body (two statements), and pairs sharing a name inside one expression, across
    nested blocks, in a where clause and its body, and as parameter values of one call.'''
    Q = qualified_names()
    progs = []
    for q1 in Q:
        for q2 in Q:
            progs.append([ASSIGN('x', q1), ASSIGN('y', q2)])
    CR, MR, LR = ('enum', 'Color', 'Red'), ('enum', 'Mode', 'Red'), ('enum', 'L', 'Red')
    KT, LT = ('enum', 'K', 'TEN'), ('enum', 'L', 'TEN')
    MO = ('enum', 'Mode', 'Off')
    shared = [(CR, MR), (MR, CR), (CR, LR), (LR, CR), (MR, LR), (LR, MR), (KT, LT), (LT, KT)]
    var_of = {'Color': V('e'), 'Mode': V('md'), 'K': V('i'), 'L': V('i')}

    def test(q):
        '''A boolean expression reading q.'''
        if q == LT:
            return BIN('==', V('s'), q)
        return BIN('==', var_of[q[1]], q)
    for q1, q2 in shared:
        progs.append([ASSIGN('x', BIN('and', test(q1), test(q2)))])
        progs.append([('if', test(q1), [ASSIGN('y', q2)], [], [ASSIGN('y', q2), ASSIGN('z', q1)], [False])])
        progs.append([('if', V('t'), [ASSIGN('x', q1)], [(test(q2), [ASSIGN('y', q2)])], None, [False, False]), ASSIGN('z', q1)])
        progs.append([('while', test(q1), [ASSIGN('y', q2), ('break',)], False), ASSIGN('z', q2)])
        progs.append([('foreach', 'k', 'aset', [ASSIGN('x', q1)], False), ASSIGN('y', q2), ASSIGN('z', q1)])
        progs.append([ASSIGN('x', q1), ('return', q2)])
    for q1, q2 in ((CR, MR), (MR, CR)):
        w = BIN('==', F(SEL, 'Col'), CR)
        progs.append([('selfrom', 'any', 'n', 'A', w, True), ASSIGN('y', MR)] if q1 == CR else
                     [ASSIGN('y', MR), ('selfrom', 'many', 'n', 'A', w, True)])
        progs.append([ASSIGN(F('a', 'Col'), CR), ASSIGN('y', MR)] if q1 == CR else [ASSIGN('y', MR), ASSIGN(F('a', 'Col'), CR)])
    # same-named constants of different types as the two parameter values of one call, both orders of writing
    progs.append([('call', None, ('ncall', 'EE', 'b', [('p', KT), ('q', LT)]))])
    progs.append([('call', None, ('ncall', 'EE', 'b', [('q', LT), ('p', KT)]))])
    progs.append([ASSIGN('x', ('ncall', 'EE', 'b', [('p', LR), ('q', LT)])), ASSIGN('y', MR), ASSIGN('z', KT)])
    return progs


def home_params(stmts, home):
    '''Replace the parameter placeholders $0, $1 by the names of the home's parameters.'''
    ps = HOME_PARAMS[home]

    def sub(x):
        if isinstance(x, (list, tuple)):
            if len(x) == 2 and x[0] == 'param' and isinstance(x[1], str) and x[1].startswith('$'):
                k = int(x[1][1:])
                return ('param', ps[k][0] if k < len(ps) else '$none')
            return type(x)(sub(y) for y in x)
        return x
    return sub(stmts)


def tolist(x):
    '''JSON shape of a program (tuples become lists) -- the form stored in cases.'''
    if isinstance(x, (list, tuple)):
        return [tolist(y) for y in x]
    return x


def all_tasks(tier, seed=0):
    '''Every (program, home) task of the tier, in a deterministic order; plus the bounds dictionary.'''
    fams = []
    usertypes = family_usertypes(tier)
    fams.append(('statements', family_statements(tier) + usertypes))
    fams.append(('expressions', family_expressions(tier)))
    seqs, seq_bounds = family_sequences(tier)
    fams.append(('sequences', seqs))
    fams.append(('nesting', family_nesting(tier)))
    fams.append(('names', family_names(tier)))
    tasks = []
    seen = set()
    counts = {}
    for fam, progs in fams:
        for idx, core_stmts in enumerate(progs):
            for home in HOMES:
                stmts = tolist(home_params(core_stmts, home))
                key = (repr(stmts), home)
                if key in seen:
                    continue
                if complete(stmts, home) is None:
                    counts[fam, 'dropped'] = counts.get((fam, 'dropped'), 0) + 1
                    continue
                seen.add(key)
                counts[fam, 'kept'] = counts.get((fam, 'kept'), 0) + 1
                tasks.append(dict(family=fam, stmts=stmts, home=home, entry='model' if (idx + seed) % 2 else 'action'))
    bounds = dict(families=dict((f, dict(candidates=len(p) * len(HOMES), well_formed=counts.get((f, 'kept'), 0)))
                                for f, p in fams),
                  sequence_bounds=[dict(length=n, menu=w) for n, w in seq_bounds],
                  control_flow_nesting=2 if tier == 'quick' else 3,      # blocks inside blocks below the body
                  expression_depth=3 if tier == 'quick' else 4,
                  chain_steps=2 if tier == 'quick' else 3, homes=HOMES,
                  user_data_types=dict(types=dict(USER_TYPES), programs_in_the_statement_family=len(usertypes),
                                       sources=[repr(x) for x in usertype_sources()],
                                       declared_with_them='attributes A.When, A.Tag, A.Beat, B.When; the last two parameters of '
                                                          'the function, bridge and operation homes; the return types of '
                                                          '::stamp, EE::title, A::tick, A.mark'),
                  qualified_names=dict(enumerations=dict(ENUMS), constants=['%s::%s (%s)' % c[:3] for c in CONSTANTS],
                                       pairs='every ordered pair of the %d qualified names read in one body; pairs sharing their '
                                             'unqualified name also inside one expression, across nested blocks, where clause / body, '
                                             'parameters of one call' % len(qualified_names())))
    return tasks, bounds


# ---------------------------------------------------------------------------
# Part 7 -- the C06 oracle: walk the prebuilt population side by side with the
# expected tree of the program.
# ---------------------------------------------------------------------------

BODY_OF = {'function': ('ACT_FNB', 695), 'bridge': ('ACT_BRB', 697), 'operation': ('ACT_OPB', 696), 'attribute': ('ACT_DAB', 693)}

STMT_KIND = {
    'AssignmentNode': 'ACT_AI', 'BreakNode': 'ACT_BRK', 'ContinueNode': 'ACT_CON', 'ControlNode': 'ACT_CTL',
    'ReturnNode': 'ACT_RET', 'CreateObjectNode': 'ACT_CR', 'CreateObjectNoVariableNode': 'ACT_CNV', 'DeleteNode': 'ACT_DEL',
    'RelateNode': 'ACT_REL', 'RelateUsingNode': 'ACT_RU', 'UnrelateNode': 'ACT_UNR', 'UnrelateUsingNode': 'ACT_URU',
    'SelectFromNode': 'ACT_FIO', 'SelectFromWhereNode': 'ACT_FIW', 'SelectRelatedNode': 'ACT_SEL',
    'SelectRelatedWhereNode': 'ACT_SEL', 'IfNode': 'ACT_IF', 'WhileNode': 'ACT_WHL', 'ForEachNode': 'ACT_FOR',
}
INVOCATION_STMT = {'function': ('ACT_FNC', 669), 'bridge': ('ACT_BRG', 628), 'class-operation': ('ACT_TFM', 627),
                   'instance-operation': ('ACT_TFM', 627)}
INVOCATION_VAL = {'function': ('V_FNV', 817), 'bridge': ('V_BRV', 810), 'class-operation': ('V_TRV', 811),
                  'instance-operation': ('V_TRV', 811)}
VALUE_KIND = {
    'IntegerNode': 'V_LIN', 'RealNode': 'V_LRL', 'StringNode': 'V_LST', 'BooleanNode': 'V_LBO', 'SelfAccessNode': 'V_IRF',
    'SelectedAccessNode': 'V_SLR', 'ParamAccessNode': 'V_PVL', 'FieldAccessNode': 'V_AVL', 'IndexAccessNode': 'V_AER',
    'UnaryOperationNode': 'V_UNY', 'BinaryOperationNode': 'V_BIN',
}
VAR_USE = {'V_IRF': 808, 'V_ISR': 809, 'V_TVL': 805}
RELATE_VARS = {'ACT_REL': (615, 616, None), 'ACT_RU': (617, 618, 619), 'ACT_UNR': (620, 621, None), 'ACT_URU': (622, 623, 624)}


def null_id(x):
    return x is None or x == 0


class Walk(object):
    def __init__(self, sub, host, task, printed, text, spans, an):
        import xtuml
        self.sub, self.host, self.m, self.task = sub, host, host.m, task
        self.p, self.text, self.spans, self.an = printed, text, spans, an
        self.one, self.many = xtuml.navigate_one, xtuml.navigate_many
        self.reported = set()
        self.checks = 0
        self.namesakes = 0       # data types compared by identity that have a namesake in another component
        self.usertyped = 0       # values and variables whose expected type is a user data type
        self.seen_smt, self.seen_val, self.seen_var, self.seen_blk = set(), set(), set(), set()
        self.loose = []          # expected nodes whose value instance nothing refers to (statement invocations, operation targets)

    # -- reporting --------------------------------------------------------------------------------------------
    def bad(self, sig, message, expected=None, observed=None):
        if sig in self.reported:
            return
        self.reported.add(sig)
        hist = self.task.get('history')
        after = ''
        if hist:
            sig = 'after-history:' + sig
            after = ', after %s' % '; '.join('%s of %r (%s)' % (how, (REJECTED_TEXTS if exp == 'rejected' else ACCEPTED_TEXTS)[name], exp)
                                             for how, exp, name in hist)
        if self.task.get('host'):
            after += ', host variant %r (build_host(m, %r))' % (self.task['host'], self.task['host'])
        if self.task.get('family') == 'handles':
            sig = 'handles:' + sig
        self.sub.violation('c06:' + sig, case_of(self.task),
                           '%s  [program %r, %s home, layout %s%s]' % (message, self.text, self.task['home'],
                                                                        self.task.get('layout', 'default'), after),
                           expected, observed, unit_test(self.text, self.task['home'], variant=self.task.get('host')))

    def check(self, ok, sig, message, expected=None, observed=None):
        self.checks += 1
        if not ok:
            self.bad(sig, message, expected, observed)
        return ok

    def src(self, node):
        return self.text[self.spans[node['first']][0]:self.spans[node['last']][1]]

    def pos(self, node):
        from mc.refs.oalast import line_col
        s, e = self.spans[node['first']][0], self.spans[node['last']][1]
        sl, sc = line_col(self.text, s)
        _, ec = line_col(self.text, e - 1)
        return (sl, sc, ec)

    def nav1(self, inst, kind, rel):
        return getattr(self.one(inst), kind)[rel]()

    def same_type(self, dt, want, sig, what):
        '''*dt* carries the name *want*: it must also BE the data type an action of this home sees under that name (the
        instance-reference types of the classes of its own component), not a namesake declared elsewhere.'''
        mine = self.host.types.get(want)
        if mine is None or dt is None or dt.Name != want:
            return
        if self.host.variant and class_of(want):
            self.namesakes += 1
        other = 'another data type of that name'
        k = self.nav1(dt, 'S_IRDT', 17)
        o = self.nav1(k, 'O_OBJ', 123) if k is not None else None
        if o is not None:
            other = 'the type of the class %r, which is not the class %s of the component of the action' % (o.Name, o.Key_Lett)
        self.check(dt is mine, sig + ':namesake', '%s is related to the data type %s -- %s' % (what, want, other),
                   'the %s visible from the home' % want, other)

    def navn(self, inst, kind, rel):
        return list(getattr(self.many(inst), kind)[rel]())

    # -- subtypes -----------------------------------------------------------------------------------------------
    def subtype_table(self, rel, sup):
        kinds = schema_constraints()[2]['R%d' % rel, sup]
        live = [k for k in kinds if self.m.select_any(k) is not None]
        table = {}
        for inst in self.m.select_many(sup):
            found = []
            for k in live:
                for x in self.navn(inst, k, rel):
                    found.append((k, x))
            table[inst] = found
            self.check(len(found) == 1, 'subtype-count:%s' % sup,
                       'a %s instance has %d subtypes across R%d: %s' % (sup, len(found), rel, [k for k, _ in found]),
                       'exactly one subtype', [k for k, _ in found])
        return table

    # -- entry ----------------------------------------------------------------------------------------------------
    def run(self):
        self.sub603 = self.subtype_table(603, 'ACT_SMT')
        self.sub801 = self.subtype_table(801, 'V_VAL')
        kind, rel = BODY_OF[self.task['home']]
        inst = self.host.homes[self.task['home']]
        act_act = getattr(self.one(inst), kind)[rel].ACT_ACT[698]()
        if not self.check(act_act is not None, 'structure:body', 'the home has no action body after prebuild'):
            return
        outer = self.nav1(act_act, 'ACT_BLK', 666)
        if not self.check(outer is not None, 'structure:body', 'the action has no outer block'):
            return
        self.block(self.p.expected['fields']['block'], outer)
        everything = [(self.seen_smt, 'ACT_SMT', 'statement'), (self.seen_blk, 'ACT_BLK', 'block')]
        for seen, kind, what in everything:
            extra = [x for x in self.m.select_many(kind) if x not in seen]
            self.check(not extra, 'structure:unexpected-%s' % what,
                       '%d %s instances do not correspond to anything in the program' % (len(extra), kind))
        spots = set(self.pos(n) for n in self.loose)
        for v in self.m.select_many('V_VAL'):
            if v not in self.seen_val:
                got = (v.LineNumber, v.StartPosition, v.EndPosition)
                self.check(got in spots, 'position:value:unreferenced',
                           'a V_VAL no statement or value refers to has the position %s of no invocation or operation target' % (got,),
                           sorted(spots), got)
        for v in self.m.select_many('V_VAR'):
            if v not in self.seen_var:
                self.check(v.Name == 'self', 'variable-block:unreferenced',
                           'variable %r of the population is not a variable of the program' % v.Name)

    # -- blocks and statements -------------------------------------------------------------------------------------------
    def block(self, node, act_blk):
        if not self.check(act_blk is not None, 'structure:block', 'a block of the program has no ACT_BLK'):
            return
        node['inst'] = act_blk
        self.seen_blk.add(act_blk)
        exp = node['fields']['statement_list']['fields']['children']
        real = []
        for s in self.navn(act_blk, 'ACT_SMT', 602):
            kinds = [k for k, _ in self.sub603.get(s, [])]
            if 'ACT_EL' in kinds or 'ACT_E' in kinds:
                continue
            real.append(s)
        if not self.check(len(real) == len(exp), 'structure:statement-count',
                          'a block of %d statements has %d ACT_SMT instances' % (len(exp), len(real)), len(exp), len(real)):
            return
        by_pos = {}
        for s in real:
            by_pos.setdefault((s.LineNumber, s.StartPosition), []).append(s)
        matched = []
        for e in exp:
            c = by_pos.get(self.pos(e)[:2], [])
            if len(c) != 1:
                matched = real            # fall back to creation order; the position mismatch is reported per statement
                break
            matched.append(c[0])
        ids = [s.Statement_ID for s in matched]
        prevs = [getattr(s, 'Previous_Statement_ID') for s in matched]
        want = [None] + ids[:-1]
        same = all((null_id(p) and w is None) or p == w for p, w in zip(prevs, want))
        if not same:
            mirrored = len(ids) > 1 and all((null_id(p) and w is None) or p == w for p, w in zip(prevs, ids[1:] + [None]))
            self.check(False, 'statement-chain-direction' if mirrored else 'statement-chain',
                       'ACT_SMT.Previous_Statement_ID of the statements of a block designates %s' %
                       ('the NEXT statement (none for the last)' if mirrored else 'something else than the previous statement'),
                       ['none' if w is None else 'statement %d' % ids.index(w) for w in want],
                       ['none' if null_id(p) else ('statement %d' % ids.index(p) if p in ids else 'a foreign statement') for p in prevs])
        else:
            self.checks += 1
        for e, s in zip(exp, matched):
            self.stmt(e, s)

    def smt_head(self, e, s, kind, positions=True):
        '''Common checks of one statement; returns the subtype instance or None.'''
        self.seen_smt.add(s)
        found = self.sub603.get(s, [])
        if not self.check([k for k, _ in found] == [kind], 'structure:statement-kind',
                          'statement %r is a %s in the population' % (self.src(e), [k for k, _ in found]), kind, [k for k, _ in found]):
            return None
        if positions:
            got = (s.LineNumber, s.StartPosition, s.EndPosition)
            self.check(got == self.pos(e), 'position:statement:%s' % kind,
                       'ACT_SMT of %r carries line/start/end column %s, its source text has %s' % (self.src(e), got, self.pos(e)),
                       self.pos(e), got)
        return found[0][1]

    def stmt(self, e, s):
        cls = e['cls']
        if cls == 'InvocationStatementNode':
            inv = e['fields']['invocation']
            kind, rel = INVOCATION_STMT[inv['kind']]
            x = self.smt_head(e, s, kind)
            if x is None:
                return
            self.loose.append(inv)
            if inv['kind'] == 'instance-operation':
                self.handle_var(inv['fields']['handle'], self.nav1(x, 'V_VAR', 667))
                self.loose.append(inv['fields']['handle'])
            self.params(inv, self.navn(x, 'V_PAR', rel))
            return
        x = self.smt_head(e, s, STMT_KIND[cls])
        if x is None:
            return
        f = e['fields']
        if cls == 'AssignmentNode':
            self.value(f['expression'], self.nav1(x, 'V_VAL', 609))
            l = f['variable_access']
            root = l
            while root['cls'] == 'IndexAccessNode':
                root = root['fields']['handle']
            if root.get('declares'):
                root['var'].observed = f['expression'].get('observed_t')
            self.value(l, self.nav1(x, 'V_VAL', 689))
        elif cls == 'ReturnNode':
            v = self.nav1(x, 'V_VAL', 668)
            if f['expression'] is None:
                self.check(v is None, 'structure:return-value', 'a bare return has a value')
            else:
                self.value(f['expression'], v)
        elif cls == 'CreateObjectNode':
            self.var_ref(e['vars']['variable_name'], self.nav1(x, 'V_VAR', 633))
        elif cls == 'DeleteNode':
            self.var_ref(e['vars']['variable_name'], self.nav1(x, 'V_VAR', 634))
        elif cls in ('RelateNode', 'RelateUsingNode', 'UnrelateNode', 'UnrelateUsingNode'):
            a, b, u = RELATE_VARS[STMT_KIND[cls]]
            self.var_ref(e['vars']['from_variable_name'], self.nav1(x, 'V_VAR', a))
            self.var_ref(e['vars']['to_variable_name'], self.nav1(x, 'V_VAR', b))
            if u:
                self.var_ref(e['vars']['using_variable_name'], self.nav1(x, 'V_VAR', u))
        elif cls == 'SelectFromNode':
            self.var_ref(e['vars']['variable_name'], self.nav1(x, 'V_VAR', 639))
        elif cls == 'SelectFromWhereNode':
            self.value(f['where_clause'], self.nav1(x, 'V_VAL', 610))
            self.var_ref(e['vars']['variable_name'], self.nav1(x, 'V_VAR', 665))
        elif cls in ('SelectRelatedNode', 'SelectRelatedWhereNode'):
            self.value(f['handle'], self.nav1(x, 'V_VAL', 613))
            self.chain(e, x)
            self.var_ref(e['vars']['variable_name'], self.nav1(x, 'V_VAR', 638))
            if cls == 'SelectRelatedWhereNode':
                srw = self.nav1(x, 'ACT_SRW', 664)
                if self.check(srw is not None, 'structure:where', 'select ... where has no ACT_SRW'):
                    self.value(f['where_clause'], self.nav1(srw, 'V_VAL', 611))
        elif cls == 'IfNode':
            self.value(f['expression'], self.nav1(x, 'V_VAL', 625))
            self.block(f['block'], self.nav1(x, 'ACT_BLK', 607))
            exp = f['elif_list']['fields']['children']
            els = self.navn(x, 'ACT_EL', 682)
            if self.check(len(els) == len(exp), 'structure:elif-count', 'if with %d elif clauses has %d ACT_EL' % (len(exp), len(els))):
                # pair the clauses by the position of their conditions
                conds = {}
                for el in els:
                    v = self.nav1(el, 'V_VAL', 659)
                    if v is not None:
                        conds[(v.LineNumber, v.StartPosition)] = el
                ordered = [conds.get(self.pos(c['fields']['expression'])[:2]) for c in exp]
                if None in ordered or len(set(map(id, ordered))) != len(exp):
                    ordered = els
                for c, el in zip(exp, ordered):
                    self.pseudo(el)
                    self.value(c['fields']['expression'], self.nav1(el, 'V_VAL', 659))
                    self.block(c['fields']['block'], self.nav1(el, 'ACT_BLK', 658))
            act_e = self.nav1(x, 'ACT_E', 683)
            if f['else_clause'] is None:
                self.check(act_e is None, 'structure:else', 'if without else has an ACT_E')
            elif self.check(act_e is not None, 'structure:else', 'else clause has no ACT_E'):
                self.pseudo(act_e)
                self.block(f['else_clause']['fields']['block'], self.nav1(act_e, 'ACT_BLK', 606))
        elif cls == 'WhileNode':
            self.value(f['expression'], self.nav1(x, 'V_VAL', 626))
            self.block(f['block'], self.nav1(x, 'ACT_BLK', 608))
        elif cls == 'ForEachNode':
            self.var_ref(e['vars']['instance_variable_name'], self.nav1(x, 'V_VAR', 614))
            self.var_ref(e['vars']['set_variable_name'], self.nav1(x, 'V_VAR', 652))
            self.block(f['block'], self.nav1(x, 'ACT_BLK', 605))

    def pseudo(self, sub):
        '''elif / else clauses are statements of the population too; only their subtype count is claimed.'''
        s = self.nav1(sub, 'ACT_SMT', 603)
        if s is not None:
            self.seen_smt.add(s)

    def chain(self, e, act_sel):
        exp = [(self.an.f(st, 'key_letter'), self.an.f(st, 'rel_id'), self.an.f(st, 'phrase'))
               for st in e['fields']['navigation_chain']['fields']['children']]
        links = dict((l.Link_ID, l) for l in self.m.select_many('ACT_LNK'))
        seq = []
        cur = self.nav1(act_sel, 'ACT_LNK', 637)
        while cur is not None and len(seq) <= len(exp) + 1:
            seq.append(cur)
            nxt = getattr(cur, 'Next_Link_ID')
            cur = None if null_id(nxt) else links.get(nxt)

        def describe(l):
            o, r = self.nav1(l, 'O_OBJ', 678), self.nav1(l, 'R_REL', 681)
            return (o.Key_Lett if o else None, 'R%d' % r.Numb if r else None, l.Rel_Phrase or '')
        got = [describe(l) for l in seq]
        if got != exp:
            mirrored = len(exp) > 1 and got == exp[::-1]
            self.check(False, 'link-chain-direction' if mirrored else 'link-chain',
                       'following ACT_LNK.Next_Link_ID from the first step of %r visits %s' % (self.src(e), got), exp, got)
        else:
            self.checks += 1

    def params(self, inv, v_pars):
        exp = inv['fields']['parameter_list']['fields']['children']
        names = [self.an.f(p, 'name') for p in exp]
        by_name = dict((p.Name, p) for p in v_pars)
        if not self.check(len(v_pars) == len(exp) and sorted(by_name) == sorted(names), 'structure:parameters',
                          'invocation %r has the parameters %s in the population' % (self.src(inv), sorted(p.Name for p in v_pars)),
                          names, sorted(p.Name for p in v_pars)):
            return
        ordered = [by_name[n] for n in names]
        ids = [p.Value_ID for p in ordered]
        nexts = [getattr(p, 'Next_Value_ID') for p in ordered]
        want = ids[1:] + [None]
        same = all((null_id(n) and w is None) or n == w for n, w in zip(nexts, want))
        if not same:
            mirrored = len(ids) > 1 and all((null_id(n) and w is None) or n == w for n, w in zip(nexts, [None] + ids[:-1]))
            self.check(False, 'parameter-chain-direction' if mirrored else 'parameter-chain',
                       'V_PAR.Next_Value_ID of the parameters of %r designates %s' %
                       (self.src(inv), 'the PREVIOUS parameter (none for the first)' if mirrored else 'something else than the next parameter'),
                       ['none' if w is None else names[ids.index(w)] for w in want],
                       ['none' if null_id(n) else (names[ids.index(n)] if n in ids else 'a foreign parameter') for n in nexts])
        else:
            self.checks += 1
        for p, v_par in zip(exp, ordered):
            self.value(p['fields']['expression'], self.nav1(v_par, 'V_VAL', 800))

    # -- variables -------------------------------------------------------------------------------------------------------
    def var_ref(self, var, v_var):
        '''A reference of the program to *var* (None: self) resolved to the instance v_var.'''
        if not self.check(v_var is not None, 'structure:variable', 'a variable reference of the program has no V_VAR'):
            return
        self.seen_var.add(v_var)
        dt = self.nav1(v_var, 'S_DT', 848)
        if var is None:
            self.check(dt is not None and dt.Name == inst_t('A'), 'type:self', 'self is typed %s' % (dt.Name if dt else None), inst_t('A'),
                       dt.Name if dt else None)
            self.same_type(dt, inst_t('A'), 'type:self', 'self (R848)')
            return
        self.check(v_var.Name == var.name, 'structure:variable-name', 'reference to %s resolves to the variable %s' % (var.name, v_var.Name))
        blk = self.nav1(v_var, 'ACT_BLK', 823)
        self.check(blk is not None and blk is var.block.get('inst'), 'variable-block',
                   'variable %s is related (R823) to %s, not to the block of the statement that declares it (a block of nesting depth %d)' %
                   (var.name, 'no block' if blk is None else 'another block', var.block['depth']))
        want = var.t if var.claimed else getattr(var, 'observed', None)
        if want is not None:
            self.usertyped += base_t(want) != want
            self.check(dt is not None and dt.Name == want, 'type:variable-declaration',
                       'variable %s is typed %s; the value first assigned to it is %s' % (var.name, dt.Name if dt else None, want),
                       want, dt.Name if dt else None)
            self.same_type(dt, want, 'type:variable-declaration', 'variable %s (R848)' % var.name)

    def handle_var(self, h, v_var):
        if h['cls'] == 'SelfAccessNode':
            self.var_ref(None, v_var)
        else:
            self.var_ref(h['var'], v_var)

    # -- values ---------------------------------------------------------------------------------------------------------------
    def value(self, e, v):
        if not self.check(v is not None, 'structure:value', 'expression %r has no V_VAL where the statement expects it' % self.src(e)):
            return
        self.seen_val.add(v)
        cls = e['cls']
        var = e.get('var')
        if cls == 'VariableAccessNode':
            k = class_of(var.t)
            kind = 'V_TVL' if not k else ('V_ISR' if k[1] else 'V_IRF')
        elif cls == 'EnumOrNamedConstantNode':
            kind = 'V_LEN' if e['qkind'] == 'enumerator' else 'V_SCV'
        elif cls.endswith('InvocationNode'):
            kind = INVOCATION_VAL[e['kind']][0]
        else:
            kind = e.get('vkind') or VALUE_KIND[cls]            # vkind: <array>.length is a FieldAccessNode too (V_ALV)
        found = self.sub801.get(v, [])
        dt = self.nav1(v, 'S_DT', 820)
        e['observed_t'] = dt.Name if dt is not None else None
        kind_ok = self.check([k for k, _ in found] == [kind], 'structure:value-kind',
                             'expression %r is a %s in the population' % (self.src(e), [k for k, _ in found]), kind, [k for k, _ in found])
        if not kind_ok and self.task.get('family') != 'handles':
            return
        x = found[0][1] if kind_ok else None
        got = (v.LineNumber, v.StartPosition, v.EndPosition)
        self.check(got == self.pos(e), 'position:value:%s' % kind,
                   'V_VAL of %r carries line/start/end column %s, its source text has %s' % (self.src(e), got, self.pos(e)), self.pos(e), got)
        claim = e.get('claim')
        if cls == 'FieldAccessNode' and claim:
            # reads / writes of attributes named like something the translation knows, and genuine array lengths: counted per
            # kind of the expression in front of the dot (the vacuity guard of the handles family)
            if claim == 'array-length':
                self.sub.count('array_length:' + handle_kind(e['fields']['handle']))
            elif e['fields']['name'] in SPECIAL_ATTRIBUTE_NAMES:
                self.sub.count(('special_member:' if claim == 'member' else 'special_attribute:') + handle_kind(e['fields']['handle']))
        if claim:
            want = e['t']
            if claim == 'variable' and var is not None and not var.claimed:
                want = getattr(var, 'observed', None)
            if want is not None:
                self.usertyped += base_t(want) != want
                self.check(e['observed_t'] == want, 'type:%s' % claim,
                           'expression %r is related (R820) to the data type %s; under OAL typing it is %s (%s)' %
                           (self.src(e), e['observed_t'], want, claim), want, e['observed_t'])
                self.same_type(dt, want, 'type:%s' % claim, 'expression %r (R820)' % self.src(e))
        if not kind_ok:
            return
        f = e['fields']
        if cls == 'VariableAccessNode':
            self.var_ref(var, self.nav1(x, 'V_VAR', VAR_USE[kind]))
        elif cls == 'SelfAccessNode':
            self.var_ref(None, self.nav1(x, 'V_VAR', 808))
        elif cls == 'FieldAccessNode':
            self.value(f['handle'], self.nav1(x, 'V_VAL', {'V_ALV': 840, 'V_MVL': 837}.get(kind, 807)))
        elif cls == 'IndexAccessNode':
            self.value(f['handle'], self.nav1(x, 'V_VAL', 838))
            self.value(f['expression'], self.nav1(x, 'V_VAL', 839))
        elif cls == 'UnaryOperationNode':
            self.value(f['operand'], self.nav1(x, 'V_VAL', 804))
        elif cls == 'BinaryOperationNode':
            self.value(f['left'], self.nav1(x, 'V_VAL', 802))
            self.value(f['right'], self.nav1(x, 'V_VAL', 803))
        elif cls.endswith('InvocationNode'):
            if e['kind'] == 'instance-operation':
                self.handle_var(f['handle'], self.nav1(x, 'V_VAR', 830))
                self.loose.append(f['handle'])
            self.params(e, self.navn(x, 'V_PAR', INVOCATION_VAL[e['kind']][1]))


# keywords whose spelling the parser hands on to the translator (operator, cardinality, boolean value, self as an
# instance name): the case of the others never leaves the parser
SPELLED_THROUGH = set('NOT EMPTY NOT_EMPTY CARDINALITY AND OR TRUE FALSE ANY MANY ONE SELF'.split())


def spells_keywords_through(stmts):
    '''Does the program (as given, without prelude) contain a keyword whose spelling reaches the translator?'''
    from mc.refs import oalast
    return any(t.kw in SPELLED_THROUGH for t in oalast.print_program(stmts).toks)


# Action texts the parser rejects (ParseException), the offending token on line 1, 2, 4, at the end of input, and
# behind a comment spanning lines; and one well-formed text of several lines.
REJECTED_TEXTS = {
    'line-1': 'x = ;',
    'line-2': 'x = 1;\ny = ;',
    'line-4': 'x = 1;\n\n\nselect any from;',
    'end-of-input': 'if ( true )\n  x = 1;\n',
    'after-comment': '/* c\n c */\nx = 1;\nreturn return;',
}
ACCEPTED_TEXTS = {
    'three-lines': 'x = 1;\ny = 2;\nz = 3;',
}


def histories():
    '''What the process did before the translation under test: lists of steps [how, expected outcome, text name].
    how = parse (bridgepoint.oal.parse) | prebuild (prebuild_action of the text placed in the home of the task).
    Every single step, and every pair of rejected parses among two of the texts.'''
    out = []
    for name in sorted(REJECTED_TEXTS):
        out.append([['parse', 'rejected', name]])
        out.append([['prebuild', 'rejected', name]])
    for name in sorted(ACCEPTED_TEXTS):
        out.append([['parse', 'accepted', name]])
    for n1 in ('line-2', 'end-of-input'):
        for n2 in ('line-2', 'end-of-input'):
            out.append([['parse', 'rejected', n1], ['prebuild', 'rejected', n2]])
    return out


def apply_history(sub, host, home, history):
    '''Run the steps; returns None when each had the expected outcome and left no action instance behind, else the
    reason the run cannot be judged.'''
    import bridgepoint
    from bridgepoint import oal
    inst = host.homes[home]
    for how, expect, name in history:
        text = REJECTED_TEXTS[name] if expect == 'rejected' else ACCEPTED_TEXTS[name]
        try:
            if how == 'parse':
                oal.parse(text)
            else:
                inst.Action_Semantics_internal = text
                inst.Suc_Pars = 1
                bridgepoint.prebuild_action(inst)
            outcome = 'accepted'
        except oal.ParseException:
            outcome = 'rejected'
        except Exception as e:
            outcome = 'raised %s' % type(e).__name__
        if outcome != expect:
            return '%s of %r was %s, expected to be %s' % (how, text, outcome, expect)
        sub.count('history_steps')
    left = [k for k in sorted(host.m.metaclasses) if k.startswith(DUMP_PREFIXES) and host.m.select_any(k) is not None]
    if left:
        return 'the rejected texts left instances behind: %s' % left
    return None


def c06_child(sub, host, task):
    '''Child: (history, then) translate, then check the population.'''
    import bridgepoint
    from mc.refs import oalast
    full, printed, an = complete(task['stmts'], task['home'], variant=task.get('host'))
    text, spans = oalast.assemble(printed, layout_of(printed, task.get('layout')))
    case = case_of(task)
    if task.get('history'):
        why = apply_history(sub, host, task['home'], task['history'])
        if why is not None:
            sub.count('history_not_judged')
            sub.cap('a history run could not be judged: %s' % why)
            return True
        sub.count('history_runs')
    inst = host.homes[task['home']]
    inst.Action_Semantics_internal = text
    inst.Suc_Pars = 1
    sub.count('translations')
    try:
        if task.get('entry') == 'model':
            bridgepoint.prebuild_model(host.m)
        else:
            bridgepoint.prebuild_action(inst)
    except Exception as e:
        sub.violation('c06:%s:translate-exception:%s' % (task['family'], type(e).__name__), case,
                      'translating %r in the %s home raised %s: %s' % (text, task['home'], type(e).__name__, e),
                      'a population', repr(e), unit_test(text, task['home'], variant=task.get('host')))
        return False
    n0 = len(sub.violations)
    consistent = host.m.is_consistent()
    sub.count('checks')
    mine = constraint_violations(host.m)
    sub.count('checks')
    if not consistent or mine:
        rels = sorted(set(x.split(':')[0] for x in mine))
        sub.violation('c06:consistency:%s' % (rels[0] if rels else 'is_consistent'), case,
                      'after prebuilding %r (%s home) is_consistent() is %s and the schema constraints counted from the persisted '
                      'attribute values are violated %d times: %s' % (text, task['home'], consistent, len(mine), mine[:4]),
                      'is_consistent() and no violated multiplicity or uniqueness constraint', mine[:8] or consistent,
                      unit_test(text, task['home'], 'print(host.m.is_consistent())', variant=task.get('host')))
    w = Walk(sub, host, task, printed, text, spans, an)
    w.run()
    sub.count('checks', w.checks)
    sub.count('namesake_checks', w.namesakes)
    sub.count('usertype_checks', w.usertyped)
    if task.get('layout') == 'remarks':
        sub.count('remark_characters', sum(text.count(c) for c in ODD_CHARACTERS + '\r'))
    sub.count('values', len(w.seen_val))
    sub.count('statements', len(w.seen_smt))
    return len(sub.violations) == n0


def c06_run(ctx, task):
    '''One (program, home) state of C06 under each of its layouts.'''
    r = complete(task['stmts'], task['home'], variant=task.get('host'))
    if r is None:
        raise ValueError('task is not well-formed: %r' % (task,))
    ok = True
    for lay in task.get('layouts') or [task.get('layout', 'default')]:
        t = dict(task, layout=lay)
        t.pop('layouts', None)
        ctx.count('runs')
        res = isolated(ctx, c06_child, t, variant=task.get('host'))
        if isinstance(res, tuple):
            hang_or_crash(ctx, 'c06', t, res)
            ok = False
        else:
            ok = ok and bool(res)
        ctx.count('layout:' + lay)
    record_coverage(ctx, dict(task, layout='-'), r[2], ok)


# ---------------------------------------------------------------------------
# Part 8 -- canonical dump of a prebuilt population (used by C08: programs that
# differ only in keyword case must translate to equal populations).
# ---------------------------------------------------------------------------

DUMP_PREFIXES = ('ACT_', 'V_', 'E_')
DUMP_SKIP = {('ACT_SMT', 'Label')}            # the source text of the statement


def _dump_child(sub, host, text, home):
    import bridgepoint
    inst = host.homes[home]
    inst.Action_Semantics_internal = text
    inst.Suc_Pars = 1
    try:
        bridgepoint.prebuild_action(inst)
    except Exception as e:
        return ('error', '%s: %s' % (type(e).__name__, e))
    m = host.m
    index = {}

    def idx(x):
        kind = type(x).__name__
        if kind not in index:
            index[kind] = dict((id(i), n) for n, i in enumerate(m.find_metaclass(kind).select_many()))
        return index[kind].get(id(x), -1)

    by_source = {}
    for ass in m.associations:
        by_source.setdefault(ass.source_link.to_metaclass.kind, []).append(ass)
    out = []
    for kind in sorted(m.metaclasses):
        mc = m.metaclasses[kind]
        if not (kind.startswith(DUMP_PREFIXES) or kind == 'S_DIM'):
            continue
        for n, x in enumerate(mc.select_many()):
            attrs = []
            for name, ty in mc.attributes:
                if ty.upper() == 'UNIQUE_ID' or name in mc.referential_attributes or (kind, name) in DUMP_SKIP:
                    continue
                attrs.append((name, getattr(x, name)))
            links = []
            for ass in by_source.get(kind, ()):
                for other in ass.target_link.navigate(x):
                    links.append((ass.rel_id, ass.target_link.phrase or '', ass.target_link.kind, idx(other)))
            out.append((kind, n, tuple(attrs), tuple(sorted(links))))
    return ('ok', out)


def canonical_prebuild_dump(text, home='function'):
    '''Translate *text* as the body of the function home `main(x, y, w, l)` of a fresh host with prebuild_action and
    return an order-stable description of what was created: one entry per ACT_* / V_* / E_* (and S_DIM)
    instance -- (class, creation index within the class, non-id attribute values except the statement's
    source-text label, links to the instances its referential attributes designate as (association, phrase,
    class, creation index)).  Raises ValueError when the text cannot be translated.'''
    from mc import core
    res = isolated(core.Ctx('dump'), _dump_child, text, home)
    if not isinstance(res, tuple) or res[0] != 'ok':
        raise ValueError('cannot translate %r: %s' % (text, res[1] if isinstance(res, tuple) and len(res) > 1 else res))
    return res[1]


def prebuild_corpus(tier='quick', home='function'):
    '''(name, statements) of every program of the statement family that is well-formed in *home*, prelude
    included -- programs canonical_prebuild_dump can translate.'''
    out = []
    for n, core_stmts in enumerate(family_statements(tier)):
        stmts = tolist(home_params(core_stmts, home))
        r = complete(stmts, home)
        if r is not None:
            out.append(('statements_%d' % n, tolist(r[0])))
    return out
