'''
Canonical snapshot of a real xtuml.MetaModel through its public API, and value
normalisation rules of the persistence format (DESIGN.md section 4).
'''
import itertools

NULLS = {'BOOLEAN': False, 'INTEGER': 0, 'REAL': 0.0, 'STRING': '', 'UNIQUE_ID': 0}


def norm_value(v, ty):
    '''unset == null of the type; reals to the six decimals the format carries.'''
    ty = ty.upper()
    if v is None:
        v = NULLS.get(ty)
    if ty == 'REAL' and v is not None:
        return ['real', '%f' % v]
    if ty == 'BOOLEAN':
        return ['bool', bool(v)]
    if ty in ('INTEGER', 'UNIQUE_ID'):
        return ['int', int(v)]
    return ['str', v]


def snapshot(xtuml, m, link_order=False):
    '''
    Classes with upper-cased attribute types, identifiers, associations with both
    ends' multiplicity / conditionality / phrases / keys, instances per class in
    pool order with normalised values, links as index pairs per association.
    '''
    classes = {}
    idents = {}
    insts = {}
    index = {}
    for ukind in sorted(m.metaclasses):
        mc = m.metaclasses[ukind]
        classes[mc.kind] = [[n, t.upper()] for n, t in mc.attributes]
        idents[mc.kind] = sorted([str(k), list(v)] for k, v in mc.indices.items())
        rows = []
        for i, inst in enumerate(m.select_many(mc.kind)):
            index[inst] = (mc.kind, i)
            rows.append([norm_value(getattr(inst, n), t) for n, t in mc.attributes])
        insts[mc.kind] = rows
    assocs = []
    for ass in m.associations:
        s, t = ass.source_link, ass.target_link
        src, tgt = s.to_metaclass, t.to_metaclass
        links = []
        for inst in m.select_many(src.kind):
            for other in xtuml.navigate_many(inst).nav(tgt.kind, ass.rel_id, t.phrase)():
                links.append([index[inst][1], index.get(other, ('?', '?'))[1]])
        back = []
        for inst in m.select_many(tgt.kind):
            for other in xtuml.navigate_many(inst).nav(src.kind, ass.rel_id, s.phrase)():
                back.append([index.get(other, ('?', '?'))[1], index[inst][1]])
        if not link_order:
            links, back = sorted(links), sorted(back)
        assocs.append(dict(rel=ass.rel_id, src=src.kind, skeys=list(ass.source_keys), scard=s.cardinality, sphrase=t.phrase,
                           tgt=tgt.kind, tkeys=list(ass.target_keys), tcard=t.cardinality, tphrase=s.phrase,
                           links=links, links_from_target=back))
    assocs.sort(key=lambda a: (a['rel'], a['src'], a['tgt'], a['sphrase'], a['tphrase'], a['skeys']))
    return dict(classes=classes, identifiers=idents, associations=assocs, instances=insts)


def diff(a, b, path=''):
    '''First difference between two snapshots as text, or None.'''
    if type(a) != type(b):
        return '%s: %r vs %r' % (path, a, b)
    if isinstance(a, dict):
        for k in sorted(set(a) | set(b), key=str):
            if k not in a or k not in b:
                return '%s.%s: present on one side only (%r vs %r)' % (path, k, a.get(k, '<absent>'), b.get(k, '<absent>'))
            d = diff(a[k], b[k], '%s.%s' % (path, k))
            if d:
                return d
        return None
    if isinstance(a, list):
        if len(a) != len(b):
            return '%s: length %d vs %d (%r vs %r)' % (path, len(a), len(b), a[:4], b[:4])
        for i, (x, y) in enumerate(zip(a, b)):
            d = diff(x, y, '%s[%d]' % (path, i))
            if d:
                return d
        return None
    if a != b:
        return '%s: %r vs %r' % (path, a, b)
    return None


def strings(alphabet, maxlen):
    out = ['']
    for n in range(1, maxlen + 1):
        out += [''.join(p) for p in itertools.product(alphabet, repeat=n)]
    return out
