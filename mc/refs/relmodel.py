'''
Reference relational model with ordered links (DESIGN.md section 4).

Plain python: schemas as dicts/tuples, instances as records with a creation
index, per association two ordered adjacency maps that are kept mutually
consistent by construction.  Written from the documented semantics of pyxtuml
(README / docstrings / property statements), not from its control flow.
'''
import itertools


class Assoc(object):
    '''
    rel: int.  src = referring (formalising) class holding the referential
    attributes skeys, tgt = referred class holding the identifying attributes
    tkeys.  smany/scond describe the src end (how many referring instances a
    referred instance may have), tmany/tcond the tgt end.  sphrase is the phrase
    used when navigating *from* a src instance (towards tgt), tphrase the one
    used from a tgt instance.
    '''
    def __init__(self, rel, src, skeys, smany, scond, sphrase,
                 tgt, tkeys, tmany, tcond, tphrase):
        self.rel = rel
        self.src, self.skeys, self.smany, self.scond, self.sphrase = src, list(skeys), smany, scond, sphrase
        self.tgt, self.tkeys, self.tmany, self.tcond, self.tphrase = tgt, list(tkeys), tmany, tcond, tphrase

    @property
    def relid(self):
        return 'R%d' % self.rel

    @staticmethod
    def card(many, cond):
        return ('M' if many else '1') + ('C' if cond else '')

    def sql(self):
        s1 = '%s %s (%s)' % (self.card(self.smany, self.scond), self.src, ', '.join(self.skeys))
        if self.sphrase:
            s1 += " PHRASE '%s'" % self.sphrase
        s2 = '%s %s (%s)' % (self.card(self.tmany, self.tcond), self.tgt, ', '.join(self.tkeys))
        if self.tphrase:
            s2 += " PHRASE '%s'" % self.tphrase
        return 'CREATE ROP REF_ID R%d FROM %s TO %s;\n' % (self.rel, s1, s2)

    def as_json(self):
        return [self.rel, self.src, self.skeys, self.smany, self.scond, self.sphrase,
                self.tgt, self.tkeys, self.tmany, self.tcond, self.tphrase]


class Schema(object):
    def __init__(self, name, classes, assocs, uniques=()):
        '''classes: list of (kind, [(attr, type), ...]); uniques: list of (kind, name, [attrs])'''
        self.name = name
        self.classes = [(k, list(a)) for k, a in classes]
        self.assocs = list(assocs)
        self.uniques = [(k, n, list(a)) for k, n, a in uniques]

    def attrs(self, kind):
        for k, a in self.classes:
            if k.upper() == kind.upper():
                return a
        raise KeyError(kind)

    def kinds(self):
        return [k for k, _ in self.classes]

    def referentials(self, kind):
        out = []
        for a in self.assocs:
            if a.src.upper() == kind.upper():
                for k in a.skeys:
                    if k not in out:
                        out.append(k)
        return out

    def sql(self):
        s = ''
        for kind, attrs in self.classes:
            s += 'CREATE TABLE %s (%s);\n' % (kind, ', '.join('%s %s' % (n, t) for n, t in attrs))
        for a in self.assocs:
            s += a.sql()
        for kind, name, attrs in self.uniques:
            s += 'CREATE UNIQUE INDEX %s ON %s (%s);\n' % (name, kind, ', '.join(attrs))
        return s

    def rels(self):
        out = []
        for a in self.assocs:
            if a.rel not in out:
                out.append(a.rel)
        return out

    def phrases(self):
        out = ['']
        for a in self.assocs:
            for p in (a.sphrase, a.tphrase):
                if p not in out:
                    out.append(p)
        return out

    def direct(self, kind):
        '''Direct navigations from *kind*: (to_kind, rel, phrase, assoc index, table).'''
        uk = kind.upper()
        out = []
        for ai, a in enumerate(self.assocs):
            if a.src.upper() == uk:
                out.append((a.tgt, a.rel, a.sphrase, ai, 'fwd'))
            if a.tgt.upper() == uk:
                out.append((a.src, a.rel, a.tphrase, ai, 'bwd'))
        return out

    def nav_menu(self, kind):
        '''All (to_kind, rel, phrase) navigations defined from *kind*: direct
        ones and the two-hop form through an association class (a class that
        formalises two different associations carrying the same number).'''
        menu = []
        for (to, rel, ph, _, _) in self.direct(kind):
            if (to, rel, ph) not in menu:
                menu.append((to, rel, ph))
        for (mid, rel, ph, a1, t1) in self.direct(kind):
            if t1 != 'bwd':
                continue        # first hop must arrive at the formalising (association) class
            for (to, rel2, ph2, a2, t2) in self.direct(mid):
                if rel2 == rel and ph2 == ph and t2 == 'fwd' and a2 != a1 and \
                   not any(k[0].upper() == to.upper() and k[1] == rel and k[2] == ph for k in menu):
                    menu.append((to, rel, ph))
        return menu


NULLS = {'BOOLEAN': False, 'INTEGER': 0, 'REAL': 0.0, 'STRING': '', 'UNIQUE_ID': 0}


def is_null(value, ty):
    '''The null rules of the format: unset, id 0 and the empty string are null;
    integer 0, real 0.0 and False are values.'''
    if value is None:
        return True
    ty = ty.upper()
    if ty == 'UNIQUE_ID':
        return value == 0
    if ty == 'STRING':
        return value == ''
    return False


class RefInst(object):
    def __init__(self, idx, kind, values):
        self.idx = idx
        self.kind = kind
        self.values = values      # non-referential attribute values {declared name: value}
        self.alive = True


class Ref(object):
    '''Reference state for one schema.'''

    def __init__(self, schema):
        self.schema = schema
        self.insts = []
        self.order = dict((k, []) for k in schema.kinds())   # pool order per kind (live only)
        self.fwd = [dict() for _ in schema.assocs]   # referring idx -> [referred idx]
        self.bwd = [dict() for _ in schema.assocs]   # referred idx -> [referring idx]
        self.next_id = 1

    # -- creation --------------------------------------------------------
    def new(self, kind, values=None):
        kind = self._kind(kind)
        refs = self.schema.referentials(kind)
        vals = {}
        for name, ty in self.schema.attrs(kind):
            if name in refs:
                continue
            uty = ty.upper()
            if uty == 'UNIQUE_ID':
                vals[name] = self.next_id
                self.next_id += 1
            else:
                vals[name] = NULLS[uty]
        if values:
            vals.update(values)
        inst = RefInst(len(self.insts), kind, vals)
        self.insts.append(inst)
        self.order[kind].append(inst.idx)
        return inst.idx

    def load(self, rows):
        '''
        What loading defines: rows = [(kind, {attr: value})] in statement order;
        a referring row is linked to a referred row exactly when all its
        referential values are non-null and equal the identifying values.
        Links are made in model order (per association; referring rows in pool
        order, referred rows in pool order).  Referential values are dropped.
        '''
        raw = []
        for kind, values in rows:
            kind = self._kind(kind)
            refs = self.schema.referentials(kind)
            vals = {}
            for name, ty in self.schema.attrs(kind):
                v = values.get(name)
                if name not in refs:
                    vals[name] = NULLS[ty.upper()] if v is None else v
            inst = RefInst(len(self.insts), kind, vals)
            self.insts.append(inst)
            self.order[kind].append(inst.idx)
            raw.append(dict(values))
        types = dict((k.upper(), dict((n, t) for n, t in a)) for k, a in self.schema.classes)
        for ai, a in enumerate(self.schema.assocs):
            for s in self.order[self._kind(a.src)]:
                key = [raw[s].get(k) for k in a.skeys]
                if any(is_null(v, types[a.src.upper()][k]) for k, v in zip(a.skeys, key)):
                    continue
                for t in self.order[self._kind(a.tgt)]:
                    tkey = [raw[t].get(k) for k in a.tkeys]
                    if any(is_null(v, types[a.tgt.upper()][k]) for k, v in zip(a.tkeys, tkey)):
                        continue
                    if tkey == key:
                        self.force_link(ai, s, t)

    def _kind(self, kind):
        for k in self.schema.kinds():
            if k.upper() == kind.upper():
                return k
        raise KeyError(kind)

    # -- link resolution ---------------------------------------------------
    def resolve(self, k1, k2, rel, phrase):
        '''
        relate(x, y, rel, phrase) with x of kind k1 and y of kind k2: returns
        (association index, referring-is-x) or None.  x is the referring
        instance when (k1, k2) = (src, tgt) and phrase is the phrase used from
        the referring side; x is the referred one when (k1, k2) = (tgt, src)
        and phrase is the one used from the referred side.
        '''
        k1, k2 = k1.upper(), k2.upper()
        for ai, a in enumerate(self.schema.assocs):
            if a.rel != rel:
                continue
            if a.tgt.upper() == k1 and a.src.upper() == k2 and a.tphrase == phrase:
                return ai, False
            if a.src.upper() == k1 and a.tgt.upper() == k2 and a.sphrase == phrase:
                return ai, True
        return None

    def linked(self, ai, s, t):
        return t in self.fwd[ai].get(s, ())

    def relate(self, x, y, rel, phrase=''):
        if x is None or y is None:
            return 'False'
        r = self.resolve(self.insts[x].kind, self.insts[y].kind, rel, phrase)
        if r is None:
            return 'UnknownLinkException'
        ai, x_refers = r
        s, t = (x, y) if x_refers else (y, x)
        a = self.schema.assocs[ai]
        if self.linked(ai, s, t):
            return 'True'
        if (self.bwd[ai].get(t) and not a.smany) or (self.fwd[ai].get(s) and not a.tmany):
            return 'RelateException'
        self.fwd[ai].setdefault(s, []).append(t)
        self.bwd[ai].setdefault(t, []).append(s)
        return 'True'

    def unrelate(self, x, y, rel, phrase=''):
        if x is None or y is None:
            return 'False'
        r = self.resolve(self.insts[x].kind, self.insts[y].kind, rel, phrase)
        if r is None:
            return 'UnknownLinkException'
        ai, x_refers = r
        s, t = (x, y) if x_refers else (y, x)
        if not self.linked(ai, s, t):
            return 'UnrelateException'
        self._unlink(ai, s, t)
        return 'True'

    def _unlink(self, ai, s, t):
        self.fwd[ai][s].remove(t)
        if not self.fwd[ai][s]:
            del self.fwd[ai][s]
        self.bwd[ai][t].remove(s)
        if not self.bwd[ai][t]:
            del self.bwd[ai][t]

    def force_link(self, ai, s, t):
        '''Link without multiplicity check (what loading does).'''
        if not self.linked(ai, s, t):
            self.fwd[ai].setdefault(s, []).append(t)
            self.bwd[ai].setdefault(t, []).append(s)

    def delete(self, x):
        inst = self.insts[x]
        if not inst.alive:
            return 'DeleteException'
        inst.alive = False
        self.order[inst.kind].remove(x)
        for ai in range(len(self.schema.assocs)):
            for t in list(self.fwd[ai].get(x, ())):
                self._unlink(ai, x, t)
            for s in list(self.bwd[ai].get(x, ())):
                self._unlink(ai, s, x)
        return 'None'

    # -- observation ---------------------------------------------------------
    def navigate(self, x, kind, rel, phrase=''):
        '''List of instance indices reached from x, or 'UnknownLinkException'.'''
        k0 = self.insts[x].kind
        res = self._nav_direct(k0, [x], kind, rel, phrase)
        if res is not None:
            return res
        # two hops: across the association class, same number and phrase
        for (mid, rel1, ph1, _, _) in self.schema.direct(k0):
            if rel1 != rel or ph1 != phrase:
                continue
            first = self._nav_direct(k0, [x], mid, rel, phrase)
            second = self._nav_direct(mid, first, kind, rel, phrase)
            if second is not None:
                return second
        return 'UnknownLinkException'

    def _nav_direct(self, from_kind, xs, kind, rel, phrase):
        for (to, rel1, ph1, ai, table) in self.schema.direct(from_kind):
            if to.upper() != kind.upper() or rel1 != rel or ph1 != phrase:
                continue
            table = self.fwd[ai] if table == 'fwd' else self.bwd[ai]
            out = []
            for x in xs:
                for y in table.get(x, ()):
                    if y not in out:
                        out.append(y)
            return out
        return None

    def attr(self, x, name):
        '''Value read for attribute *name* (any spelling) of instance x.'''
        inst = self.insts[x]
        decl = None
        for n, _ in self.schema.attrs(inst.kind):
            if n.upper() == name.upper():
                decl = n
        if decl is None:
            raise KeyError(name)
        if decl in self.schema.referentials(inst.kind):
            # the association formalised last wins, falling back to earlier ones
            value = None
            for ai, a in enumerate(self.schema.assocs):
                if a.src.upper() != inst.kind.upper() or decl not in a.skeys:
                    continue
                ts = self.fwd[ai].get(x)
                if ts:
                    value = self.attr(ts[0], a.tkeys[a.skeys.index(decl)])
            return value
        return inst.values.get(decl)

    def observe(self):
        '''Canonical observation: pools, every defined navigation from every
        live instance, every referential attribute read.'''
        pool = dict((k, list(v)) for k, v in self.order.items())
        nav = {}
        ref = {}
        for k, idxs in self.order.items():
            menu = self.schema.nav_menu(k)
            refs = self.schema.referentials(k)
            for x in idxs:
                for (to, rel, ph) in menu:
                    nav['%d->%s[R%d%s]' % (x, to, rel, '.' + ph if ph else '')] = self.navigate(x, to, rel, ph)
                for name in refs:
                    ref['%d.%s' % (x, name)] = self.attr(x, name)
        return dict(pool=pool, nav=nav, ref=ref)

    # -- consistency counts ------------------------------------------------
    def association_violations(self, rel=None):
        n = 0
        for ai, a in enumerate(self.schema.assocs):
            if rel is not None and a.rel != rel:
                continue
            # referred side looks at its referring partners (src end multiplicity)
            for t in self.order[self._kind(a.tgt)]:
                c = len(self.bwd[ai].get(t, ()))
                if (c < 1 and not a.scond) or (c > 1 and not a.smany):
                    n += 1
            for s in self.order[self._kind(a.src)]:
                c = len(self.fwd[ai].get(s, ()))
                if (c < 1 and not a.tcond) or (c > 1 and not a.tmany):
                    n += 1
        return n


def build_real(xtuml, schema, id_generator=None, factory=None):
    '''A real metamodel for *schema* through the public definition API (what
    the loader does for CREATE TABLE / CREATE ROP / CREATE UNIQUE INDEX).'''
    m = (factory or xtuml.MetaModel)(id_generator or xtuml.IntegerGenerator())
    for kind, attrs in schema.classes:
        m.define_class(kind, list(attrs))
    for kind, name, attrs in schema.uniques:
        m.define_unique_identifier(kind, name, *attrs)
    for a in schema.assocs:
        ass = m.define_association(a.rel, a.src, list(a.skeys), a.smany, a.scond, a.sphrase,
                                   a.tgt, list(a.tkeys), a.tmany, a.tcond, a.tphrase)
        ass.formalize()
    return m


def observe_real(xtuml, m, schema, label):
    '''
    The same observation taken from a real metamodel through its public API.
    *label* maps python instance -> creation index.
    '''
    pool, nav, ref = {}, {}, {}
    for k in schema.kinds():
        insts = list(m.select_many(k))
        pool[k] = [label.get(i, '?unknown') for i in insts]
        menu = schema.nav_menu(k)
        refs = schema.referentials(k)
        for inst in insts:
            x = label.get(inst, '?unknown')
            for (to, rel, ph) in menu:
                key = '%s->%s[R%d%s]' % (x, to, rel, '.' + ph if ph else '')
                try:
                    res = xtuml.navigate_many(inst).nav(to, rel, ph)()
                    nav[key] = [label.get(i, '?unknown') for i in itertools.islice(iter(res), 64)]
                except xtuml.UnknownLinkException:
                    nav[key] = 'UnknownLinkException'
            for name in refs:
                ref['%s.%s' % (x, name)] = getattr(inst, name)
    return dict(pool=pool, nav=nav, ref=ref)


def diff_obs(exp, got):
    '''First difference between two observations, as text (or None).'''
    for part in ('pool', 'nav', 'ref'):
        e, g = exp[part], got[part]
        for k in sorted(set(e) | set(g), key=str):
            if e.get(k, '<absent>') != g.get(k, '<absent>'):
                return '%s[%s]: expected %r, observed %r' % (part, k, e.get(k, '<absent>'), g.get(k, '<absent>'))
    return None


def check_symmetry(schema, obs):
    '''Invariant (1)/(2) evaluated on an observation alone (no reference needed):
    y in nav(x) <=> x in nav^-1(y); everything reachable is live.'''
    live = set()
    kind_of = {}
    for k, idxs in obs['pool'].items():
        for i in idxs:
            live.add(i)
            kind_of[i] = k
    problems = []
    direct = {}
    for a in schema.assocs:
        direct[(a.src.upper(), a.tgt.upper(), a.rel, a.sphrase)] = (a.tgt.upper(), a.src.upper(), a.rel, a.tphrase)
        direct[(a.tgt.upper(), a.src.upper(), a.rel, a.tphrase)] = (a.src.upper(), a.tgt.upper(), a.rel, a.sphrase)
    for key, res in obs['nav'].items():
        if not isinstance(res, list):
            continue
        x, rest = key.split('->', 1)
        x = int(x) if x.isdigit() else x
        to, br = rest.split('[R', 1)
        br = br[:-1]
        rel, _, ph = br.partition('.')
        rel = int(rel)
        for y in res:
            if y not in live:
                problems.append('dead-reachable: %s reaches %r which is not in its class pool' % (key, y))
        fk = kind_of.get(x, '').upper()
        inv = direct.get((fk, to.upper(), rel, ph))
        if inv is None:
            continue   # two-hop navigation; symmetry is implied by the direct links
        for y in res:
            back = '%s->%s[R%d%s]' % (y, kind_of.get(x), inv[2], '.' + inv[3] if inv[3] else '')
            bres = obs['nav'].get(back)
            if isinstance(bres, list) and x not in bres:
                problems.append('asymmetric: %s reaches %r but %s gives %r' % (key, y, back, bres))
    return problems


def selftest():
    a = Assoc(1, 'B', ['A_Id'], True, True, '', 'A', ['Id'], False, False, '')
    s = Schema('t', [('A', [('Id', 'unique_id')]), ('B', [('Id', 'unique_id'), ('A_Id', 'unique_id')])], [a])
    r = Ref(s)
    a0, b0, b1 = r.new('A'), r.new('B'), r.new('B')
    assert r.insts[a0].values == {'Id': 1} and r.insts[b1].values == {'Id': 3}
    assert r.relate(b0, a0, 1) == 'True' and r.relate(a0, b1, 1) == 'True'
    assert r.relate(b0, a0, 1) == 'True'
    assert r.navigate(a0, 'B', 1) == [b0, b1] and r.navigate(b1, 'A', 1) == [a0]
    assert r.attr(b0, 'a_id') == 1
    a1 = r.new('A')
    assert r.relate(b0, a1, 1) == 'RelateException'
    assert r.relate(b0, a1, 2) == 'UnknownLinkException'
    assert r.relate(b0, a1, 1, 'x') == 'UnknownLinkException'
    assert r.unrelate(b0, a1, 1) == 'UnrelateException'
    assert r.association_violations() == 0
    assert r.delete(a0) == 'None' and r.delete(a0) == 'DeleteException'
    assert r.navigate(b0, 'A', 1) == [] and r.attr(b0, 'A_Id') is None
    assert r.association_violations() == 2
    # reflexive
    ra = Assoc(2, 'N', ['Next_Id'], False, True, 'prev', 'N', ['Id'], False, True, 'next')
    s2 = Schema('r', [('N', [('Id', 'unique_id'), ('Next_Id', 'unique_id')])], [ra])
    r2 = Ref(s2)
    n0, n1 = r2.new('N'), r2.new('N')
    assert r2.relate(n0, n1, 2, 'prev') == 'True'       # n0 refers to n1
    assert r2.attr(n0, 'Next_Id') == 2 and r2.navigate(n0, 'N', 2, 'prev') == [n1]
    assert r2.navigate(n1, 'N', 2, 'next') == [n0] and r2.navigate(n1, 'N', 2, 'prev') == []
    assert check_symmetry(s2, r2.observe()) == []
