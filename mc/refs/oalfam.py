'''
Families of OAL programs and layouts shared by C07, C13 and C08, and the
production-coverage instrumentation of the real parser.
'''
import itertools

from mc.refs import oalast as A

V = lambda n: ('var', n)
I = lambda n: ('int', str(n))

LEAVES_2 = [V('a'), I(1)]

LEAVES_ALL = [
    I(0), I(12), ('real', '1.5'), ('real', '.5'), ('real', '2.'), ('real', '1e3'), ('real', '1e-3'), ('real', '2.E+4'),
    ('real', '1.5f'), ('real', '.5L'), ('real', '2.F'), ('real', '1e3l'),            # suffixed forms the lexer takes as one token
    ('str', ''), ('str', 'a b'), ('str', "it's /* no */ -- // x"), ('bool', 'true'), ('bool', 'false'),
    ('str', 'C:\\users\\x1\\'), ('str', '\\N{no} \\U99999999 %s {0} \\'),      # backslashes are ordinary characters in OAL strings
    V('x'), V('select_'), V('any'),        # 'any' is a keyword usable as a variable name
    ('field', V('a'), 'b'), ('field', ('field', V('a'), 'b'), 'c'), ('field', ('self',), 'x'), ('field', ('selected',), 'x'),
    ('param', 'p'), ('field', ('param', 'p'), 'f'), ('rcvd', 'q'), ('self',), ('selected',),
    ('index', V('a'), I(1)), ('index', ('index', V('a'), I(1)), V('i')), ('field', ('index', V('a'), V('i')), 'f'),
    ('index', ('field', V('a'), 'f'), I(0)), ('index', ('param', 'p'), I(0)),
    ('enum', 'Color', 'Red'), ('enum', 'NS', 'true'),
    ('fcall', 'f', []), ('fcall', 'f', [('a', I(1))]), ('fcall', 'f', [('a', I(1)), ('b', V('x'))]),
    ('ncall', 'NS', 'g', [('p', I(1))]), ('ncall', 'EE', 'b', []),
    ('icall', V('x'), 'op', []), ('icall', ('self',), 'op', [('q', I(2)), ('r', ('str', 's'))]),
    ('icall', ('selected',), 'op', []),
]


def expression_family(tier):
    '''(family name, expression) pairs.'''
    out = []
    for e in A.expr_trees(3, A.BINARY_OPS, A.UNARY_OPS, LEAVES_2):
        out.append(('expr3', e))
    for e in A.expr_trees(2, A.BINARY_OPS, A.UNARY_OPS, LEAVES_ALL):
        out.append(('leaves2', e))
    # a binary operand may itself be an argument, an index or a where-free sub-term
    for e in A.expr_trees(2, ['+', 'and', '<'], ['not', '-'], LEAVES_2):
        out.append(('nested', ('fcall', 'f', [('a', e), ('b', e)])))
        out.append(('nested', ('index', V('a'), e)))
        out.append(('nested', ('bin', '*', ('icall', V('x'), 'op', [('q', e)]), e)))
    if tier == 'thorough':
        reps = ['or', 'and', '==', '<', '+', '|', '*', '&', '%']
        for e in A.expr_trees(4, reps, ['not', '-'], [V('a')]):
            if A.count_nodes(e) <= 9:
                out.append(('expr4', e))
    return out



# identifiers are free: a name spelled like a token of the grammar that is not a keyword (number, string, comma, id, ...),
# or made of a keyword and more letters, is a plain name in every position a name can stand in
NAME_EXTRAS = ['iff', 'ending', 'end', 'end_if', 'endif', 'selfish', 'selected_', 'not_', 'r1', 'R2x', 'to_', 'empty_',
               'orx', 'andy', 'true_', 'falsey', 'param_', 'rcvd', 'elsif', 'anyone', 'one1', 'by_', '_if', 'object',
               'integer', 'real', 'boolean', 'unique_id', 'inst_ref', 'instance', 'event', 'void', 'operation', 'function']


def token_like_names(tier='thorough'):
    from bridgepoint import oal
    kw = set(oal.OALParser.keywords)
    names = [t for t in oal.OALParser.tokens if t not in kw]
    out = []
    for n in names:
        for form in ((n.lower(), n, n.capitalize()) if tier == 'thorough' else (n.lower(), n.capitalize())):
            if form not in out:
                out.append(form)
    return out + NAME_EXTRAS


def names_family(tier='thorough'):
    out = []
    for n in token_like_names(tier):
        leaves = [V(n), ('field', V('a'), n), ('field', V(n), n), ('param', n), ('field', ('param', 'p'), n), ('rcvd', n),
                  ('field', ('self',), n), ('index', V(n), I(1)), ('fcall', n, []), ('fcall', 'f', [(n, I(1)), ('b', V(n))]),
                  ('ncall', 'NS', n, [(n, I(1))]), ('ncall', n, 'g', []), ('icall', V(n), n, [(n, V(n))]),
                  ('enum', 'Color', n), ('enum', n, 'Red')]
        for l in leaves:
            out.append(('names', ('bin', '+', l, I(1))))
            out.append(('names', ('un', 'not', l)))
    return out

def with_groups(e):
    '''e with one redundant pair of parentheses around each sub-expression in turn.'''
    out = [('grp', e)]
    if e[0] == 'bin':
        for g in with_groups(e[2]):
            out.append(('bin', e[1], g, e[3]))
        for g in with_groups(e[3]):
            out.append(('bin', e[1], e[2], g))
    elif e[0] == 'un':
        for g in with_groups(e[2]):
            out.append(('un', e[1], g))
    return out


def group_family():
    out = []
    for e in A.expr_trees(3, ['+', '*', '<', 'and', '%'], ['not', '-'], [V('a')]):
        if e[0] in ('bin', 'un'):
            for g in with_groups(e):
                out.append(('groups', g))
    return out


# ---------------------------------------------------------------------------
# statements: every production, every optional word
# ---------------------------------------------------------------------------

T = lambda s: ('t', s)
ID = lambda s: ('i', s)


def statement_family():
    '''List of (name, [statements]) programs that together use every statement
    production of the grammar with every combination of its optional words.'''
    e = ('bin', '+', V('a'), I(1))
    c = ('bin', '<', V('i'), I(3))
    S = []

    def add(name, *stmts):
        S.append((name, list(stmts)))
    add('break', ('break',))
    add('continue', ('continue',))
    add('stop', ('stop',))
    add('return_value', ('return', e))
    add('return_bare', ('return', None))
    add('return_call', ('return', ('fcall', 'f', [])))
    for explicit in (False, True):
        add('assign_var', ('assign', V('x'), e, explicit))
        add('assign_field', ('assign', ('field', V('x'), 'a'), e, explicit))
        add('assign_self_field', ('assign', ('field', ('self',), 'a'), I(1), explicit))
        add('assign_index', ('assign', ('index', V('x'), I(1)), e, explicit))
        add('assign_index2', ('assign', ('index', ('index', V('x'), I(1)), V('j')), e, explicit))
        add('assign_field_index', ('assign', ('field', ('index', V('x'), I(0)), 'f'), e, explicit))
        add('assign_param', ('assign', ('param', 'p'), e, explicit))
        add('assign_from_call', ('assign', V('x'), ('ncall', 'EE', 'b', [('p', I(1))]), explicit))
        add('assign_from_op', ('assign', V('x'), ('icall', V('y'), 'op', []), explicit))
    add('call_function', ('call', None, ('fcall', 'f', [('a', I(1)), ('b', I(2))])))
    add('call_function_noargs', ('call', None, ('fcall', 'f', [])))
    add('call_implicit', ('call', None, ('ncall', 'NS', 'g', [('a', I(1))])))
    add('call_instance', ('call', None, ('icall', V('x'), 'op', [('a', I(1))])))
    add('call_self', ('call', None, ('icall', ('self',), 'op', [])))
    add('bridge_call', ('call', 'bridge', ('ncall', 'EE', 'b', [('p', I(1))])))
    add('bridge_assign', ('callassign', 'bridge', V('v'), ('ncall', 'EE', 'b', [])))
    add('transform_instance', ('call', 'transform', ('icall', V('x'), 'op', [])))
    add('transform_instance_assign', ('callassign', 'transform', V('v'), ('icall', V('x'), 'op', [('q', I(1))])))
    add('transform_class', ('call', 'transform', ('ncall', 'K', 'cop', [])))
    add('transform_class_assign', ('callassign', 'transform', ('field', V('v'), 'f'), ('ncall', 'K', 'cop', [('a', e)])))
    add('send_call', ('call', 'send', ('ncall', 'Port', 'msg', [('a', I(1))])))
    add('send_assign', ('callassign', 'send', V('v'), ('ncall', 'Port', 'msg', [])))
    add('port_event', ('portevent', 'Port', 'sig', [('a', I(1))], V('x')))
    add('port_event_noargs', ('portevent', 'Port', 'sig', [], ('field', V('x'), 'y')))
    specs = [('E1', False, None, None), ('E1', False, T('go on'), None), ('E1', False, ID('go'), None),
             ('E1', True, None, None), ('E1', True, T('go'), [('a', I(1))]),
             ('E1', False, None, []), ('E1', False, T('x'), [('a', I(1)), ('b', e)]), ('E1', False, None, [('a', e)])]
    for n, sp in enumerate(specs):
        for tgt in (('class', 'K'), ('assigner', 'K'), ('creator', 'K'), ('inst', V('x')), ('inst', ('self',)),
                    ('inst', ('field', V('x'), 'y'))):
            add('generate_%d_%s' % (n, tgt[0]), ('gen', sp, tgt))
            add('create_event_%d_%s' % (n, tgt[0]), ('createev', 'ev', sp, tgt))
    add('generate_preexisting', ('genpre', V('ev')))
    add('generate_preexisting_field', ('genpre', ('field', V('x'), 'ev')))
    add('create', ('create', 'x', 'K'))
    add('create_novar', ('create', None, 'K'))
    add('delete', ('delete', 'x'))
    add('delete_self', ('delete', 'self'))
    body = [('assign', V('i'), ('bin', '+', V('i'), I(1)), False)]
    for loop in (False, True):
        add('foreach', ('foreach', 'v', 'vs', body, loop))
        add('foreach_empty', ('foreach', 'v', 'vs', [], loop))
        add('while', ('while', c, body, loop))
        add('while_empty', ('while', c, [], loop))
        add('while_nested', ('while', c, [('foreach', 'v', 'vs', body + [('break',)], not loop), ('continue',)], loop))
    for t0, t1, t2 in itertools.product((False, True), repeat=3):
        add('if', ('if', c, body, [], None, [t0]))
        add('if_else', ('if', c, body, [], body, [t0]))
        add('if_elif', ('if', c, body, [(c, body)], None, [t0, t1]))
        add('if_elif_elif_else', ('if', c, body, [(c, body), (('bool', 'true'), [])], [('return', None)], [t0, t1, t2]))
        add('if_nested', ('if', c, [('if', c, body, [], body, [t1])], [(c, [('while', c, body, t2)])], [], [t0, t1]))
    # blocks that begin with a function invocation '::f()' right after a condition / set that ends in a name or a number
    callf = ('call', None, ('fcall', 'f', [('a', I(1))]))
    cn = ('bin', '<', V('i'), V('n'))
    for t0 in (False, True):
        add('if_then_call', ('if', cn, [callf] + body, [(c, [callf])], [callf], [t0, t0]))
        add('if_name_call', ('if', V('more'), [callf], [(V('less'), [callf, ('break',)])], None, [t0, t0]))
        add('while_call', ('while', V('more'), [callf] + body, t0))
        add('while_number_call', ('while', c, [callf], t0))
        add('foreach_call', ('foreach', 'v', 'vs', [callf, ('continue',)], t0))
        add('if_unary_call', ('if', ('un', 'not_empty', ('field', ('self',), 'other')), [callf], [], None, [t0]))
    for k in ('relate', 'unrelate'):
        for ph in (None, T('is a'), ID('prev')):
            for using in (None, 'c'):
                add(k, (k, 'a', 'b', 'R1', ph, using))
                add(k + '_self', (k, 'self', 'b', 'R12', ph, using))
                add(k + '_to_self', (k, 'a', 'self', 'R1', ph, using))
    # a relationship id is any identifier to the grammar (R1, but also Rel, r2, R1b, R_1 ...); surrounded by other
    # statements so that a statement lost in the parser's error recovery shows
    for k in ('relate', 'unrelate'):
        for rid in ('Rel', 'r2', 'R1b', 'R_1', 'R'):
            add(k + '_relname', ('assign', V('x'), I(1), False), (k, 'a', 'b', rid, None, None), ('assign', V('y'), I(2), False))
        add(k + '_relname_phrase_using', ('assign', V('x'), I(1), False), (k, 'a', 'b', 'Assoc7', T('is a'), 'c'),
            ('assign', V('y'), I(2), False))
    add('select_related_relname', ('assign', V('x'), I(1), False), ('selrel', 'many', 'xs', V('h'), [('K', 'Rel', None), ('B', 'r3', ID('next'))], None),
        ('assign', V('y'), I(2), False))
    w = ('bin', '==', ('field', ('selected',), 'Id'), I(1))
    for card in ('any', 'many'):
        for inst_of in (True, False):
            add('select_from', ('selfrom', card, 'x', 'K', None, inst_of))
            add('select_from_where', ('selfrom', card, 'x', 'K', w, inst_of))
    chains = [[('K', 'R1', None)], [('K', 'R1', T('prev'))], [('K', 'R1', ID('next'))],
              [('C', 'R3', None), ('B', 'R3', None)], [('C', 'R3', T('one')), ('A', 'R3', T('one')), ('K', 'R1', None)]]
    for card in ('one', 'any', 'many'):
        for ch in chains:
            for hook in (V('h'), ('self',), ('field', V('h'), 'f')):
                add('select_related', ('selrel', card, 'x', hook, ch, None))
                add('select_related_where', ('selrel', card, 'x', hook, ch, w))
    add('empty_statements', ('empty',), ('assign', V('x'), I(1), False), ('empty',), ('empty',), ('break',))
    add('sequence', ('create', 'x', 'K'), ('assign', ('field', V('x'), 'a'), e, False),
        ('selfrom', 'many', 'xs', 'K', None, True), ('foreach', 'y', 'xs', [('delete', 'y')], True), ('return', V('x')))
    add('keywords_as_names', ('assign', V('select'), ('bin', '+', V('many'), V('one')), False),
        ('create', 'any', 'class'), ('assign', ('field', V('to'), 'from'), V('across'), False),
        ('assign', ('field', V('x'), 'self'), ('field', V('y'), 'and'), False), ('create', 'v', 'while'),
        ('call', None, ('fcall', 'if', [('else', I(1)), ('param', I(2)), ('not', I(3))])),
        ('assign', V('x'), ('enum', 'NS', 'return'), False), ('assign', ('field', V('x'), 'selected'), ('field', V('x'), 'cardinality'), False))
    # invocations that are directly the value of an argument of a bridge / transform / send statement (with and without
    # assignment): the keyword names the invocation that IS the statement, an argument stays the operand it is everywhere
    # else -- an implicit invocation, an instance invocation, a function invocation; also parenthesised, as an operand of
    # an operator, and as an argument of an argument.  A keyword-less assignment takes the same arguments.
    g = ('ncall', 'NS', 'g', [])
    args = [('a', g), ('b', ('icall', V('y'), 'op', [('s', g)])), ('c', ('fcall', 'f', [])),
            ('d', ('grp', ('ncall', 'ARCH', 'h', [('p', g)]))), ('e', ('bin', '+', g, I(1)))]
    for kw, nm, mk in (('bridge', 'bridge', lambda ps: ('ncall', 'EE', 'b', ps)),
                       ('transform', 'transform_class', lambda ps: ('ncall', 'K', 'cop', ps)),
                       ('transform', 'transform_instance', lambda ps: ('icall', V('x'), 'op', ps)),
                       ('send', 'send', lambda ps: ('ncall', 'Port', 'msg', ps))):
        add(nm + '_call_invocation_args', ('call', kw, mk(args)))
        add(nm + '_assign_invocation_args', ('callassign', kw, V('v'), mk(args)))
    add('implicit_assign_invocation_args', ('assign', V('v'), ('ncall', 'NS', 'g', args), False))
    return S


def trailing_comma_family():
    '''(name, [statements]) programs whose parameter lists / event data lists end with the comma the grammar allows after
    the last item ("::f(a: 1, )"): another spelling of the same list.  Each production that holds such a list occurs with
    one and with two items, alone, next to the same invocation written with an empty "()" (before and after it), and
    nested in an argument.'''
    e = ('bin', '+', V('a'), I(1))
    TC = A.TRAILING_COMMA
    one = [('a', I(1)), TC]
    two = [('a', I(1)), ('b', e), TC]
    S = []

    def add(name, *stmts):
        S.append(('tc_' + name, list(stmts)))
    forms = []       # (name, statement with the list, the same statement with an empty list)
    for nm, args in (('1', one), ('2', two)):
        forms += [
            ('function' + nm, ('call', None, ('fcall', 'f', args)), ('call', None, ('fcall', 'f', []))),
            ('implicit' + nm, ('call', None, ('ncall', 'NS', 'g', args)), ('call', None, ('ncall', 'NS', 'g', []))),
            ('instance' + nm, ('call', None, ('icall', V('x'), 'op', args)), ('call', None, ('icall', ('self',), 'op', []))),
            ('bridge' + nm, ('call', 'bridge', ('ncall', 'EE', 'b', args)), ('callassign', 'bridge', V('v'), ('ncall', 'EE', 'b', []))),
            ('transform' + nm, ('callassign', 'transform', V('v'), ('icall', V('x'), 'op', args)), ('call', 'transform', ('ncall', 'K', 'cop', []))),
            ('transform_class' + nm, ('call', 'transform', ('ncall', 'K', 'cop', args)), ('call', 'transform', ('icall', V('x'), 'op', []))),
            ('send' + nm, ('call', 'send', ('ncall', 'Port', 'msg', args)), ('callassign', 'send', V('v'), ('ncall', 'Port', 'msg', []))),
            ('port_event' + nm, ('portevent', 'Port', 'sig', args, V('x')), ('portevent', 'Port', 'sig', [], V('x'))),
            ('operand' + nm, ('assign', V('r'), ('bin', '*', ('fcall', 'f', args), ('icall', V('x'), 'op', args)), False),
             ('assign', V('r'), ('bin', '*', ('fcall', 'f', []), ('icall', V('x'), 'op', [])), False)),
            ('generate' + nm, ('gen', ('E1', False, None, args), ('inst', V('x'))), ('gen', ('E1', False, None, []), ('inst', V('x')))),
            ('generate_class' + nm, ('gen', ('E1', True, T('go'), args), ('class', 'K')), ('gen', ('E1', False, None, []), ('creator', 'K'))),
            ('create_event' + nm, ('createev', 'ev', ('E1', False, None, args), ('inst', ('self',))),
             ('createev', 'ev', ('E1', False, None, []), ('inst', ('self',)))),
        ]
    for nm, full, empty in forms:
        add(nm, full)
        if nm.endswith('1'):
            add(nm + '_then_empty', full, empty)
        else:
            add(nm + '_after_empty', empty, full)
    add('nested', ('call', None, ('fcall', 'f', [('a', ('fcall', 'g', one)), ('b', ('fcall', 'h', [])), TC])))
    add('nested_index', ('assign', V('r'), ('index', V('a'), ('icall', V('x'), 'op', two)), False), ('return', ('fcall', 'f', [])))
    add('in_blocks', ('if', ('fcall', 'f', one), [('call', None, ('fcall', 'f', []))], [], [('call', None, ('fcall', 'f', two))], [False]),
        ('while', ('fcall', 'f', []), [('gen', ('E2', False, None, two), ('inst', V('x')))], False),
        ('gen', ('E2', False, None, []), ('inst', V('x'))))
    return S


# ---------------------------------------------------------------------------
# layouts
# ---------------------------------------------------------------------------

# the last two: a lone carriage return is blank space and starts no line; comments may hold any character, among them the
# other characters str.splitlines() treats as line boundaries (FF, VT, FS, NEL, LS) -- lines are counted in '\n' only
GAP_ALTERNATIVES = ['', '  ', '\t', '\n', ' /* c */ ', ' // c\n', '\r\n', '\n\n/* a\n b **/\n',
                    ' \r ', '\n /*\x0c\x0b\x1c\x85\u2028*/ //\x0c\u2029\r c\n ']
INNER_ALTERNATIVES = ['  ', '\t', '\n', ' \n ', '\r\n']


def layouts(printed, pairs=False):
    '''Default layout, every single-gap deviation, every uniform layout
    (and all pairs of deviations when asked).  Yields (description, Layout).'''
    n = len(printed.toks)
    yield ('default', A.Layout())
    for alt in GAP_ALTERNATIVES:
        yield (['uniform', alt], A.Layout(default=alt))
        yield (['lead', alt], A.Layout(lead=alt))
        yield (['trail', alt], A.Layout(trail=alt))
    yield (['trail', ' // last line, no line break'], A.Layout(trail=' // last line, no line break'))
    yield (['trail', '\n// c'], A.Layout(trail='\n// c'))
    for i in range(1, n):
        for alt in GAP_ALTERNATIVES:
            yield (['gap', i, alt], A.Layout(gaps={i: alt}))
    for i, t in enumerate(printed.toks):
        if t.inner:
            for alt in INNER_ALTERNATIVES:
                yield (['inner', i, alt], A.Layout(inner={i: alt}))
                yield (['inner+uniform', i, alt], A.Layout(default='\n', inner={i: alt}))
    if pairs and n <= 14:
        for i in range(1, n):
            for j in range(i + 1, n):
                for a in GAP_ALTERNATIVES[:6]:
                    for b in GAP_ALTERNATIVES[:6]:
                        yield (['gaps', i, a, j, b], A.Layout(gaps={i: a, j: b}))


def layout_from(desc):
    if desc == 'default' or desc is None:
        return A.Layout()
    k = desc[0]
    if k == 'uniform':
        return A.Layout(default=desc[1])
    if k == 'lead':
        return A.Layout(lead=desc[1])
    if k == 'trail':
        return A.Layout(trail=desc[1])
    if k == 'gap':
        return A.Layout(gaps={desc[1]: desc[2]})
    if k == 'inner':
        return A.Layout(inner={desc[1]: desc[2]})
    if k == 'inner+uniform':
        return A.Layout(default='\n', inner={desc[1]: desc[2]})
    if k == 'gaps':
        return A.Layout(gaps={desc[1]: desc[2], desc[3]: desc[4]})
    raise ValueError(desc)


# ---------------------------------------------------------------------------
# production coverage of the real parser
# ---------------------------------------------------------------------------

_hits = None


def instrument_parser():
    '''Wrap every p_* method of the real OALParser so that its use is recorded.
    Must run before the first parse of the process that should be measured.'''
    global _hits
    if _hits is not None:
        return _hits
    import functools
    from bridgepoint import oal
    _hits = set()
    for name in dir(oal.OALParser):
        if not name.startswith('p_') or name == 'p_error':
            continue
        fn = getattr(oal.OALParser, name)

        def mk(fn, name):
            @functools.wraps(fn)
            def wrapper(self, p):
                _hits.add(name)
                return fn(self, p)
            return wrapper
        setattr(oal.OALParser, name, mk(fn, name))
    return _hits


def production_names():
    from bridgepoint import oal
    return sorted(n for n in dir(oal.OALParser) if n.startswith('p_') and n != 'p_error')
