'''Association shapes shared by the relational checks (C02, C09, C11, C03).'''
from mc.refs.relmodel import Assoc, Schema

ID = ('Id', 'unique_id')


def shapes(extra_attrs=()):
    '''
    The eight association shapes of DESIGN.md C02.  extra_attrs: additional
    plain attributes appended to every class (C09 uses this).
    '''
    x = list(extra_attrs)

    def cls(kind, *attrs):
        return (kind, [ID] + list(attrs) + x)

    def ident(*kinds):
        return [(k, 'I1', ['Id']) for k in kinds]

    out = []
    # (a) 1C:1C
    out.append(Schema('a_1c_1c',
                      [cls('A'), cls('B', ('A_Id', 'unique_id'))],
                      [Assoc(1, 'B', ['A_Id'], False, True, '', 'A', ['Id'], False, True, '')],
                      ident('A', 'B')))
    # (b) A 1 : B MC
    out.append(Schema('b_1_mc',
                      [cls('A'), cls('B', ('A_Id', 'unique_id'))],
                      [Assoc(1, 'B', ['A_Id'], True, True, '', 'A', ['Id'], False, False, '')],
                      ident('A', 'B')))
    # (c) formalised on the other side: referring end single, referred end many
    out.append(Schema('c_mc_1c_other_side',
                      [cls('A', ('B_Id', 'unique_id')), cls('B')],
                      [Assoc(1, 'A', ['B_Id'], False, True, '', 'B', ['Id'], True, True, '')],
                      ident('A', 'B')))
    # (d) M:M unconditional
    out.append(Schema('d_m_m',
                      [cls('A'), cls('B', ('A_Id', 'unique_id'))],
                      [Assoc(1, 'B', ['A_Id'], True, False, '', 'A', ['Id'], True, False, '')],
                      ident('A', 'B')))
    # (e) reflexive 1C:1C with phrases
    out.append(Schema('e_reflexive_1c_1c',
                      [cls('A', ('Next_Id', 'unique_id'))],
                      [Assoc(2, 'A', ['Next_Id'], False, True, 'prev', 'A', ['Id'], False, True, 'next')],
                      ident('A')))
    # (f) reflexive 1:MC with phrases
    out.append(Schema('f_reflexive_1_mc',
                      [cls('A', ('Parent_Id', 'unique_id'))],
                      [Assoc(2, 'A', ['Parent_Id'], True, True, 'child', 'A', ['Id'], False, False, 'parent')],
                      ident('A')))
    # (g) association class between A and B: two associations with one number
    out.append(Schema('g_assoc_class',
                      [cls('A'), cls('B'), cls('C', ('A_Id', 'unique_id'), ('B_Id', 'unique_id'))],
                      [Assoc(3, 'C', ['A_Id'], True, True, '', 'A', ['Id'], False, False, ''),
                       Assoc(3, 'C', ['B_Id'], True, True, '', 'B', ['Id'], False, False, '')],
                      ident('A', 'B', 'C')))
    # (g') reflexive association class with phrases (the shape of tests/test_xtuml/test_phrase.py)
    out.append(Schema('g2_reflexive_assoc_class',
                      [cls('A'), cls('C', ('One_Id', 'unique_id'), ('Other_Id', 'unique_id'))],
                      [Assoc(3, 'C', ['One_Id'], True, True, 'one', 'A', ['Id'], False, False, 'other'),
                       Assoc(3, 'C', ['Other_Id'], True, True, 'other', 'A', ['Id'], False, False, 'one')],
                      ident('A', 'C')))
    # (h) sub/super sharing the identifier
    out.append(Schema('h_subsuper',
                      [cls('P'), ('S1', [ID] + x), ('S2', [ID] + x)],
                      [Assoc(4, 'S1', ['Id'], False, True, '', 'P', ['Id'], False, False, ''),
                       Assoc(4, 'S2', ['Id'], False, True, '', 'P', ['Id'], False, False, '')],
                      ident('P', 'S1', 'S2')))
    return out


def extra_shapes(extra_attrs=()):
    '''Shapes used by single checks only (not part of shapes(), whose users enumerate all of it).'''
    x = list(extra_attrs)
    out = []
    # (i) one class referring to two classes across two associations with single-valued ends (C02: creation calls whose
    #     first implied relate is admissible and whose second is not)
    out.append(Schema('i_two_single_refs',
                      [('A', [ID] + x), ('B', [ID] + x), ('C', [ID, ('A_Id', 'unique_id'), ('B_Id', 'unique_id')] + x)],
                      [Assoc(1, 'C', ['A_Id'], False, True, '', 'A', ['Id'], False, True, ''),
                       Assoc(2, 'C', ['B_Id'], False, True, '', 'B', ['Id'], False, True, '')],
                      [(k, 'I1', ['Id']) for k in ('A', 'B', 'C')]))
    # (j) an association formalised over a compound identifier (two key pairs holding different values)
    out.append(Schema('j_compound_key',
                      [('A', [ID, ('Alt', 'unique_id')] + x), ('B', [ID, ('A_Id', 'unique_id'), ('A_Alt', 'unique_id')] + x)],
                      [Assoc(1, 'B', ['A_Id', 'A_Alt'], True, True, '', 'A', ['Id', 'Alt'], False, True, '')],
                      [('A', 'I1', ['Id', 'Alt']), ('B', 'I1', ['Id'])]))
    # (l) one referential attribute formalising two associations (to different classes)
    out.append(Schema('l_shared_referential',
                      [('A', [ID] + x), ('C', [ID] + x), ('B', [ID, ('X', 'unique_id')] + x)],
                      [Assoc(1, 'B', ['X'], True, True, '', 'A', ['Id'], False, True, ''),
                       Assoc(2, 'B', ['X'], True, True, '', 'C', ['Id'], False, True, '')],
                      [(k, 'I1', ['Id']) for k in ('A', 'B', 'C')]))
    # (m) the same with integer identifiers: every instance created without values carries the identifier 0, a value that is
    #     falsy in python and yet the value a linked referential attribute must read (round 8, C02-15)
    IDI = ('Id', 'integer')
    out.append(Schema('m_shared_referential_int',
                      [('A', [IDI] + x), ('C', [IDI] + x), ('B', [IDI, ('X', 'integer')] + x)],
                      [Assoc(1, 'B', ['X'], True, True, '', 'A', ['Id'], False, True, ''),
                       Assoc(2, 'B', ['X'], True, True, '', 'C', ['Id'], False, True, '')],
                      [(k, 'I1', ['Id']) for k in ('A', 'B', 'C')]))
    # (e0) reflexive 1C:1C whose two ends carry the same (empty) phrase: loadable and checkable (C11), although the two ends
    #      cannot be told apart when navigating (round 8, C11-15)
    out.append(Schema('e0_reflexive_unphrased',
                      [('A', [ID, ('Next_Id', 'unique_id')] + x)],
                      [Assoc(2, 'A', ['Next_Id'], False, True, '', 'A', ['Id'], False, True, '')],
                      [('A', 'I1', ['Id'])]))
    # (k) 1:1 unconditional on both sides (C11: a rejected relate must not hide the missing partner of the other instance)
    out.append(Schema('k_1_1',
                      [('A', [ID] + x), ('B', [ID, ('A_Id', 'unique_id')] + x)],
                      [Assoc(1, 'B', ['A_Id'], False, False, '', 'A', ['Id'], False, False, '')],
                      [(k, 'I1', ['Id']) for k in ('A', 'B')]))
    return out


def by_name(name, extra_attrs=()):
    for s in shapes(extra_attrs) + extra_shapes(extra_attrs):
        if s.name == name:
            return s
    raise KeyError(name)
