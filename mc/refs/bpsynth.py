'''
bpsynth -- abstract class diagrams and their BridgePoint (ooaofooa) rows.

Reference model shared by C14 (component extraction) and C20 (XSD generation).
Everything here is plain python over lists, dicts and small record objects and
is written from the BridgePoint metamodel (ids and referential columns of the
ooaofooa tables), not from the control flow of bridgepoint/ooaofooa.py:

* a *model* is a list of Row(table, raw SQL value tokens) in file order; it is
  read from a .xtuml file by an own tokenizer and rendered back to text in the
  same layout; rows coming from the predefined globals are flagged and never
  rendered (the ooaofooa loader adds them itself);
* extract(tables) walks the rows by comparing id columns and yields a Diagram:
  containers (packages, components), data types (core / enumeration / user),
  classes (ordered attributes, identifiers, derived flags) and relationships
  (simple, linked, sub/super with their ends and referential/identifying
  attribute pairs);
* expected_schema / expected_xsd compute from a Diagram what C14 / C20 must
  observe;
* Edit applies one edit operation to the rows AND, independently, to the
  Diagram (the two are compared after every edit: extract(rows) == diagram);
* Builder / rows(diagram) synthesise complete BridgePoint rows for diagrams made
  from scratch the way tests/resources/Simple_Model.xtuml writes them.
'''
import copy
import itertools
import re
import uuid


class Unsupported(Exception):
    '''The rows use a construct the abstract diagram cannot express.'''


# ---------------------------------------------------------------------------
# rows and model text
# ---------------------------------------------------------------------------

_TOK = re.compile(r'''(\s+|--[^\n]*)|("[^"]*"|'(?:[^']|'')*'|[-+]?\d+\.\d+|[-+]?\d+|[A-Za-z_][A-Za-z_0-9]*|[(),;])''')

_COLUMNS = {}


def columns():
    '''{table: [(column, TYPE), ...]} of the ooaofooa schema (own regex over bridgepoint.schema.classes).'''
    if not _COLUMNS:
        from bridgepoint import schema
        for m in re.finditer(r'CREATE TABLE (\w+) \((.*?)\);', schema.classes, re.S):
            cols = []
            for part in m.group(2).split(','):
                name, ty = part.split()
                cols.append((name, ty.upper()))
            _COLUMNS[m.group(1)] = cols
    return _COLUMNS


def tok_of(value, ty):
    '''Raw SQL token of a python value for a column of type *ty*.'''
    if ty == 'UNIQUE_ID':
        return '"%s"' % uuid.UUID(int=value or 0)
    if ty == 'STRING':
        return "'%s'" % (value or '').replace("'", "''")
    if ty == 'BOOLEAN':
        return '1' if value else '0'
    if ty == 'REAL':
        return '%f' % (value or 0.0)
    return '%d' % (value or 0)


def val_of(tok):
    '''Python value of a raw token (decided by the token's own syntax).'''
    if tok[0] == '"':
        return uuid.UUID(tok[1:-1]).int
    if tok[0] == "'":
        return tok[1:-1].replace("''", "'")
    if '.' in tok:
        return float(tok)
    if tok.upper() in ('TRUE', 'FALSE'):
        return tok.upper() == 'TRUE'
    return int(tok)


class Row(object):
    '''One INSERT statement: table, raw value tokens (positional), global flag.'''
    __slots__ = ('t', 'v', 'g')

    def __init__(self, t, v, g=False):
        self.t = t
        self.v = tuple(v)
        self.g = g

    def __getattr__(self, name):
        if name.startswith('__'):
            raise AttributeError(name)
        cols = columns()[self.t]
        for i, (c, _) in enumerate(cols):
            if c == name:
                if i < len(self.v):
                    return val_of(self.v[i])
                return None
        raise AttributeError('%s.%s' % (self.t, name))

    def set(self, **kw):
        cols = columns()[self.t]
        v = list(self.v)
        for i, (c, ty) in enumerate(cols):
            if c in kw:
                while len(v) <= i:
                    v.append(tok_of(None, cols[len(v)][1]))
                v[i] = tok_of(kw.pop(c), ty)
        if kw:
            raise AttributeError('%s has no column %s' % (self.t, sorted(kw)))
        return Row(self.t, v, self.g)

    def text(self):
        return 'INSERT INTO %s\n\tVALUES (%s);\n' % (self.t, ',\n\t'.join(self.v))

    def __repr__(self):
        return 'Row(%s, %s)' % (self.t, ', '.join(self.v))


# Descriptions are free text the generators must never let through unescaped (XML comments may not hold '--', markup
# characters need escaping); every described element of the synthetic models carries this one.
NASTY_DESCRIP = 'state -- on <or> off & "q" ]]> <!-- %s {0} -- \\'


def mkrow(table, **kw):
    cols = columns()[table]
    names = [c for c, _ in cols]
    for k in kw:
        if k not in names:
            raise AttributeError('%s has no column %s' % (table, k))
    return Row(table, [tok_of(kw.get(c), ty) for c, ty in cols])


def parse_rows(text, is_global=False):
    '''Rows of a .xtuml text, in file order.'''
    toks = [m.group(2) for m in _TOK.finditer(text) if m.group(2)]
    if sum(len(t) for t in toks) + sum(len(m.group(1)) for m in _TOK.finditer(text) if m.group(1)) != len(text):
        raise Unsupported('model text contains characters outside the INSERT statement syntax')
    out = []
    i = 0
    while i < len(toks):
        if [t.upper() for t in toks[i:i + 2]] != ['INSERT', 'INTO'] or toks[i + 3].upper() != 'VALUES' or toks[i + 4] != '(':
            raise Unsupported('not an INSERT statement at token %d: %r' % (i, toks[i:i + 5]))
        table = toks[i + 2]
        j = i + 5
        vals = []
        while toks[j] != ')':
            if toks[j] != ',':
                vals.append(toks[j])
            j += 1
        if toks[j + 1] != ';':
            raise Unsupported('missing ; after %s' % table)
        out.append(Row(table, vals, is_global))
        i = j + 2
    return out


def render(rows):
    '''Model text of the non-global rows.'''
    return ''.join(r.text() for r in rows if not r.g)


_GLOBALS = []


def global_rows():
    if not _GLOBALS:
        from bridgepoint import schema
        _GLOBALS.extend(parse_rows(schema.globals, True))
    return list(_GLOBALS)


def tables_of_rows(rows):
    by = {}
    for r in rows:
        by.setdefault(r.t, []).append(r)
    return lambda name: by.get(name, [])


def tables_of_metamodel(mm):
    '''Row access for a loaded ooaofooa metamodel (select_many and attribute reads only).'''
    return lambda name: list(mm.select_many(name))


def nz(x):
    '''Null id (None or 0) -> None.'''
    return x or None


# ---------------------------------------------------------------------------
# the abstract diagram
# ---------------------------------------------------------------------------

class Rec(object):
    def __init__(self, **kw):
        self.__dict__.update(kw)

    def __repr__(self):
        return '%s(%s)' % (type(self).__name__, ', '.join('%s=%r' % kv for kv in sorted(self.__dict__.items())))


class Cont(Rec):     # id, kind ('pkg' | 'comp'), name, parent (container id or None)
    pass


class DT(Rec):       # id, name, kind ('core'|'enum'|'user'|'struct'|'other'), core_typ, base, enums [[id, name]...] in R56 order, home
    # kind 'struct' (S_SDT) only: members [[id, name, dt]...] in R46 order
    pass


class Attr(Rec):     # id, name, kind ('base'|'derived'|'ref'), dt, base ((obj, attr) of R113 or None)
    pass


class Cls(Rec):      # id, name, kl, numb, home, attrs [Attr...] in R103 order, ids {oid: [attr id...]}
    def attr(self, attr_id):
        for a in self.attrs:
            if a.id == attr_id:
                return a
        raise KeyError(attr_id)


class End(Rec):      # cls, mult, cond, phrase, oir, oid (referred identifier; participant ends only), keys [(ref attr, id attr)...]
    pass


class Rel(Rec):      # id, numb, home, kind ('simple'|'linked'|'subsup'), ends {name: End}, subs [End...]
    pass


CORE_SUPPORTED = {1: 'boolean', 2: 'integer', 3: 'real', 4: 'string', 5: 'unique_id'}
XSD_CORE = {'boolean': 'xs:boolean', 'integer': 'xs:integer', 'real': 'xs:decimal', 'string': 'xs:string',
            'unique_id': 'xs:integer'}


class Diagram(object):
    def __init__(self):
        self.conts = {}
        self.pkgrefs = []       # [(referring package, referred package)...]  (EP_PKGREF, R1402)
        self.types = {}
        self.classes = []
        self.rels = []

    def clone(self):
        return copy.deepcopy(self)

    # -- lookups -------------------------------------------------------------
    def cls(self, obj_id):
        for c in self.classes:
            if c.id == obj_id:
                return c
        raise KeyError(obj_id)

    def rel(self, rel_id):
        for r in self.rels:
            if r.id == rel_id:
                return r
        raise KeyError(rel_id)

    def cont_named(self, kind, name):
        hits = [c for c in self.conts.values() if c.kind == kind and c.name == name]
        if len(hits) != 1:
            raise KeyError((kind, name))
        return hits[0]

    def type_named(self, name):
        hits = [t for t in self.types.values() if t.name == name]
        if len(hits) != 1:
            raise KeyError(name)
        return hits[0]

    def rel_ends(self, r):
        '''All ends of a relationship: [(name, End)...].'''
        out = sorted(r.ends.items())
        out += [('sub%d' % i, e) for i, e in enumerate(r.subs)]
        return out

    def classes_of_rel(self, r):
        return set(e.cls for _, e in self.rel_ends(r))

    # -- packaging -------------------------------------------------------------
    def ancestors(self, home):
        out = []
        seen = set()
        while home is not None and home not in seen:
            seen.add(home)
            out.append(home)
            home = self.conts[home].parent if home in self.conts else None
        return out

    def reach(self, home):
        '''
        Containers an element with home container *home* lies in: its package / component, their
        parents, and for every package on the way the packages that refer to it (R1402) with theirs.
        '''
        seen = set()
        todo = [home]
        while todo:
            c = todo.pop()
            if c is None or c in seen or c not in self.conts:
                continue
            seen.add(c)
            todo.append(self.conts[c].parent)
            if self.conts[c].kind == 'pkg':
                todo.extend(r for r, p in self.pkgrefs if p == c)
        return seen

    def contained(self, home, comp):
        '''Is an element whose home container is *home* inside component/package *comp* (None = whole model)?'''
        return comp is None or comp in self.reach(home)

    def is_global(self, home):
        return not any(self.conts[c].kind == 'comp' for c in self.ancestors(home) if c in self.conts)

    # -- canonical form --------------------------------------------------------
    def canon(self):
        def end(e):
            return (e.cls, e.mult, e.cond, e.phrase, e.oir, getattr(e, 'oid', None), tuple(sorted(e.keys)))
        conts = tuple(sorted((c.id, c.kind, c.name, c.parent) for c in self.conts.values())) + \
            tuple(sorted(('ref', r, p) for r, p in self.pkgrefs))
        types = tuple(sorted((t.id, t.name, t.kind, t.core_typ, t.base, tuple(map(tuple, t.enums)), t.home) +
                             ((tuple(map(tuple, getattr(t, 'members', []))),) if t.kind == 'struct' else ())
                             for t in self.types.values()))
        classes = tuple(sorted((c.id, c.name, c.kl, c.numb, c.home,
                                tuple((a.id, a.name, a.kind, a.dt, a.base) for a in c.attrs),
                                tuple(sorted((o, tuple(sorted(ids))) for o, ids in c.ids.items())))
                               for c in self.classes))
        rels = tuple(sorted((r.id, r.numb, r.home, r.kind,
                             tuple((n, end(e)) for n, e in sorted(r.ends.items())),
                             tuple(sorted(end(e) for e in r.subs)))
                            for r in self.rels))
        return (conts, types, classes, rels)

    def __eq__(self, other):
        return isinstance(other, Diagram) and self.canon() == other.canon()

    def __ne__(self, other):
        return not self == other

    # -- types -----------------------------------------------------------------
    def core_type(self, dt_id, depth=0):
        '''pyxtuml core type name (upper case) of a data type, or None when unsupported.'''
        t = self.types.get(dt_id)
        if t is None or depth > 16:
            return None
        if t.kind == 'core':
            return CORE_SUPPORTED[t.core_typ].upper() if t.core_typ in CORE_SUPPORTED else None
        if t.kind == 'enum':
            return 'INTEGER'
        if t.kind == 'user':
            return self.core_type(t.base, depth + 1)
        return None

    def xsd_base_type(self, dt_id, depth=0):
        '''Name of the base data type (user types unwrapped) when XSD-supported, else None.'''
        t = self.types.get(dt_id)
        if t is None or depth > 16:
            return None
        if t.kind == 'core':
            return t.name if t.core_typ in CORE_SUPPORTED else None
        if t.kind == 'enum':
            return t.name
        if t.kind == 'user':
            return self.xsd_base_type(t.base, depth + 1)
        return None

    def referred(self, obj_id, attr_id):
        '''(obj, attr) the referential attribute refers to through a relationship key pair, or None.'''
        for r in self.rels:
            for _, e in self.rel_ends(r):
                for ref, ident in e.keys:
                    if ref == (obj_id, attr_id):
                        return ident
        return None

    def base_attr(self, obj_id, attr_id, depth=0):
        '''The non-referential attribute a (referential) attribute finally refers to.'''
        c = self.cls(obj_id)
        a = c.attr(attr_id)
        if a.kind != 'ref' or depth > 16:
            return c, a
        nxt = self.referred(obj_id, attr_id) or a.base
        if not nxt:
            return c, a
        try:
            return self.base_attr(nxt[0], nxt[1], depth + 1)
        except KeyError:
            return c, a

    def check(self):
        '''Internal consistency of the diagram (R113 agrees with the key pairs, ends name existing things).'''
        problems = []
        for c in self.classes:
            for a in c.attrs:
                if a.kind == 'ref':
                    _, b = self.base_attr(c.id, a.id)
                    if b.kind == 'ref':
                        problems.append('referential attribute %s.%s does not reach a base attribute' % (c.kl, a.name))
                    elif a.base and a.base[1] != b.id:
                        problems.append('%s.%s: R113 names another base attribute than the key pairs' % (c.kl, a.name))
            for oid, ids in c.ids.items():
                for i in ids:
                    c.attr(i)
        for r in self.rels:
            for _, e in self.rel_ends(r):
                self.cls(e.cls)
                for ref, ident in e.keys:
                    self.cls(ref[0]).attr(ref[1])
                    self.cls(ident[0]).attr(ident[1])
        return problems


# ---------------------------------------------------------------------------
# extraction: rows -> diagram (by ids only)
# ---------------------------------------------------------------------------

def _chain(items, key, prev):
    '''Order *items* by their predecessor column: first has no predecessor among the items.'''
    by_prev = {}
    ids = set(key(x) for x in items)
    for x in items:
        p = nz(prev(x))
        if p not in ids:
            p = None
        by_prev.setdefault(p, []).append(x)
    out = []
    cur = by_prev.get(None, [])
    if len(cur) != 1 and items:
        raise Unsupported('succession chain with %d heads' % len(cur))
    while cur:
        if len(cur) != 1:
            raise Unsupported('succession chain forks')
        x = cur[0]
        if x in out:
            raise Unsupported('succession chain loops')
        out.append(x)
        cur = by_prev.get(key(x), [])
    if len(out) != len(items):
        raise Unsupported('succession chain does not reach every element')
    return out


def extract(T):
    '''Abstract diagram of the rows served by T(table) -> row objects.'''
    d = Diagram()
    pe = {}
    for r in T('PE_PE'):
        pe[r.Element_ID] = nz(r.Package_ID) or nz(r.Component_ID)

    for r in T('EP_PKG'):
        d.conts[r.Package_ID] = Cont(id=r.Package_ID, kind='pkg', name=r.Name, parent=pe.get(r.Package_ID))
    for r in T('C_C'):
        d.conts[r.Id] = Cont(id=r.Id, kind='comp', name=r.Name, parent=pe.get(r.Id))
    for r in T('EP_PKGREF'):
        d.pkgrefs.append((r.Referring_Package_ID, r.Referred_Package_ID))

    cdt = dict((r.DT_ID, r.Core_Typ) for r in T('S_CDT'))
    edt = set(r.DT_ID for r in T('S_EDT'))
    udt = dict((r.DT_ID, nz(r.CDT_DT_ID)) for r in T('S_UDT'))
    sdt = set(r.DT_ID for r in T('S_SDT'))
    for r in T('S_DT'):
        t = DT(id=r.DT_ID, name=r.Name, kind='other', core_typ=None, base=None, enums=[], home=pe.get(r.DT_ID))
        if r.DT_ID in cdt:
            t.kind, t.core_typ = 'core', cdt[r.DT_ID]
        elif r.DT_ID in edt:
            t.kind = 'enum'
            mine = [e for e in T('S_ENUM') if e.EDT_DT_ID == r.DT_ID]
            t.enums = [[e.Enum_ID, e.Name] for e in _chain(mine, lambda e: e.Enum_ID, lambda e: e.Previous_Enum_ID)]
        elif r.DT_ID in udt:
            t.kind, t.base = 'user', udt[r.DT_ID]
        elif r.DT_ID in sdt:
            t.kind = 'struct'
            mine = [m for m in T('S_MBR') if m.Parent_DT_DT_ID == r.DT_ID]
            t.members = [[m.Member_ID, m.Name, nz(m.DT_ID)]
                         for m in _chain(mine, lambda m: m.Member_ID, lambda m: m.Previous_Member_ID)]
        d.types[t.id] = t

    battr = set((r.Attr_ID, r.Obj_ID) for r in T('O_BATTR'))
    dbattr = set((r.Attr_ID, r.Obj_ID) for r in T('O_DBATTR'))
    nbattr = set((r.Attr_ID, r.Obj_ID) for r in T('O_NBATTR'))
    rattr = dict(((r.Attr_ID, r.Obj_ID), (nz(r.BObj_ID), nz(r.BAttr_ID))) for r in T('O_RATTR'))
    for o in T('O_OBJ'):
        c = Cls(id=o.Obj_ID, name=o.Name, kl=o.Key_Lett, numb=o.Numb, home=pe.get(o.Obj_ID), attrs=[], ids={})
        mine = [a for a in T('O_ATTR') if a.Obj_ID == o.Obj_ID]
        for a in _chain(mine, lambda a: a.Attr_ID, lambda a: a.PAttr_ID):
            k = (a.Attr_ID, a.Obj_ID)
            if k in rattr and k not in battr:
                kind, base = 'ref', rattr[k]
                if base[0] is None or base[1] is None:
                    base = None
            elif k in battr and k in dbattr and k not in nbattr:
                kind, base = 'derived', None
            elif k in battr and k in nbattr and k not in dbattr:
                kind, base = 'base', None
            else:
                raise Unsupported('attribute %s.%s is neither base, derived nor referential' % (o.Key_Lett, a.Name))
            c.attrs.append(Attr(id=a.Attr_ID, name=a.Name, kind=kind, dt=nz(a.DT_ID), base=base))
        for i in T('O_ID'):
            if i.Obj_ID == o.Obj_ID:
                c.ids[i.Oid_ID] = [m.Attr_ID for m in T('O_OIDA') if m.Obj_ID == o.Obj_ID and m.Oid_ID == i.Oid_ID]
        d.classes.append(c)

    rto = dict(((r.Obj_ID, r.Rel_ID, r.OIR_ID), r.Oid_ID) for r in T('R_RTO'))
    rgo = set((r.Obj_ID, r.Rel_ID, r.OIR_ID) for r in T('R_RGO'))
    oir = set((r.Obj_ID, r.Rel_ID, r.OIR_ID) for r in T('R_OIR'))
    rtida = set((r.Attr_ID, r.Obj_ID, r.Oid_ID, r.Rel_ID, r.OIR_ID) for r in T('O_RTIDA'))
    oida = set((r.Attr_ID, r.Obj_ID, r.Oid_ID) for r in T('O_OIDA'))

    def keys(rel_id, referring, referred):
        out = []
        for f in T('O_REF'):
            if f.Rel_ID == rel_id and f.OIR_ID == referring.OIR_ID and f.Obj_ID == referring.Obj_ID and \
               f.ROIR_ID == referred.OIR_ID and f.RObj_ID == referred.Obj_ID:
                if (f.RAttr_ID, f.RObj_ID, f.ROid_ID, rel_id, f.ROIR_ID) not in rtida or \
                   (f.RAttr_ID, f.RObj_ID, f.ROid_ID) not in oida:
                    raise Unsupported('O_REF without its O_RTIDA/O_OIDA')
                out.append(((f.Obj_ID, f.Attr_ID), (f.RObj_ID, f.RAttr_ID)))
        return out

    def end(row, rel_id, participant, mult=None):
        k = (row.Obj_ID, rel_id, row.OIR_ID)
        if k not in oir or (participant and k not in rto) or (not participant and k not in rgo):
            raise Unsupported('relationship end without R_OIR / R_RTO / R_RGO')
        e = End(cls=row.Obj_ID, mult=getattr(row, 'Mult', 0) if mult is None else mult,
                cond=getattr(row, 'Cond', 0), phrase=getattr(row, 'Txt_Phrs', ''), oir=row.OIR_ID, keys=[])
        if participant:
            e.oid = rto[k]
        return e

    simp = set(r.Rel_ID for r in T('R_SIMP'))
    assoc = set(r.Rel_ID for r in T('R_ASSOC'))
    subsup = set(r.Rel_ID for r in T('R_SUBSUP'))
    for r in T('R_REL'):
        rel = Rel(id=r.Rel_ID, numb=r.Numb, home=pe.get(r.Rel_ID), kind=None, ends={}, subs=[])
        rid = r.Rel_ID
        if rid in simp:
            rel.kind = 'simple'
            parts = [x for x in T('R_PART') if x.Rel_ID == rid]
            forms = [x for x in T('R_FORM') if x.Rel_ID == rid]
            if len(parts) != 1 or len(forms) != 1:
                raise Unsupported('simple relationship R%d is not formalized' % r.Numb)
            rel.ends['part'] = end(parts[0], rid, True)
            rel.ends['form'] = end(forms[0], rid, False)
            rel.ends['part'].keys = keys(rid, forms[0], parts[0])
        elif rid in assoc:
            rel.kind = 'linked'
            one = [x for x in T('R_AONE') if x.Rel_ID == rid]
            oth = [x for x in T('R_AOTH') if x.Rel_ID == rid]
            link = [x for x in T('R_ASSR') if x.Rel_ID == rid]
            if len(one) != 1 or len(oth) != 1 or len(link) != 1:
                raise Unsupported('linked relationship R%d is incomplete' % r.Numb)
            rel.ends['one'] = end(one[0], rid, True)
            rel.ends['oth'] = end(oth[0], rid, True)
            rel.ends['link'] = end(link[0], rid, False)
            rel.ends['one'].keys = keys(rid, link[0], one[0])
            rel.ends['oth'].keys = keys(rid, link[0], oth[0])
        elif rid in subsup:
            rel.kind = 'subsup'
            sup = [x for x in T('R_SUPER') if x.Rel_ID == rid]
            if len(sup) != 1:
                raise Unsupported('sub/super relationship R%d without supertype' % r.Numb)
            rel.ends['super'] = end(sup[0], rid, True, mult=0)
            for s in T('R_SUB'):
                if s.Rel_ID == rid:
                    e = end(s, rid, False, mult=0)
                    e.keys = keys(rid, s, sup[0])
                    rel.subs.append(e)
        else:
            raise Unsupported('relationship R%d of unsupported kind' % r.Numb)
        d.rels.append(rel)
    return d


# ---------------------------------------------------------------------------
# expected observations
# ---------------------------------------------------------------------------

def card(mult, cond):
    return ('M' if mult else '1') + ('C' if cond else '')


def expected_schema(d, component=None, derived_attributes=False):
    '''
    What C14 must observe for diagram *d*: dict(classes={kl: [(name, TYPE)...]},
    indices={(kl, 'In'): frozenset(names)}, assocs=sorted list of
    (numb, family, src kl, src card, src phrase, tgt kl, tgt card, tgt phrase, frozenset((ref, id) name pairs))).
    '''
    classes, indices, assocs = {}, {}, []
    visible = {}
    for c in d.classes:
        if not d.contained(c.home, component):
            continue
        attrs = []
        for a in c.attrs:
            bc, b = d.base_attr(c.id, a.id)
            ty = None if b.kind == 'ref' else d.core_type(b.dt)
            if ty is None:
                continue                       # unsupported type: no column
            if a.kind == 'derived' and not derived_attributes:
                continue                       # derived attributes only on request
            attrs.append((a.name, ty))
            visible[(c.id, a.id)] = True
        classes[c.kl] = attrs
        for oid, ids in c.ids.items():
            if not ids:
                continue                       # an O_ID without attributes is not a modeled identifier
            if not derived_attributes and any(c.attr(i).kind == 'derived' for i in ids):
                continue                       # identifier over an attribute that is not part of the result
            indices[(c.kl, 'I%d' % (oid + 1))] = frozenset(c.attr(i).name for i in ids)

    def names(pairs):
        return frozenset((d.cls(r[0]).attr(r[1]).name, d.cls(i[0]).attr(i[1]).name) for r, i in pairs)

    for r in d.rels:
        if not d.contained(r.home, component):
            continue
        if r.kind == 'simple':
            form, part = r.ends['form'], r.ends['part']
            reflexive = form.cls == part.cls
            assocs.append((r.numb, 'simple',
                           d.cls(form.cls).kl, card(form.mult, form.cond), part.phrase if reflexive else '',
                           d.cls(part.cls).kl, card(part.mult, part.cond), form.phrase if reflexive else '',
                           names(part.keys)))
        elif r.kind == 'linked':
            link = r.ends['link']
            for me, other in (('one', 'oth'), ('oth', 'one')):
                e, o = r.ends[me], r.ends[other]
                reflexive = e.cls == o.cls
                assocs.append((r.numb, 'linked',
                               d.cls(link.cls).kl, card(o.mult, o.cond), e.phrase if reflexive else '',
                               d.cls(e.cls).kl, '1', o.phrase if reflexive else '',
                               names(e.keys)))
        elif r.kind == 'subsup':
            sup = r.ends['super']
            for s in r.subs:
                assocs.append((r.numb, 'subsup', d.cls(s.cls).kl, '1C', '', d.cls(sup.cls).kl, '1', '', names(s.keys)))
    assocs.sort(key=repr)
    return dict(classes=classes, indices=indices, assocs=assocs)


def expected_xsd(d, component):
    '''
    What C20 must observe: dict(name=<component name>,
    types=sorted list of (name, base, (enumerators...)), classes={kl: sorted [(attr, type)...]}).
    '''
    types = []
    for t in d.types.values():
        if not (d.is_global(t.home) or d.contained(t.home, component)):
            continue
        if t.kind == 'core':
            if t.core_typ in CORE_SUPPORTED and t.name in XSD_CORE:
                types.append((t.name, XSD_CORE[t.name], ()))
        elif t.kind == 'enum':
            types.append((t.name, 'xs:string', tuple(n for _, n in t.enums)))
        elif t.kind == 'user':
            b = d.types.get(t.base)
            if b is not None and (b.kind in ('enum', 'user') or (b.kind == 'core' and b.core_typ in CORE_SUPPORTED)):
                types.append((t.name, b.name, ()))
        # (structured data types, instance references and the other kinds are unsupported: no simple type, and -- via
        #  xsd_base_type -- no attribute for anything typed by them, directly or through user types)
    classes = {}
    for c in d.classes:
        if not d.contained(c.home, component) or component is None:
            continue
        attrs = []
        for a in c.attrs:
            if a.kind == 'derived':
                continue
            _, b = d.base_attr(c.id, a.id)
            ty = None if b.kind == 'ref' else d.xsd_base_type(b.dt)
            if ty is not None:
                attrs.append((a.name, ty))
        classes[c.kl] = sorted(attrs)
    return dict(name=d.conts[component].name, types=sorted(types), classes=classes)


# ---------------------------------------------------------------------------
# observation parsers (text / XML -> the same normal forms)
# ---------------------------------------------------------------------------

_RE_TABLE = re.compile(r"CREATE TABLE (\w+) \(\n(.*?)\n\);\n", re.S)
_RE_END = r"(1C|1|MC|M) (\w+) \(([^)]*)\)(?: PHRASE '((?:[^']|'')*)')?"
_RE_ROP = re.compile(r"CREATE ROP REF_ID R(\d+) FROM %s TO %s;\n" % (_RE_END, _RE_END))
_RE_INDEX = re.compile(r"CREATE UNIQUE INDEX (\w+) ON (\w+) \(([^)]*)\);\n")


def parse_sql_schema(text):
    '''Normal form of serialize_schema + serialize_unique_identifiers text; 'junk' holds whatever is neither.'''
    classes, indices, assocs, junk = {}, {}, [], []
    pos = 0
    while pos < len(text):
        m = _RE_TABLE.match(text, pos)
        if m:
            attrs = []
            for line in m.group(2).split(',\n'):
                parts = line.split()
                if len(parts) == 2:
                    attrs.append((parts[0], parts[1].upper()))
                elif parts:
                    junk.append(line)
            if m.group(1) in classes:
                junk.append('class %s defined twice' % m.group(1))
            classes[m.group(1)] = attrs
            pos = m.end()
            continue
        m = _RE_ROP.match(text, pos)
        if m:
            g = m.groups()
            sk = [k.strip() for k in g[3].split(',') if k.strip()]
            tk = [k.strip() for k in g[7].split(',') if k.strip()]
            if len(sk) != len(tk):
                junk.append(m.group(0))
            assocs.append((int(g[0]), None, g[2], g[1], (g[4] or '').replace("''", "'"),
                           g[6], g[5], (g[8] or '').replace("''", "'"), frozenset(zip(sk, tk))))
            pos = m.end()
            continue
        m = _RE_INDEX.match(text, pos)
        if m:
            key = (m.group(2), m.group(1))
            if key in indices:
                junk.append('index %s.%s defined twice' % key)
            indices[key] = frozenset(k.strip() for k in m.group(3).split(',') if k.strip())
            pos = m.end()
            continue
        nl = text.find('\n', pos)
        nl = len(text) if nl < 0 else nl + 1
        if text[pos:nl].strip():
            junk.append(text[pos:nl])
        pos = nl
    assocs.sort(key=repr)
    return dict(classes=classes, indices=indices, assocs=assocs, junk=junk)


def diff_schema(exp, obs):
    '''
    Differences between an expected and an observed schema normal form as a list of
    (family, kind, item key, expected, observed); families: class, index, simple, linked, subsup, text.
    '''
    out = []
    for j in obs.get('junk', []):
        out.append(('text', 'unparsed', j[:80], None, j))
    for kl in sorted(set(exp['classes']) | set(obs['classes'])):
        e, o = exp['classes'].get(kl), obs['classes'].get(kl)
        if o is None:
            out.append(('class', 'missing', kl, e, None))
        elif e is None:
            out.append(('class', 'extra', kl, None, o))
        elif e != o:
            en, on = [n for n, _ in e], [n for n, _ in o]
            if sorted(en) != sorted(on):
                kind = 'attributes'
            elif en != on:
                kind = 'attribute-order'
            else:
                kind = 'attribute-type'
            out.append(('class', kind, kl, e, o))
    for key in sorted(set(exp['indices']) | set(obs['indices'])):
        e, o = exp['indices'].get(key), obs['indices'].get(key)
        if o is None:
            out.append(('index', 'missing', key, sorted(e), None))
        elif e is None:
            out.append(('index', 'extra', key, None, sorted(o)))
        elif e != o:
            out.append(('index', 'members', key, sorted(e), sorted(o)))
    ea = list(exp['assocs'])
    oa = list(obs['assocs'])
    fam = dict()
    for a in ea:
        fam.setdefault(a[0], a[1])

    def strip(a):
        return (a[0],) + tuple(a[2:])
    # exact matches first
    for a in list(ea):
        for b in oa:
            if strip(a) == strip(b):
                ea.remove(a)
                oa.remove(b)
                break
    # then pair leftovers of the same number by decreasing similarity
    def pairable(a, b, level):
        if a[0] != b[0]:
            return False
        if level == 0:      # same classes and keys: cardinality / phrase differ
            return (a[2], a[5], a[8]) == (b[2], b[5], b[8])
        if level == 1:      # same classes: keys differ
            return (a[2], a[5]) == (b[2], b[5])
        if level == 2:      # same pair of classes, other direction
            return (a[2], a[5]) == (b[5], b[2])
        return True
    for level in (0, 1, 2, 3):
        for a in list(ea):
            for b in oa:
                if pairable(a, b, level):
                    if level == 0:
                        kinds = []
                        if (a[3], a[6]) != (b[3], b[6]):
                            kinds.append('cardinality')
                        if (a[4], a[7]) != (b[4], b[7]):
                            kinds.append('phrase')
                        kind = '+'.join(kinds)
                    else:
                        kind = ('keys', 'direction', 'classes')[level - 1]
                    out.append((a[1], kind, 'R%d' % a[0], show_assoc(a), show_assoc(b)))
                    ea.remove(a)
                    oa.remove(b)
                    break
    for a in ea:
        out.append((a[1], 'missing', 'R%d' % a[0], show_assoc(a), None))
    for b in oa:
        out.append((fam.get(b[0], 'assoc'), 'extra', 'R%d' % b[0], None, show_assoc(b)))
    return out


def show_assoc(a):
    def ph(p):
        return " PHRASE '%s'" % p if p else ''
    keys = sorted(a[8])
    return 'R%d FROM %s %s (%s)%s TO %s %s (%s)%s' % (
        a[0], a[3], a[2], ', '.join(k for k, _ in keys), ph(a[4]),
        a[6], a[5], ', '.join(k for _, k in keys), ph(a[7]))


def changed_items(a, b):
    '''Keys of the result items that differ between two schema normal forms.'''
    out = set()
    for kl in set(a['classes']) | set(b['classes']):
        if a['classes'].get(kl) != b['classes'].get(kl):
            out.add(('class', kl))
    for k in set(a['indices']) | set(b['indices']):
        if a['indices'].get(k) != b['indices'].get(k):
            out.add(('index', k[0]))

    def strip(x):
        return (x[0],) + tuple(x[2:])
    sa, sb = [strip(x) for x in a['assocs']], [strip(x) for x in b['assocs']]
    for x in sa:
        if sa.count(x) != sb.count(x):
            out.add(('assoc', x[0]))
    for x in sb:
        if sa.count(x) != sb.count(x):
            out.add(('assoc', x[0]))
    return out


XS = '{http://www.w3.org/2001/XMLSchema}'


def parse_xsd(root):
    '''Normal form of a parsed (namespace-resolved) xs:schema element tree; 'junk' holds anything unexpected.'''
    junk = []
    types, comps = [], []
    if root.tag != XS + 'schema':
        junk.append('root element is %s' % root.tag)
    for ch in root:
        if ch.tag == XS + 'simpleType':
            sub = list(ch)
            if len(sub) != 1 or sub[0].tag != XS + 'restriction' or sorted(ch.attrib) != ['name'] or \
               sorted(sub[0].attrib) != ['base']:
                junk.append('simpleType %r of unexpected shape' % ch.attrib.get('name'))
                continue
            enums = []
            for e in sub[0]:
                if e.tag != XS + 'enumeration' or sorted(e.attrib) != ['value'] or len(e):
                    junk.append('unexpected %s in simpleType %s' % (e.tag, ch.attrib['name']))
                else:
                    enums.append(e.attrib['value'])
            types.append((ch.attrib['name'], sub[0].attrib['base'], tuple(enums)))
        elif ch.tag == XS + 'element':
            comps.append(ch)
        else:
            junk.append('unexpected top-level %s' % ch.tag)
    name, classes = None, {}
    if len(comps) != 1:
        junk.append('%d top-level elements' % len(comps))
    for comp in comps:
        name = comp.attrib.get('name')
        seqs = comp.findall('%scomplexType/%ssequence' % (XS, XS))
        if len(seqs) != 1 or len(list(comp)) != 1 or len(list(comp[0])) != 1:
            junk.append('component element of unexpected shape')
            continue
        for el in seqs[0]:
            kl = el.attrib.get('name')
            if el.tag != XS + 'element':
                junk.append('unexpected %s among the class elements' % el.tag)
            if kl in classes:
                junk.append('class element %r declared twice' % kl)
            attrs = []
            cts = list(el)
            if len(cts) != 1 or cts[0].tag != XS + 'complexType':
                junk.append('class element %r without complexType' % kl)
                continue
            for at in cts[0]:
                if at.tag != XS + 'attribute' or sorted(at.attrib) != ['name', 'type'] or len(at):
                    junk.append('unexpected %s in class %s' % (at.tag, kl))
                else:
                    attrs.append((at.attrib['name'], at.attrib['type']))
            classes[kl] = sorted(attrs)
    return dict(name=name, types=sorted(types), classes=classes, junk=junk)


def diff_xsd(exp, obs):
    '''List of (family, kind, item key, expected, observed) for two XSD normal forms.'''
    out = []
    for j in obs.get('junk', []):
        out.append(('xml', 'shape', j[:80], None, j))
    if exp['name'] != obs['name']:
        out.append(('component', 'name', exp['name'], exp['name'], obs['name']))
    for kl in sorted(set(exp['classes']) | set(obs['classes']), key=repr):
        e, o = exp['classes'].get(kl), obs['classes'].get(kl)
        if o is None:
            out.append(('class', 'missing', kl, e, None))
        elif e is None:
            out.append(('class', 'extra', kl, None, o))
        elif e != o:
            en, on = sorted(n for n, _ in e), sorted(n for n, _ in o)
            if en != on:
                kind = 'attributes'
            else:
                kind = 'attribute-type'
            out.append(('class', kind, kl, e, o))
    et = dict()
    ot = dict()
    for t in exp['types']:
        et.setdefault(t[0], []).append(t)
    for t in obs['types']:
        ot.setdefault(t[0], []).append(t)
    for name in sorted(set(et) | set(ot)):
        e, o = et.get(name, []), ot.get(name, [])
        if e == o:
            continue
        if not o:
            out.append(('type', 'missing', name, e, None))
        elif not e:
            out.append(('type', 'extra', name, None, o))
        elif len(e) != len(o):
            out.append(('type', 'duplicate', name, e, o))
        elif [x[1] for x in e] != [x[1] for x in o]:
            out.append(('type', 'base', name, e, o))
        elif [sorted(x[2]) for x in e] != [sorted(x[2]) for x in o]:
            out.append(('type', 'enumerators', name, e, o))
        else:
            out.append(('type', 'enumerator-order', name, e, o))
    return out


def changed_xsd_items(a, b):
    out = set()
    if a['name'] != b['name']:
        out.add(('component',))
    for kl in set(a['classes']) | set(b['classes']):
        if a['classes'].get(kl) != b['classes'].get(kl):
            out.add(('class', kl))
    for t in set(a['types']) ^ set(b['types']):
        out.add(('type', t[0]))
    for t in set(a['types']) & set(b['types']):
        if a['types'].count(t) != b['types'].count(t):
            out.add(('type', t[0]))
    return out


# ---------------------------------------------------------------------------
# row builders (one per element; used by edits and by rows(diagram))
# ---------------------------------------------------------------------------

SYNTH_BASE = int('5e5e0000' + '0' * 24, 16)


def _same_as(d):
    for t in d.types.values():
        if t.kind == 'core' and t.core_typ == 7:
            return t.id
    raise KeyError('same_as<Base_Attribute>')


def rows_pe(elem_id, home, d, typ):
    k = d.conts[home].kind if home is not None else None
    return [mkrow('PE_PE', Element_ID=elem_id, Visibility=1, Package_ID=home if k == 'pkg' else 0,
                  Component_ID=home if k == 'comp' else 0, type=typ)]


def rows_container(c, d):
    if c.kind == 'pkg':
        out = [mkrow('EP_PKG', Package_ID=c.id, Sys_ID=0, Direct_Sys_ID=0, Name=c.name, Descrip='', Num_Rng=0)]
        return out + rows_pe(c.id, c.parent, d, 7)
    out = [mkrow('C_C', Id=c.id, Package_ID=0, NestedComponent_Id=0, Name=c.name, Descrip=NASTY_DESCRIP, Mult=0,
                 Root_Package_ID=0, isRealized=False, Realized_Class_Path='', Key_Lett='')]
    return out + rows_pe(c.id, c.parent, d, 2)


def rows_pkgref(referring, referred):
    return [mkrow('EP_PKGREF', Referring_Package_ID=referring, Referred_Package_ID=referred)]


def rows_enum(t, i):
    e = t.enums[i]
    return [mkrow('S_ENUM', Enum_ID=e[0], Name=e[1], Descrip=NASTY_DESCRIP, EDT_DT_ID=t.id,
                  Previous_Enum_ID=t.enums[i - 1][0] if i else 0)]


def rows_type(t, d):
    out = rows_pe(t.id, t.home, d, 3)
    out.append(mkrow('S_DT', DT_ID=t.id, Dom_ID=0, Name=t.name, Descrip=NASTY_DESCRIP, DefaultValue=''))
    if t.kind == 'enum':
        out.append(mkrow('S_EDT', DT_ID=t.id))
        for i in range(len(t.enums)):
            out += rows_enum(t, i)
    elif t.kind == 'user':
        out.append(mkrow('S_UDT', DT_ID=t.id, CDT_DT_ID=t.base, Gen_Type=0, Definition=''))
    elif t.kind == 'struct':
        out.append(mkrow('S_SDT', DT_ID=t.id))
        for i in range(len(t.members)):
            out += rows_member(t, i)
    else:
        raise Unsupported('cannot synthesise a %s type' % t.kind)
    return out


def rows_member(t, i):
    m = t.members[i]
    return [mkrow('S_MBR', Member_ID=m[0], Name=m[1], Descrip='', Parent_DT_DT_ID=t.id, DT_ID=m[2],
                  Previous_Member_ID=t.members[i - 1][0] if i else 0, Dimensions='')]


def rows_attr(c, a, prev, d):
    out = [mkrow('O_ATTR', Attr_ID=a.id, Obj_ID=c.id, PAttr_ID=prev or 0, Name=a.name, Descrip=NASTY_DESCRIP, Prefix='',
                 Root_Nam=a.name, Pfx_Mode=0, DT_ID=_same_as(d) if a.kind == 'ref' else a.dt, Dimensions='',
                 DefaultValue='')]
    if a.kind == 'ref':
        bc, b = d.base_attr(c.id, a.id)
        out.append(mkrow('O_RATTR', Attr_ID=a.id, Obj_ID=c.id, BAttr_ID=b.id, BObj_ID=bc.id, Ref_Mode=1,
                         BaseAttrName=b.name))
    else:
        out.append(mkrow('O_BATTR', Attr_ID=a.id, Obj_ID=c.id))
        if a.kind == 'derived':
            out.append(mkrow('O_DBATTR', Attr_ID=a.id, Obj_ID=c.id, Action_Semantics_internal='', Suc_Pars=0,
                             Dialect=0))
        else:
            out.append(mkrow('O_NBATTR', Attr_ID=a.id, Obj_ID=c.id))
    return out


def rows_oida(c, oid, a):
    return [mkrow('O_OIDA', Attr_ID=a.id, Obj_ID=c.id, Oid_ID=oid, localAttributeName=a.name)]


def rows_class(c, d):
    out = rows_pe(c.id, c.home, d, 4)
    out.append(mkrow('O_OBJ', Obj_ID=c.id, Name=c.name, Numb=c.numb, Key_Lett=c.kl, Descrip=NASTY_DESCRIP, SS_ID=0))
    prev = None
    for a in c.attrs:
        out += rows_attr(c, a, prev, d)
        prev = a.id
    for oid in sorted(c.ids):
        out.append(mkrow('O_ID', Oid_ID=oid, Obj_ID=c.id))
        for i in c.ids[oid]:
            out += rows_oida(c, oid, c.attr(i))
    return out


def rows_rel(r, d):
    out = rows_pe(r.id, r.home, d, 9)
    out.append(mkrow('R_REL', Rel_ID=r.id, Numb=r.numb, Descrip='', SS_ID=0))
    sub = {'simple': 'R_SIMP', 'linked': 'R_ASSOC', 'subsup': 'R_SUBSUP'}[r.kind]
    out.append(mkrow(sub, Rel_ID=r.id))
    n = [0]
    emitted = set()

    def end_rows(e, table, participant):
        rows = [mkrow('R_OIR', Obj_ID=e.cls, Rel_ID=r.id, OIR_ID=e.oir, IObj_ID=0)]
        if participant:
            rows.append(mkrow('R_RTO', Obj_ID=e.cls, Rel_ID=r.id, OIR_ID=e.oir, Oid_ID=e.oid))
        else:
            rows.append(mkrow('R_RGO', Obj_ID=e.cls, Rel_ID=r.id, OIR_ID=e.oir))
        kw = dict(Obj_ID=e.cls, Rel_ID=r.id, OIR_ID=e.oir)
        if table in ('R_PART', 'R_FORM', 'R_AONE', 'R_AOTH'):
            kw.update(Mult=e.mult, Cond=e.cond, Txt_Phrs=e.phrase)
        elif table == 'R_ASSR':
            kw.update(Mult=e.mult)
        rows.append(mkrow(table, **kw))
        return rows

    def key_rows(referring, referred):
        rows = []
        for ref, ident in referred.keys:
            n[0] += 1
            tc = d.cls(ident[0])
            if (ident, referred.oir) not in emitted:
                emitted.add((ident, referred.oir))
                rows.append(mkrow('O_RTIDA', Attr_ID=ident[1], Obj_ID=ident[0], Oid_ID=referred.oid, Rel_ID=r.id,
                                  OIR_ID=referred.oir))
            rows.append(mkrow('O_REF', Obj_ID=ref[0], RObj_ID=ident[0], ROid_ID=referred.oid, RAttr_ID=ident[1],
                              Rel_ID=r.id, OIR_ID=referring.oir, ROIR_ID=referred.oir, Attr_ID=ref[1],
                              ARef_ID=r.id + 0x1000 + n[0], PARef_ID=0, Is_Cstrd=False, Descrip='',
                              RObj_Name=tc.name, RAttr_Name=tc.attr(ident[1]).name, Rel_Name='R%d' % r.numb))
        return rows

    if r.kind == 'simple':
        out += end_rows(r.ends['part'], 'R_PART', True) + end_rows(r.ends['form'], 'R_FORM', False)
        out += key_rows(r.ends['form'], r.ends['part'])
    elif r.kind == 'linked':
        out += end_rows(r.ends['one'], 'R_AONE', True) + end_rows(r.ends['oth'], 'R_AOTH', True)
        out += end_rows(r.ends['link'], 'R_ASSR', False)
        out += key_rows(r.ends['link'], r.ends['one']) + key_rows(r.ends['link'], r.ends['oth'])
    else:
        out += end_rows(r.ends['super'], 'R_SUPER', True)
        for s in r.subs:
            out += end_rows(s, 'R_SUB', False)
            sup = End(**dict(r.ends['super'].__dict__, keys=s.keys))
            out += key_rows(s, sup)
    return out


def rows(d):
    '''Complete non-global BridgePoint rows of a diagram (global data types are left to the loader).'''
    out = []
    done = set()

    def cont(cid):
        if cid is None or cid in done:
            return
        done.add(cid)
        cont(d.conts[cid].parent)
        out.extend(rows_container(d.conts[cid], d))
    for cid in sorted(d.conts):
        cont(cid)
    for referring, referred in d.pkgrefs:
        out.extend(rows_pkgref(referring, referred))
    predefined = set(r.DT_ID for r in global_rows() if r.t == 'S_DT')
    for t in sorted(d.types.values(), key=lambda t: t.id):
        if t.id not in predefined:
            out.extend(rows_type(t, d))
    for c in d.classes:
        out.extend(rows_class(c, d))
    for r in d.rels:
        out.extend(rows_rel(r, d))
    return out


# ---------------------------------------------------------------------------
# building diagrams from scratch
# ---------------------------------------------------------------------------

class Builder(object):
    '''Small API to write a class diagram down; ids are allocated deterministically.'''

    def __init__(self):
        self.d = extract(tables_of_rows(global_rows()))
        self.n = 0

    def new_id(self):
        self.n += 1
        return SYNTH_BASE + (self.n << 16)

    def package(self, name, parent=None):
        c = Cont(id=self.new_id(), kind='pkg', name=name, parent=parent)
        self.d.conts[c.id] = c
        return c.id

    def component(self, name, parent=None):
        c = Cont(id=self.new_id(), kind='comp', name=name, parent=parent)
        self.d.conts[c.id] = c
        return c.id

    def pkgref(self, referring, referred):
        '''Package *referring* refers to package *referred* (EP_PKGREF).'''
        self.d.pkgrefs.append((referring, referred))

    def dt(self, name):
        return self.d.type_named(name).id

    def enum(self, name, enumerators, home):
        t = DT(id=self.new_id(), name=name, kind='enum', core_typ=None, base=None, enums=[], home=home)
        for e in enumerators:
            t.enums.append([self.new_id(), e])
        self.d.types[t.id] = t
        return t.id

    def user(self, name, base, home):
        t = DT(id=self.new_id(), name=name, kind='user', core_typ=None, base=base, enums=[], home=home)
        self.d.types[t.id] = t
        return t.id

    def struct(self, name, members, home):
        '''Structured data type (S_SDT); members: [(name, type name or id)...] in R46 order.'''
        t = DT(id=self.new_id(), name=name, kind='struct', core_typ=None, base=None, enums=[], home=home, members=[])
        for n, ty in members:
            t.members.append([self.new_id(), n, self.dt(ty) if isinstance(ty, str) else ty])
        self.d.types[t.id] = t
        return t.id

    def cls(self, kl, home, attrs, ids=None):
        '''attrs: [(name, type name or id, kind)...]; ids: {oid: [attr names]} (default: I1 = first attribute).'''
        c = Cls(id=self.new_id(), name='Class ' + kl, kl=kl, numb=len(self.d.classes) + 1, home=home, attrs=[],
                ids={0: [], 1: [], 2: []})
        for spec in attrs:
            name, ty = spec[0], spec[1]
            kind = spec[2] if len(spec) > 2 else 'base'
            c.attrs.append(Attr(id=self.new_id(), name=name, kind=kind,
                                dt=self.dt(ty) if isinstance(ty, str) else ty, base=None))
        if ids is None:
            ids = {0: [attrs[0][0]]} if attrs else {}
        for oid, names in ids.items():
            c.ids[oid] = [self.attr(c, n).id for n in names]
        self.d.classes.append(c)
        return c

    def attr(self, c, name):
        for a in c.attrs:
            if a.name == name:
                return a
        raise KeyError(name)

    def _refs(self, referring, referred, oid, names, identifying):
        '''Add referential attributes *names* to class *referring* for identifier *oid* of *referred*.'''
        keys = []
        idattrs = referred.ids[oid]
        assert len(names) == len(idattrs), (names, idattrs)
        for name, ident in zip(names, idattrs):
            existing = [a for a in referring.attrs if a.name == name]
            if existing:
                a = existing[0]
                if a.kind != 'ref':
                    a.kind = 'ref'
            else:
                a = Attr(id=self.new_id(), name=name, kind='ref', dt=None, base=None)
                referring.attrs.append(a)
            if identifying and a.id not in referring.ids[0]:
                referring.ids[0].append(a.id)
            keys.append(((referring.id, a.id), (referred.id, ident)))
        return keys

    def _finish(self, r):
        self.d.rels.append(r)
        # R113: every referential attribute names its final base attribute
        for c in self.d.classes:
            for a in c.attrs:
                if a.kind == 'ref':
                    bc, b = self.d.base_attr(c.id, a.id)
                    a.base = (bc.id, b.id) if b.kind != 'ref' else None
                    a.dt = _same_as(self.d)
        return r

    def simple(self, numb, home, form, part, refs, oid=0, identifying=False):
        '''form/part: (class, mult, cond, phrase); refs: names of the referential attributes in the form class.'''
        r = Rel(id=self.new_id(), numb=numb, home=home, kind='simple', ends={}, subs=[])
        r.ends['form'] = End(cls=form[0].id, mult=form[1], cond=form[2], phrase=form[3], oir=self.new_id(), keys=[])
        r.ends['part'] = End(cls=part[0].id, mult=part[1], cond=part[2], phrase=part[3], oir=self.new_id(), oid=oid,
                             keys=self._refs(form[0], part[0], oid, refs, identifying))
        return self._finish(r)

    def linked(self, numb, home, link, one, oth, refs_one, refs_oth, oid_one=0, oid_oth=0, link_mult=0):
        r = Rel(id=self.new_id(), numb=numb, home=home, kind='linked', ends={}, subs=[])
        r.ends['link'] = End(cls=link.id, mult=link_mult, cond=0, phrase='', oir=self.new_id(), keys=[])
        r.ends['one'] = End(cls=one[0].id, mult=one[1], cond=one[2], phrase=one[3], oir=self.new_id(), oid=oid_one,
                            keys=self._refs(link, one[0], oid_one, refs_one, True))
        r.ends['oth'] = End(cls=oth[0].id, mult=oth[1], cond=oth[2], phrase=oth[3], oir=self.new_id(), oid=oid_oth,
                            keys=self._refs(link, oth[0], oid_oth, refs_oth, True))
        return self._finish(r)

    def subsup(self, numb, home, sup, subs, refs, oid=0):
        '''subs: [class...]; refs: names of the referential attributes (same names in every subtype).'''
        r = Rel(id=self.new_id(), numb=numb, home=home, kind='subsup', ends={}, subs=[])
        r.ends['super'] = End(cls=sup.id, mult=0, cond=0, phrase='', oir=self.new_id(), oid=oid, keys=[])
        for s in subs:
            r.subs.append(End(cls=s.id, mult=0, cond=0, phrase='', oir=self.new_id(),
                              keys=self._refs(s, sup, oid, refs, False)))
        return self._finish(r)


# ---------------------------------------------------------------------------
# edits: applied to the rows and, independently, to the diagram
# ---------------------------------------------------------------------------

END_TABLE = {'form': 'R_FORM', 'part': 'R_PART', 'one': 'R_AONE', 'oth': 'R_AOTH'}
ELEM_OF_KIND = {'class': 'classes', 'rel': 'rels'}


class World(object):
    '''rows (list of Row, globals included) + the mirrored diagram + a counter for fresh ids.'''

    def __init__(self, rows_, diagram, fresh=0, issued=()):
        self.rows = rows_
        self.d = diagram
        self.fresh = fresh
        self.issued = set(issued)

    def clone(self):
        return World(list(self.rows), self.d.clone(), self.fresh, self.issued)

    def new_id(self, *key):
        '''Fresh id; a function of what is created (not of when), so that independent additions commute.'''
        from mc import core
        self.fresh += 1
        n = SYNTH_BASE + (0xed17 << 48) + (core.h64(repr(key)) & 0xffffffffff)
        while n in self.issued:
            n += 1
        self.issued.add(n)
        return n

    def text(self):
        return render(self.rows)

    def proxy(self):
        '''Row order of the tables whose row order an edit can change (not part of the diagram).'''
        return tuple((r.t, r.v[0]) for r in self.rows if r.t in ('S_ENUM', 'O_ATTR') and not r.g)

    # -- row helpers -----------------------------------------------------------
    def find(self, table, **cond):
        out = []
        for i, r in enumerate(self.rows):
            if r.t == table and all(getattr(r, k) == v for k, v in cond.items()):
                out.append(i)
        return out

    def one(self, table, **cond):
        hits = self.find(table, **cond)
        if len(hits) != 1:
            raise KeyError('%d rows of %s match %r' % (len(hits), table, cond))
        return hits[0]

    def update(self, table, cond, **vals):
        i = self.one(table, **cond)
        self.rows[i] = self.rows[i].set(**vals)

    def insert_after_last(self, table, new_rows, **cond):
        '''Insert rows after the last row of *table* matching cond (else after the last row of the table, else at the end).'''
        hits = self.find(table, **cond) or self.find(table)
        at = hits[-1] + 1 if hits else len(self.rows)
        self.rows[at:at] = new_rows

    def relink_attrs(self, c):
        prev = 0
        for a in c.attrs:
            i = self.one('O_ATTR', Attr_ID=a.id, Obj_ID=c.id)
            if (self.rows[i].PAttr_ID or 0) != prev:
                self.rows[i] = self.rows[i].set(PAttr_ID=prev)
            prev = a.id

    def relink_enums(self, t):
        prev = 0
        for eid, _ in t.enums:
            i = self.one('S_ENUM', Enum_ID=eid)
            if (self.rows[i].Previous_Enum_ID or 0) != prev:
                self.rows[i] = self.rows[i].set(Previous_Enum_ID=prev)
            prev = eid

    # -- the edits ---------------------------------------------------------------
    def apply(self, op):
        getattr(self, 'e_' + op[0])(*op[1:])

    def e_rename_attr(self, obj, attr, name):
        self.update('O_ATTR', dict(Attr_ID=attr, Obj_ID=obj), Name=name)
        self.d.cls(obj).attr(attr).name = name

    def e_retype_attr(self, obj, attr, dt):
        self.update('O_ATTR', dict(Attr_ID=attr, Obj_ID=obj), DT_ID=dt)
        self.d.cls(obj).attr(attr).dt = dt

    def e_move_attr(self, obj, attr, pos):
        c = self.d.cls(obj)
        a = c.attr(attr)
        c.attrs.remove(a)
        c.attrs.insert(pos, a)
        self.relink_attrs(c)

    def e_add_attr(self, obj, pos, name, dt, kind):
        c = self.d.cls(obj)
        a = Attr(id=self.new_id('attr', obj, name), name=name, kind=kind, dt=dt, base=None)
        c.attrs.insert(pos, a)
        new = rows_attr(c, a, None, self.d)
        self.insert_after_last('O_ATTR', new[:1], Obj_ID=obj)
        self.insert_after_last('O_BATTR', new[1:2], Obj_ID=obj)
        self.insert_after_last(new[2].t, new[2:3], Obj_ID=obj)
        self.relink_attrs(c)

    def e_set_derived(self, obj, attr, flag):
        a = self.d.cls(obj).attr(attr)
        old, new = ('O_NBATTR', 'O_DBATTR') if flag else ('O_DBATTR', 'O_NBATTR')
        i = self.one(old, Attr_ID=attr, Obj_ID=obj)
        del self.rows[i]
        a.kind = 'derived' if flag else 'base'
        row = [r for r in rows_attr(self.d.cls(obj), a, None, self.d) if r.t == new]
        self.insert_after_last(new, row)

    def e_id_add(self, obj, oid, attr):
        c = self.d.cls(obj)
        c.ids[oid].append(attr)
        self.insert_after_last('O_OIDA', rows_oida(c, oid, c.attr(attr)), Obj_ID=obj)

    def e_id_del(self, obj, oid, attr):
        self.d.cls(obj).ids[oid].remove(attr)
        del self.rows[self.one('O_OIDA', Attr_ID=attr, Obj_ID=obj, Oid_ID=oid)]

    def e_set_end(self, rel, endname, column, value):
        r = self.d.rel(rel)
        e = r.ends[endname]
        self.update(END_TABLE[endname], dict(Rel_ID=rel, OIR_ID=e.oir), **{column: value})
        setattr(e, {'Mult': 'mult', 'Cond': 'cond', 'Txt_Phrs': 'phrase'}[column], value)

    def e_renumber(self, rel, numb):
        self.update('R_REL', dict(Rel_ID=rel), Numb=numb)
        self.d.rel(rel).numb = numb

    def e_move_elem(self, kind, elem, home):
        k = self.d.conts[home].kind if home is not None else None
        self.update('PE_PE', dict(Element_ID=elem), Package_ID=home if k == 'pkg' else 0,
                    Component_ID=home if k == 'comp' else 0)
        if kind == 'class':
            self.d.cls(elem).home = home
        elif kind == 'rel':
            self.d.rel(elem).home = home
        elif kind == 'type':
            self.d.types[elem].home = home
        else:
            self.d.conts[elem].parent = home

    def e_rename_class(self, obj, kl):
        '''New key letters (the class name proper, O_OBJ.Name, stays).'''
        self.update('O_OBJ', dict(Obj_ID=obj), Key_Lett=kl)
        self.d.cls(obj).kl = kl

    def e_renumber_class(self, obj, numb):
        '''Another class number (O_OBJ.Numb); numbers need not be unique.'''
        self.update('O_OBJ', dict(Obj_ID=obj), Numb=numb)
        self.d.cls(obj).numb = numb

    def e_rename_comp(self, comp, name):
        self.update('C_C', dict(Id=comp), Name=name)
        self.d.conts[comp].name = name

    def e_enum_add(self, dt, pos, name, where):
        t = self.d.types[dt]
        t.enums.insert(pos, [self.new_id('enum', dt, name), name])
        new = rows_enum(t, pos)
        hits = self.find('S_ENUM', EDT_DT_ID=dt)
        at = (hits[0] if where == 'first' else hits[-1] + 1) if hits else len(self.rows)
        self.rows[at:at] = new
        self.relink_enums(t)

    def e_enum_move(self, dt, enum, pos):
        t = self.d.types[dt]
        e = [x for x in t.enums if x[0] == enum][0]
        t.enums.remove(e)
        t.enums.insert(pos, e)
        self.relink_enums(t)

    def e_enum_rename(self, dt, enum, name):
        self.update('S_ENUM', dict(Enum_ID=enum), Name=name)
        [x for x in self.d.types[dt].enums if x[0] == enum][0][1] = name

    def e_row_move(self, table, i, j):
        '''Move the i-th non-global row of *table* to the place of the j-th (file order only).'''
        hits = [k for k, r in enumerate(self.rows) if r.t == table and not r.g]
        row = self.rows[hits[i]]
        order = [self.rows[k] for k in hits]
        order.remove(row)
        order.insert(j, row)
        for k, r in zip(hits, order):
            self.rows[k] = r

    def e_add_udt(self, name, base, home):
        t = DT(id=self.new_id('udt', name), name=name, kind='user', core_typ=None, base=base, enums=[], home=home)
        self.d.types[t.id] = t
        new = rows_type(t, self.d)
        self.insert_after_last('S_UDT', new)

    def e_add_enum(self, name, enumerators, home):
        t = DT(id=self.new_id('edt', name), name=name, kind='enum', core_typ=None, base=None, enums=[], home=home)
        for e in enumerators:
            t.enums.append([self.new_id('enum', name, e), e])
        self.d.types[t.id] = t
        self.insert_after_last('S_ENUM', rows_type(t, self.d))

    def e_add_struct(self, name, members, home):
        '''members: [[name, data type id]...]'''
        t = DT(id=self.new_id('sdt', name), name=name, kind='struct', core_typ=None, base=None, enums=[], home=home,
               members=[[self.new_id('mbr', name, n), n, dt] for n, dt in members])
        self.d.types[t.id] = t
        self.insert_after_last('S_DT', rows_type(t, self.d))

    def e_add_pkgref(self, referring, referred):
        self.d.pkgrefs.append((referring, referred))
        self.insert_after_last('EP_PKGREF', rows_pkgref(referring, referred))

    def e_add_container(self, kind, name, parent):
        c = Cont(id=self.new_id('cont', kind, name), kind=kind, name=name, parent=parent)
        self.d.conts[c.id] = c
        self.insert_after_last('EP_PKG' if kind == 'pkg' else 'C_C', rows_container(c, self.d))


def world_of_text(text):
    '''World of a real model text (file order kept; globals added, flagged).'''
    rs = global_rows() + parse_rows(text)
    return World(rs, extract(tables_of_rows(rs)))


def world_of_diagram(d):
    rs = global_rows() + rows(d)
    return World(rs, d.clone())


def selfcheck_world(w):
    '''The mirrored diagram must be what the rows say (harness consistency, not a finding).'''
    got = extract(tables_of_rows(w.rows))
    if got != w.d:
        a, b = got.canon(), w.d.canon()
        for part, x, y in zip(('containers', 'types', 'classes', 'relationships'), a, b):
            if x != y:
                only_rows = sorted(set(x) - set(y), key=repr)
                only_diag = sorted(set(y) - set(x), key=repr)
                return 'rows and mirrored diagram disagree on %s:\n rows: %r\n diagram: %r' % (part, only_rows, only_diag)
        return 'rows and mirrored diagram disagree'
    return None


# ---------------------------------------------------------------------------
# permutations of the model text
# ---------------------------------------------------------------------------

OWNER = {
    'O_ATTR': 'Obj_ID', 'O_BATTR': 'Obj_ID', 'O_NBATTR': 'Obj_ID', 'O_DBATTR': 'Obj_ID', 'O_RATTR': 'Obj_ID',
    'O_OIDA': 'Obj_ID', 'O_ID': 'Obj_ID', 'O_REF': 'Rel_ID', 'O_RTIDA': 'Rel_ID', 'R_OIR': 'Rel_ID',
    'R_RGO': 'Rel_ID', 'R_RTO': 'Rel_ID', 'R_SUB': 'Rel_ID', 'S_ENUM': 'EDT_DT_ID', 'R_PART': 'Rel_ID',
    'S_MBR': 'Parent_DT_DT_ID',
}
WHOLE_EXTRA = ('EP_PKGREF', 'S_SDT')
WHOLE = ('O_OBJ', 'R_REL', 'S_DT', 'EP_PKG', 'C_C', 'S_UDT', 'S_EDT', 'R_SIMP', 'R_ASSOC', 'R_SUBSUP', 'R_FORM',
         'R_AONE', 'R_AOTH', 'R_ASSR', 'R_SUPER')


def row_groups(rows_, tables=None, max_rows=6):
    '''
    Groups of row positions whose relative order is permuted: per table the rows of one owner
    (class / relationship / enumeration), and whole small tables.  [(label, [positions...])...]
    '''
    out = []
    by = {}
    for i, r in enumerate(rows_):
        if r.g:
            continue
        if tables is not None and r.t not in tables:
            continue
        if r.t in OWNER:
            by.setdefault((r.t, getattr(r, OWNER[r.t])), []).append(i)
        if r.t in WHOLE or r.t in OWNER or r.t in WHOLE_EXTRA:
            by.setdefault((r.t, None), []).append(i)
    for key in sorted(by, key=repr):
        pos = by[key]
        if 2 <= len(pos) <= max_rows:
            if key[1] is not None and by.get((key[0], None)) == pos:
                continue            # same group as the whole table
            out.append((key, pos))
    return out


def permuted(rows_, positions, perm):
    out = list(rows_)
    for p, q in zip(positions, perm):
        out[p] = rows_[positions[q]]
    return out


def without_graphics(rows_):
    '''The rows without the diagram layout tables (GD_*, DIM_*), which no generator reads.'''
    return [r for r in rows_ if not r.t.startswith(('GD_', 'DIM_'))]


def reversed_rows(rows_):
    g = [r for r in rows_ if r.g]
    return g + [r for r in reversed(rows_) if not r.g]


def rotated_rows(rows_, k):
    g = [r for r in rows_ if r.g]
    m = [r for r in rows_ if not r.g]
    k %= max(1, len(m))
    return g + m[k:] + m[:k]


# ---------------------------------------------------------------------------
# synthesised diagrams
# ---------------------------------------------------------------------------

def rich_diagram():
    '''
    One diagram holding every construct the abstract form can express: nested packages, two
    components, global elements, enumeration and user types (over core, enumeration and user
    types), derived and unsupported attributes, secondary and composite identifiers, a
    reflexive simple, a non-reflexive linked, a reflexive linked and a sub/super relationship
    with two subtypes, referential attributes through two levels.
    '''
    b = Builder()
    top = b.package('Top')
    comp = b.component('Comp', top)
    classes = b.package('Classes', comp)
    inner = b.package('Inner', classes)
    types = b.package('Types', comp)
    other = b.component('Other', top)
    opkg = b.package('OtherClasses', other)
    colour = b.enum('Colour', ['Red', 'Green', 'Blue'], types)
    money = b.user('Money', b.dt('real'), types)
    shade = b.user('Shade', colour, types)
    price = b.user('Price', money, types)
    b.user('GlobalCount', b.dt('integer'), top)
    b.enum('Hidden', ['H1', 'H2'], opkg)
    A = b.cls('A', classes, [('Id', 'unique_id'), ('Name', 'string'), ('Count', 'integer'), ('Total', 'real', 'derived'),
                             ('Col', colour), ('Cost', price), ('Tint', shade), ('Handle', 'inst_ref<Object>'),
                             ('Flag', 'boolean'), ('When', 'timestamp'), ('Day', 'date')],
              {0: ['Id'], 1: ['Name', 'Count']})
    B = b.cls('B', inner, [('Id', 'unique_id'), ('Weight', money)])
    L = b.cls('L', classes, [])
    K = b.cls('K', classes, [('Seq', 'integer')], {})
    S1 = b.cls('S1', classes, [('Extra', 'string')], {})
    S2 = b.cls('S2', inner, [], {})
    X = b.cls('X', opkg, [('Id', 'unique_id')])
    G = b.cls('G', top, [('Id', 'unique_id'), ('Mode', colour)])
    b.simple(1, classes, (B, 1, 1, 'has'), (A, 0, 0, 'belongs to'), ['A_Name', 'A_Count'], oid=1)
    b.simple(2, classes, (A, 0, 1, 'follows'), (A, 0, 1, 'precedes'), ['Prev_Id'])
    b.linked(3, classes, L, (A, 1, 0, 'uses'), (B, 1, 1, 'is used by'), ['A_Id'], ['B_Id'])
    b.linked(5, inner, K, (B, 0, 1, 'parent'), (B, 1, 1, 'child'), ['Parent_Id'], ['Child_Id'])
    b.subsup(4, classes, A, [S1, S2], ['Id'])
    for s in (S1, S2):
        s.ids[0] = [b.attr(s, 'Id').id]
    b.simple(6, top, (X, 1, 1, ''), (G, 0, 0, ''), ['G_Id'])
    b.simple(7, inner, (S2, 1, 1, 'x'), (S1, 0, 1, 'y'), ['S1_Id'])      # S2.S1_Id -> S1.Id -> A.Id: two levels
    return b.d


def packaging_diagram():
    '''
    Packaging shapes: component > package > package > nested component > package > class; a package of a
    sibling component and a global package, each referred to (EP_PKGREF, R1402) by a package inside the
    component and holding a class (the sibling's package also a data type; data types reach the global
    referenced package through the move / add edits); a sibling component whose own content must not leak;
    a global class; relationships inside the nested component, from the component into it, and to the
    classes of the referenced packages.
    '''
    b = Builder()
    top = b.package('Top')
    comp = b.component('Comp', top)
    classes = b.package('Classes', comp)
    inner = b.package('Inner', classes)
    nested = b.component('Nested', inner)
    npkg = b.package('NestedClasses', nested)
    types = b.package('Types', comp)
    other = b.component('Other', top)
    opkg = b.package('OtherClasses', other)
    shared = b.package('Shared', opkg)
    gshared = b.package('GlobalShared', top)
    b.pkgref(inner, shared)
    b.pkgref(types, gshared)
    colour = b.enum('Colour', ['Red', 'Green'], types)
    nkind = b.enum('NKind', ['N1', 'N2'], npkg)
    skind = b.enum('SharedKind', ['K1', 'K2'], shared)
    gkind = b.user('GKind', b.dt('integer'), top)
    hidden = b.enum('Hidden', ['H1'], opkg)
    A = b.cls('A', classes, [('Id', 'unique_id'), ('Col', colour)])
    B = b.cls('B', inner, [('Id', 'unique_id')])
    N = b.cls('N', npkg, [('Id', 'unique_id'), ('Kind', nkind)])
    N2 = b.cls('N2', npkg, [('Id', 'unique_id')])
    Sh = b.cls('Sh', shared, [('Id', 'unique_id'), ('Kind', skind)])
    Gs = b.cls('Gs', gshared, [('Id', 'unique_id'), ('G', gkind)])
    X = b.cls('X', opkg, [('Id', 'unique_id'), ('H', hidden)])
    b.cls('F', top, [('Id', 'unique_id'), ('Total', 'real', 'derived')])
    b.simple(1, npkg, (N2, 1, 1, ''), (N, 0, 0, ''), ['N_Id'])
    b.simple(2, classes, (N, 1, 1, ''), (B, 0, 1, ''), ['B_Id'])
    b.simple(3, inner, (Sh, 1, 0, ''), (A, 0, 0, ''), ['A_Id'])
    b.simple(4, opkg, (X, 1, 1, ''), (Sh, 0, 0, ''), ['Sh_Id'])
    b.simple(5, classes, (Gs, 0, 1, ''), (A, 0, 1, ''), ['A_Id'])
    return b.d


def structs_diagram():
    '''
    Structured data types (S_SDT with S_MBR members in R46 order) in every scope -- inside the component, global, inside
    a sibling component --, one with members of enumeration / structured / user type; user types based on a structure,
    on a user type based on a structure and on a core type; class attributes typed by each of them, an identifier made
    of a structure-typed attribute with a referential attribute referring to it, next to ordinary attributes.
    '''
    b = Builder()
    top = b.package('Top')
    comp = b.component('Comp', top)
    classes = b.package('Classes', comp)
    types = b.package('Types', comp)
    other = b.component('Other', top)
    opkg = b.package('OtherTypes', other)
    colour = b.enum('Colour', ['Red', 'Green'], types)
    span = b.user('Span', b.dt('integer'), types)
    position = b.struct('Position', [('x', 'real'), ('y', 'real'), ('tint', colour)], types)
    segment = b.struct('Segment', [('from', position), ('to', position), ('len', span)], types)
    gpoint = b.struct('GPoint', [('a', 'integer')], top)
    b.struct('Empty', [], types)
    hidden = b.struct('HiddenStruct', [('h', 'string')], opkg)
    location = b.user('Location', position, types)
    place = b.user('Place', location, types)
    b.user('GPlace', gpoint, top)
    A = b.cls('A', classes, [('Id', 'unique_id'), ('Pos', position), ('Home', location), ('Where', place), ('Col', colour),
                             ('G', gpoint), ('Len', span), ('Far', hidden), ('Name', 'string')],
              {0: ['Id'], 1: ['Pos']})
    B = b.cls('B', classes, [('Id', 'unique_id'), ('Seg', segment), ('Total', position, 'derived')])
    C = b.cls('C', classes, [('Id', 'unique_id'), ('Count', 'integer')])
    b.simple(1, classes, (B, 1, 1, ''), (A, 0, 0, ''), ['A_Pos'], oid=1)        # B.A_Pos refers to the structure-typed A.Pos
    b.simple(2, classes, (C, 1, 1, ''), (A, 0, 1, ''), ['A_Id'])
    b.cls('X', opkg, [('Id', 'unique_id'), ('H', hidden)])
    return b.d


def family():
    '''
    Small diagrams, one relationship each: simple and linked relationships with all 16
    multiplicity/conditionality combinations, reflexive or not, key arity 1-2, either class
    formalising; sub/super with 1-3 subtypes and key arity 1-2.  [(name, diagram)...]
    '''
    out = []

    def frame():
        b = Builder()
        top = b.package('Top')
        comp = b.component('Comp', top)
        pkg = b.package('Classes', comp)
        return b, pkg

    def target(b, pkg, kl, arity):
        attrs = [('Id', 'unique_id'), ('Code', 'integer'), ('Label', 'string')]
        return b.cls(kl, pkg, attrs, {0: ['Id'] if arity == 1 else ['Id', 'Code']})

    combos = list(itertools.product((0, 1), repeat=4))
    for arity in (1, 2):
        refs = ['T_Id'] if arity == 1 else ['T_Id', 'T_Code']
        for reflexive in (False, True):
            for m1, c1, m2, c2 in combos:
                for swap in ((False,) if reflexive else (False, True)):
                    b, pkg = frame()
                    P = target(b, pkg, 'P', arity)
                    Q = P if reflexive else b.cls('Q', pkg, [('Id', 'unique_id'), ('Note', 'string')])
                    if swap:            # the richer class formalises instead
                        b.simple(9, pkg, (P, m1, c1, 'alpha'), (Q, m2, c2, 'beta'), ['Q_Id'])
                    else:
                        b.simple(9, pkg, (Q, m1, c1, 'alpha'), (P, m2, c2, 'beta'), refs)
                    out.append(('simple-a%d-%s-%d%d%d%d%s' % (arity, 'refl' if reflexive else 'bin', m1, c1, m2, c2,
                                                              '-swap' if swap else ''), b.d))
                for link_mult in (0, 1):     # 1: the associative class is {M} (R_ASSR.Mult), which the component does not reflect
                    b, pkg = frame()
                    P = target(b, pkg, 'P', arity)
                    Q = P if reflexive else target(b, pkg, 'Q', 1)
                    L = b.cls('L', pkg, [('Rank', 'integer')], {})
                    b.linked(9, pkg, L, (P, m1, c1, 'alpha'), (Q, m2, c2, 'beta'),
                             ['P_Id'] if arity == 1 else ['P_Id', 'P_Code'],
                             ['Q_Id'] if arity == 1 or not reflexive else ['Q_Id', 'Q_Code'], link_mult=link_mult)
                    out.append(('linked-a%d-%s-%d%d%d%d%s' % (arity, 'refl' if reflexive else 'bin', m1, c1, m2, c2,
                                                              '-linkM' if link_mult else ''), b.d))
        for nsubs in (1, 2, 3):
            b, pkg = frame()
            P = target(b, pkg, 'P', arity)
            subs = [b.cls('S%d' % i, pkg, [('Own%d' % i, 'integer')], {}) for i in range(nsubs)]
            b.subsup(9, pkg, P, subs, ['Id'] if arity == 1 else ['Id', 'Code'])
            out.append(('subsup-a%d-n%d' % (arity, nsubs), b.d))
    return out


# ---------------------------------------------------------------------------
# harness pieces shared by C14 and C20 (bases, loader reuse, BFS model, menus)
# ---------------------------------------------------------------------------

_BASES = {}
_FAMILY = {}


def base_world(name):
    '''
    A fresh World for a named base model: 'simple' = tests/resources/Simple_Model.xtuml (all rows, file
    order), 'rich' = rich_diagram(), 'pack' = packaging_diagram(), 'family:<name>' = one member of family(), 'regen:simple' = the rows
    regenerated from the abstract diagram of Simple_Model.
    '''
    if name not in _BASES:
        if name == 'simple':
            from mc import bootstrap
            with open(bootstrap.scratch() + '/resources/Simple_Model.xtuml') as f:
                _BASES[name] = world_of_text(f.read())
        elif name == 'rich':
            _BASES[name] = world_of_diagram(rich_diagram())
        elif name == 'pack':
            _BASES[name] = world_of_diagram(packaging_diagram())
        elif name == 'structs':
            _BASES[name] = world_of_diagram(structs_diagram())
        elif name == 'regen:simple':
            # the abstraction of the real model, written back as rows by rows(diagram)
            _BASES[name] = world_of_diagram(base_world('simple').d)
        elif name.startswith('family:'):
            if not _FAMILY:
                _FAMILY.update(family())
            _BASES[name] = world_of_diagram(_FAMILY[name[7:]])
        else:
            raise KeyError(name)
    return _BASES[name].clone()


_LOADER = [None, 0]


def load_model(text):
    '''
    The bridgepoint ModelLoader holding the ooaofooa schema, the globals and *text*.  The loader (165 ms
    of schema parsing) is created once per process; the model statements of the previous call are dropped.
    '''
    from bridgepoint import ooaofooa
    if _LOADER[0] is None:
        _LOADER[0] = ooaofooa.ModelLoader()
        _LOADER[1] = len(_LOADER[0].statements)
    l = _LOADER[0]
    del l.statements[_LOADER[1]:]
    l.input(text, 'model')
    return l


def packaging_valid(d, override=None):
    '''Every relationship visible in a scope (whole model / component) has all its classes in that scope.'''
    override = override or {}

    def home(kind, x):
        return override.get((kind, x.id), x.home)
    scopes = [None] + [c.id for c in d.conts.values() if c.kind == 'comp']
    for r in d.rels:
        for k in scopes:
            if d.contained(home('rel', r), k):
                for cid in d.classes_of_rel(r):
                    if not d.contained(home('class', d.cls(cid)), k):
                        return False
    return True


def is_identifying(c, a):
    return any(a.id in ids for ids in c.ids.values())


def is_key_target(d, c, a, oid=None):
    '''Is attribute a of class c the identifying side of a relationship key pair (through identifier oid)?'''
    for r in d.rels:
        for _, e in d.rel_ends(r):
            for _, ident in e.keys:
                if ident == (c.id, a.id):
                    return True
    return False


def key_target_oids(d):
    '''{(class, identifier, attribute)} used as the identifying side of some relationship.'''
    out = set()
    for r in d.rels:
        for name, e in d.rel_ends(r):
            if name.startswith('sub'):
                oid = r.ends['super'].oid
            else:
                oid = getattr(e, 'oid', None)
            for _, ident in e.keys:
                out.add((ident[0], oid, ident[1]))
    return out


def rels_of_class(d, obj):
    return [r for r in d.rels if obj in d.classes_of_rel(r)]


_PREFIX = {}


def prefix_of(name):
    '''
    Edit script that prepares a named start model.  'simple2' = Simple_Model.xtuml plus a sibling component
    'Other' holding the package 'OtherClasses', a component 'Nested' (with the package 'NestedClasses') nested in
    the package 'Classes' of 'Comp', and a reference (EP_PKGREF) from 'Classes' to 'OtherClasses'.
    '''
    if name != 'simple2':
        return []
    if name not in _PREFIX:
        w = base_world('simple')
        ops = []

        def do(op):
            w.apply(op)
            ops.append(op)
        top = sorted(c.id for c in w.d.conts.values() if c.kind == 'pkg' and c.parent is None)[0]
        classes = w.d.cont_named('pkg', 'Classes').id
        do(['add_container', 'comp', 'Other', top])
        do(['add_container', 'pkg', 'OtherClasses', w.d.cont_named('comp', 'Other').id])
        do(['add_container', 'comp', 'Nested', classes])
        do(['add_container', 'pkg', 'NestedClasses', w.d.cont_named('comp', 'Nested').id])
        do(['add_pkgref', classes, w.d.cont_named('pkg', 'OtherClasses').id])
        _PREFIX[name] = ops
    return [list(op) for op in _PREFIX[name]]


def special_homes(d):
    '''Packages inside a nested component and packages referred to by another package (sorted ids).'''
    out = set(p for _, p in d.pkgrefs)
    for c in d.conts.values():
        if c.kind == 'pkg' and c.parent in d.conts and d.conts[c.parent].kind == 'comp' and \
           any(d.conts[x].kind == 'comp' for x in d.ancestors(d.conts[c.parent].parent)):
            out.add(c.id)
    return sorted(out)


class EditModel(object):
    '''
    explorer.Model over edit scripts; subclasses give menu(w) and check(ctx, w, hist).
    *name* is the start model ('simple', 'simple2', 'rich', 'pack', 'family:..', 'regen:simple'); its rows come from
    base_world(self.base) followed by the edit script self.prefix.
    '''
    limit_s = 60.0

    def __init__(self, name, tier='quick', seed=0):
        self.name = name
        self.base = 'simple' if name == 'simple2' else name
        self.prefix = prefix_of(name)
        self.tier = tier
        self.seed = seed

    def initial(self):
        return [list(self.prefix)]

    def depth_of(self, hist):
        '''Number of edits beyond the preparing script.'''
        n = len(self.prefix)
        return len(hist) - n if hist[:n] == self.prefix else len(hist)

    def case(self, hist, op):
        return dict(base=self.name, hist=hist, op=op, tier=self.tier, seed=self.seed)

    def build(self, hist):
        w = base_world(self.base)
        for op in hist:
            w.apply(op)
        return w

    def enabled(self, w):
        return self.menu(w)

    def apply(self, ctx, w, op, hist):
        from mc import core
        w.apply(op)
        err = selfcheck_world(w)
        if err:
            raise core.HarnessError('edit %r after %r: %s' % (op, hist, err))
        problems = w.d.check()
        if problems:
            raise core.HarnessError('edit %r after %r leaves an inconsistent diagram: %s' % (op, hist, problems))
        ctx.count('edits_applied')
        ctx.count('edit:' + op[0])
        return True

    def canon(self, w):
        from mc import core
        return core.h64(repr((w.d.canon(), w.proxy())))

    def probes(self, ctx, w, hist):
        self.check(ctx, w, hist)


def text_edits(base_rows, rows_):
    '''[(old text, new text)...] replacements turning the base model text into the edited one, or None.'''
    import difflib
    a = [r.text() for r in base_rows if not r.g]
    b = [r.text() for r in rows_ if not r.g]
    sm = difflib.SequenceMatcher(None, a, b, autojunk=False)
    out = []
    for tag, i1, i2, j1, j2 in sm.get_opcodes():
        if tag == 'equal':
            continue
        old = ''.join(a[i1:i2])
        new = ''.join(b[j1:j2])
        if tag == 'insert':
            if i1 == 0:
                return None
            old = a[i1 - 1]
            new = old + new
        if ''.join(a).count(old) != 1:
            return None
        out.append((old, new))
    return out


def snippet_model(base, w):
    '''Python lines that put the edited model text into the variable `text` (plain file operations only).'''
    if base == 'simple':
        edits = text_edits(base_world(base).rows, w.rows)
        if edits is not None:
            lines = ["import re",
                     "text = open('tests/resources/Simple_Model.xtuml').read()   # run from the repository root",
                     "text = re.sub(r'(?m)^--.*\\n', '', text)"]
            for old, new in edits:
                lines.append('old = %r' % old)
                lines.append('assert text.count(old) == 1')
                lines.append('text = text.replace(old, %r)' % new)
            return lines
    return ['text = %r' % w.text()]


_PREDEFINED = set()


def predefined_types():
    '''Ids of the data types that come with the loader's globals.'''
    if not _PREDEFINED:
        _PREDEFINED.update(r.DT_ID for r in global_rows() if r.t == 'S_DT')
    return _PREDEFINED


# ---------------------------------------------------------------------------
# self-test (hand-computed cases; a failure is a harness error)
# ---------------------------------------------------------------------------

def selftest():
    '''Hand-computed expectations for a three-class diagram; returns a list of problems (empty = fine).'''
    problems = []

    def expect(what, got, want):
        if got != want:
            problems.append('%s: got %r, expected %r' % (what, got, want))

    b = Builder()
    top = b.package('Top')
    comp = b.component('Comp', top)
    pkg = b.package('Classes', comp)
    tp = b.package('Types', comp)
    col = b.enum('Col', ['Red', 'Green'], tp)
    tint = b.user('Tint', col, tp)
    A = b.cls('A', pkg, [('Id', 'unique_id'), ('Name', 'string'), ('Sum', 'real', 'derived'), ('Paint', tint),
                         ('Ref', 'inst_ref<Object>')])
    B = b.cls('B', pkg, [('Id', 'unique_id')])
    G = b.cls('G', top, [('Id', 'unique_id')])
    b.simple(1, pkg, (B, 1, 1, 'has'), (A, 0, 0, 'owns'), ['A_Id'])
    b.simple(2, pkg, (A, 0, 1, 'follows'), (A, 0, 1, 'precedes'), ['Prev_Id'])
    d = b.d
    want = dict(
        classes={'A': [('Id', 'UNIQUE_ID'), ('Name', 'STRING'), ('Paint', 'INTEGER'), ('Prev_Id', 'UNIQUE_ID')],
                 'B': [('Id', 'UNIQUE_ID'), ('A_Id', 'UNIQUE_ID')]},
        indices={('A', 'I1'): frozenset(['Id']), ('B', 'I1'): frozenset(['Id'])},
        assocs=sorted([(1, 'simple', 'B', 'MC', '', 'A', '1', '', frozenset([('A_Id', 'Id')])),
                       (2, 'simple', 'A', '1C', 'precedes', 'A', '1C', 'follows', frozenset([('Prev_Id', 'Id')]))], key=repr))
    expect('expected_schema(component)', expected_schema(d, comp, False), want)
    whole = expected_schema(d, None, True)
    expect('whole model classes', sorted(whole['classes']), ['A', 'B', 'G'])
    expect('derived attribute on request', whole['classes']['A'][2], ('Sum', 'REAL'))
    text = ("CREATE TABLE A (\n    Id UNIQUE_ID,\n    Name STRING,\n    Paint INTEGER,\n    Prev_Id UNIQUE_ID\n);\n"
            "CREATE TABLE B (\n    Id UNIQUE_ID,\n    A_Id UNIQUE_ID\n);\n"
            "CREATE ROP REF_ID R1 FROM MC B (A_Id) TO 1 A (Id);\n"
            "CREATE ROP REF_ID R2 FROM 1C A (Prev_Id) PHRASE 'precedes' TO 1C A (Id) PHRASE 'follows';\n"
            "CREATE UNIQUE INDEX I1 ON A (Id);\nCREATE UNIQUE INDEX I1 ON B (Id);\n")
    obs = parse_sql_schema(text)
    expect('diff of the hand-written schema text', diff_schema(want, obs), [])
    expect('a swapped phrase is seen', [x[:2] for x in diff_schema(want, parse_sql_schema(text.replace(
        "PHRASE 'precedes' TO 1C A (Id) PHRASE 'follows'", "PHRASE 'follows' TO 1C A (Id) PHRASE 'precedes'")))],
        [('simple', 'phrase')])
    expect('a swapped cardinality is seen', [x[:2] for x in diff_schema(want, parse_sql_schema(text.replace(
        'FROM MC B (A_Id) TO 1 A', 'FROM 1 B (A_Id) TO MC A')))], [('simple', 'cardinality')])
    x = expected_xsd(d, comp)
    expect('xsd classes', x['classes'], {'A': [('Id', 'unique_id'), ('Name', 'string'), ('Paint', 'Col'),
                                               ('Prev_Id', 'unique_id')],
                                         'B': [('A_Id', 'unique_id'), ('Id', 'unique_id')]})
    expect('xsd types', x['types'], sorted([('Col', 'xs:string', ('Red', 'Green')), ('Tint', 'Col', ()),
                                            ('boolean', 'xs:boolean', ()), ('integer', 'xs:integer', ()),
                                            ('real', 'xs:decimal', ()), ('string', 'xs:string', ()),
                                            ('timestamp', 'integer', ()), ('unique_id', 'xs:integer', ())]))
    # rows(diagram) and extract() are inverse; an edit is mirrored
    w = world_of_diagram(d)
    expect('rows/extract round trip', selfcheck_world(w), None)
    w.apply(['move_attr', A.id, b.attr(A, 'Name').id, 0])
    w.apply(['set_end', d.rels[0].id, 'form', 'Mult', 0])
    w.apply(['enum_move', col, d.types[col].enums[1][0], 0])
    expect('edits mirrored', selfcheck_world(w), None)
    expect('attribute moved', [a.name for a in w.d.cls(A.id).attrs][:2], ['Name', 'Id'])
    expect('edited association', [a for a in expected_schema(w.d, comp)['assocs'] if a[0] == 1][0][3], '1C')
    expect('enumerators reordered', [t for t in expected_xsd(w.d, comp)['types'] if t[0] == 'Col'][0][2], ('Green', 'Red'))
    return problems


# ---------------------------------------------------------------------------
# live edits: the same edit applied to a LOADED ooaofooa metamodel through the xtuml API
# ---------------------------------------------------------------------------

LIVE_KINDS = ('rename_attr', 'retype_attr', 'move_elem', 'enum_add', 'set_end', 'renumber', 'rename_class',
              'rename_comp', 'set_derived')


# live forms that only C20 applies (C14's live family keeps LIVE_KINDS)
LIVE_KINDS_ATTR = LIVE_KINDS + ('add_attr',)


def live_supported(op, kinds=LIVE_KINDS):
    return op[0] in kinds


def _pick(mm, kind, **cond):
    hits = [x for x in mm.select_many(kind) if all(getattr(x, k) == v for k, v in cond.items())]
    if len(hits) != 1:
        raise KeyError('%d instances of %s match %r' % (len(hits), kind, cond))
    return hits[0]


def live_apply(mm, before, after, op):
    '''
    Apply edit *op* to the loaded metamodel *mm* with setattr / relate / unrelate / new / delete only.
    *before* / *after*: the diagram before and after the same edit (ids of created things are read from *after*).
    '''
    import xtuml
    name = op[0]
    if name == 'rename_attr':
        _pick(mm, 'O_ATTR', Attr_ID=op[2], Obj_ID=op[1]).Name = op[3]
    elif name == 'retype_attr':
        a = _pick(mm, 'O_ATTR', Attr_ID=op[2], Obj_ID=op[1])
        xtuml.unrelate(a, _pick(mm, 'S_DT', DT_ID=before.cls(op[1]).attr(op[2]).dt), 114)
        xtuml.relate(a, _pick(mm, 'S_DT', DT_ID=op[3]), 114)
    elif name == 'move_elem':
        pe = _pick(mm, 'PE_PE', Element_ID=op[2])
        old = {'class': lambda: before.cls(op[2]).home, 'rel': lambda: before.rel(op[2]).home,
               'type': lambda: before.types[op[2]].home}.get(op[1], lambda: before.conts[op[2]].parent)()
        for home, fn in ((old, xtuml.unrelate), (op[3], xtuml.relate)):
            if home is None:
                continue
            if before.conts[home].kind == 'pkg':
                fn(pe, _pick(mm, 'EP_PKG', Package_ID=home), 8000)
            else:
                fn(pe, _pick(mm, 'C_C', Id=home), 8003)
    elif name == 'enum_add':
        t = after.types[op[1]]
        pos = op[2]
        eid = t.enums[pos][0]
        prev = _pick(mm, 'S_ENUM', Enum_ID=t.enums[pos - 1][0]) if pos > 0 else None
        nxt = _pick(mm, 'S_ENUM', Enum_ID=t.enums[pos + 1][0]) if pos + 1 < len(t.enums) else None
        e = mm.new('S_ENUM', Enum_ID=eid, Name=op[3], Descrip='')
        xtuml.relate(e, _pick(mm, 'S_EDT', DT_ID=op[1]), 27)
        if nxt is not None and prev is not None:
            xtuml.unrelate(nxt, prev, 56, 'succeeds')
        if prev is not None:
            xtuml.relate(e, prev, 56, 'succeeds')
        if nxt is not None:
            xtuml.relate(nxt, e, 56, 'succeeds')
    elif name == 'set_end':
        e = before.rel(op[1]).ends[op[2]]
        setattr(_pick(mm, END_TABLE[op[2]], Rel_ID=op[1], OIR_ID=e.oir), op[3], op[4])
    elif name == 'renumber':
        _pick(mm, 'R_REL', Rel_ID=op[1]).Numb = op[2]
    elif name == 'rename_class':
        _pick(mm, 'O_OBJ', Obj_ID=op[1]).Key_Lett = op[2]
    elif name == 'rename_comp':
        _pick(mm, 'C_C', Id=op[1]).Name = op[2]
    elif name == 'set_derived':
        old, new = ('O_NBATTR', 'O_DBATTR') if op[3] else ('O_DBATTR', 'O_NBATTR')
        xtuml.delete(_pick(mm, old, Attr_ID=op[2], Obj_ID=op[1]))
        inst = mm.new(new)
        xtuml.relate(inst, _pick(mm, 'O_BATTR', Attr_ID=op[2], Obj_ID=op[1]), 107)
    elif name == 'add_attr':
        c = after.cls(op[1])
        pos = op[2]
        a = c.attrs[pos]
        prev = _pick(mm, 'O_ATTR', Attr_ID=c.attrs[pos - 1].id, Obj_ID=c.id) if pos > 0 else None
        nxt = _pick(mm, 'O_ATTR', Attr_ID=c.attrs[pos + 1].id, Obj_ID=c.id) if pos + 1 < len(c.attrs) else None
        inst = mm.new('O_ATTR', Attr_ID=a.id, Name=a.name, Descrip='', Prefix='', Root_Nam=a.name, Pfx_Mode=0, Dimensions='',
                      DefaultValue='')
        xtuml.relate(inst, _pick(mm, 'O_OBJ', Obj_ID=c.id), 102)
        xtuml.relate(inst, _pick(mm, 'S_DT', DT_ID=a.dt), 114)
        battr = mm.new('O_BATTR')
        xtuml.relate(battr, inst, 106)
        xtuml.relate(mm.new('O_DBATTR' if a.kind == 'derived' else 'O_NBATTR'), battr, 107)
        if nxt is not None and prev is not None:
            xtuml.unrelate(nxt, prev, 103, 'succeeds')
        if prev is not None:
            xtuml.relate(inst, prev, 103, 'succeeds')
        if nxt is not None:
            xtuml.relate(nxt, inst, 103, 'succeeds')
    else:
        raise Unsupported('no live form of %s' % name)


def live_snippet(before, op):
    '''Python lines (plain xtuml calls on the metamodel `m`) for the commonest live edits; a comment otherwise.'''
    def sel(kind, **cond):
        return "m.select_any(%r, lambda s: %s)" % (kind, ' and '.join('s.%s == %r' % kv for kv in sorted(cond.items())))
    name = op[0]
    if name == 'rename_attr':
        return ['%s.Name = %r' % (sel('O_ATTR', Attr_ID=op[2], Obj_ID=op[1]), op[3])]
    if name in ('move_elem', 'retype_attr'):
        if name == 'retype_attr':
            inst = sel('O_ATTR', Attr_ID=op[2], Obj_ID=op[1])
            pairs = [(before.cls(op[1]).attr(op[2]).dt, 'unrelate', 'S_DT', 'DT_ID', 114), (op[3], 'relate', 'S_DT', 'DT_ID', 114)]
        else:
            inst = sel('PE_PE', Element_ID=op[2])
            old = {'class': lambda: before.cls(op[2]).home, 'rel': lambda: before.rel(op[2]).home,
                   'type': lambda: before.types[op[2]].home}.get(op[1], lambda: before.conts[op[2]].parent)()
            pairs = []
            for home, fn in ((old, 'unrelate'), (op[3], 'relate')):
                if home is not None:
                    pk = before.conts[home].kind == 'pkg'
                    pairs.append((home, fn, 'EP_PKG' if pk else 'C_C', 'Package_ID' if pk else 'Id', 8000 if pk else 8003))
        lines = ['inst = ' + inst]
        for ident, fn, kind, col, rel in pairs:
            lines.append('xtuml.%s(inst, %s, %d)' % (fn, sel(kind, **{col: ident}), rel))
        return lines
    if name == 'add_attr':
        return ['a = m.new("O_ATTR", Name=%r, Root_Nam=%r)' % (op[3], op[3]),
                'xtuml.relate(a, %s, 102)' % sel('O_OBJ', Obj_ID=op[1]),
                'xtuml.relate(a, %s, 114)' % sel('S_DT', DT_ID=op[4]),
                'b = m.new("O_BATTR"); xtuml.relate(b, a, 106)',
                'xtuml.relate(m.new(%r), b, 107)' % ('O_DBATTR' if op[5] == 'derived' else 'O_NBATTR'),
                '# and R103: the new attribute succeeds the attribute at position %d - 1 of the class (if any)' % op[2]]
    return ['# apply through the xtuml API on m: %r' % (op,)]
