'''
Reference evaluator for OAL programs (tuple AST of oalast) over the relational
reference model (relmodel.Ref), with OAL's rules: block scoping, loop control,
return forms, `selected`, `self`, `param`, by-name parameters and fresh scopes
for calls.  Programs outside the domain the properties define (ill-typed,
erroneous, diverging within fuel, dialect-dependent arithmetic) raise
OutOfDomain instead of guessing.
'''


class OutOfDomain(Exception):
    pass


class _Return(Exception):
    def __init__(self, value):
        self.value = value


class _Break(Exception):
    pass


class _Continue(Exception):
    pass


class _Stop(Exception):
    pass


class Handle(object):
    __slots__ = ('kind', 'idx')

    def __init__(self, kind, idx):
        self.kind, self.idx = kind, idx

    def __eq__(self, other):
        return isinstance(other, Handle) and self.idx == other.idx and self.idx is not None

    def __ne__(self, other):
        return not self == other

    def __hash__(self):
        return hash(self.idx)

    def __repr__(self):
        return 'Handle(%s,%s)' % (self.kind, self.idx)


class InstSet(object):
    __slots__ = ('kind', 'idxs')

    def __init__(self, kind, idxs):
        self.kind, self.idxs = kind, list(idxs)

    def __repr__(self):
        return 'InstSet(%s,%s)' % (self.kind, self.idxs)


def type_of(v):
    if isinstance(v, bool):
        return 'boolean'
    if isinstance(v, int):
        return 'integer'
    if isinstance(v, float):
        return 'real'
    if isinstance(v, str):
        return 'string'
    if isinstance(v, Handle):
        return ('inst', v.kind.upper())
    if isinstance(v, InstSet):
        return ('set', v.kind.upper())
    raise OutOfDomain('value without type: %r' % (v,))


NUM = ('integer', 'real')
ATTR_TYPES = {'INTEGER': 'integer', 'REAL': 'real', 'STRING': 'string', 'BOOLEAN': 'boolean', 'UNIQUE_ID': 'unique_id'}


class Callable(object):
    '''A callable model element: params [(name, type)], body (statement list), kind, owner class.'''
    def __init__(self, name, params, body, kind='function', owner=None, returns=None):
        self.name, self.params, self.body, self.kind, self.owner, self.returns = name, params, body, kind, owner, returns


class Evaluator(object):
    def __init__(self, ref, functions=None, operations=None, bridges=None, enums=None, constants=None,
                 derived=None, fuel=300, max_depth=12):
        self.ref = ref
        self.functions = functions or {}      # name -> Callable
        self.operations = operations or {}    # (KIND, name) -> Callable
        self.bridges = bridges or {}          # (EE, name) -> Callable
        self.enums = enums or {}              # name -> [enumerator names in modeled order]
        self.constants = constants or {}      # name -> value
        self.derived = derived or {}          # (KIND, attr) -> Callable
        self.fuel = fuel
        self.max_depth = max_depth
        self.depth = 0
        self.steps = 0
        self.last_env = None

    # -- entry points ------------------------------------------------------
    def run(self, stmts, params=None, self_handle=None):
        '''Execute a body in a fresh scope; returns the returned value (None if none).'''
        self.depth += 1
        if self.depth > self.max_depth:
            raise OutOfDomain('call depth')
        frame = dict(blocks=[{}], types={}, params=params or {}, self=self_handle)
        try:
            self.block(frame, stmts, new_block=False)
            if self.depth == 1:
                self.last_env = dict(frame['blocks'][0])     # variables of the outermost block at normal completion
            return None
        except _Return as r:
            return r.value
        except _Stop:
            return None
        finally:
            self.depth -= 1

    # -- scopes ------------------------------------------------------------
    def lookup(self, frame, name):
        for b in reversed(frame['blocks']):
            if name in b:
                return b[name]
        if name in self.constants:
            return self.constants[name]          # a constant of the model is read by its bare name
        raise OutOfDomain('variable %s read before assignment or out of scope' % name)

    def visible(self, frame, name):
        return any(name in b for b in frame['blocks'])

    def assign_var(self, frame, name, value):
        t = type_of(value)
        for b in reversed(frame['blocks']):
            if name in b:
                if type_of(b[name]) != t:
                    raise OutOfDomain('variable %s changes type' % name)
                b[name] = value
                return
        key = (name, len(frame['blocks']))
        frame['blocks'][-1][name] = value

    def block(self, frame, stmts, new_block=True):
        if new_block:
            frame['blocks'].append({})
        try:
            for s in stmts:
                self.stmt(frame, s)
        finally:
            if new_block:
                frame['blocks'].pop()

    def tick(self):
        self.steps += 1
        if self.steps > self.fuel:
            raise OutOfDomain('fuel')

    # -- statements --------------------------------------------------------
    def stmt(self, frame, s):
        k = s[0]
        ref = self.ref
        if k == 'empty':
            return
        if k == 'assign':
            _, lhs, rhs, _ = s
            value = self.expr(frame, rhs)
            if lhs[0] == 'var':
                if lhs[1] in ('self', 'selected', 'param'):
                    raise OutOfDomain('assignment to reserved name')
                self.assign_var(frame, lhs[1], value)
            elif lhs[0] == 'field':
                h = self.expr(frame, lhs[1])
                self.write_attr(h, lhs[2], value)
            else:
                raise OutOfDomain('unsupported assignment target')
            return
        if k == 'break':
            raise _Break()
        if k == 'continue':
            raise _Continue()
        if k == 'stop':
            raise _Stop()
        if k == 'return':
            value = self.expr(frame, s[1]) if s[1] is not None else None
            idxs = [value.idx] if isinstance(value, Handle) else (value.idxs if isinstance(value, InstSet) else [])
            if any(i is not None and not ref.insts[i].alive for i in idxs):
                raise OutOfDomain('a deleted instance is returned')
            raise _Return(value)
        if k == 'create':
            idx = ref.new(s[2])
            if s[1] is not None:
                self.assign_var(frame, s[1], Handle(ref.insts[idx].kind, idx))
            return
        if k == 'delete':
            h = self.handle_by_name(frame, s[1])
            if h.idx is None or not ref.insts[h.idx].alive:
                raise OutOfDomain('delete of an empty handle')
            ref.delete(h.idx)
            return
        if k in ('relate', 'unrelate'):
            _, a, b, rel, ph, using = s
            ha, hb = self.handle_by_name(frame, a), self.handle_by_name(frame, b)
            phrase = ph[1] if ph is not None else ''
            reln = int(rel[1:])
            fn = ref.relate if k == 'relate' else ref.unrelate
            pairs = [(ha, hb)]
            if using is not None:
                hu = self.handle_by_name(frame, using)
                pairs = [(ha, hu), (hu, hb)]
            for x, y in pairs:
                if x.idx is None or y.idx is None or not ref.insts[x.idx].alive or not ref.insts[y.idx].alive:
                    raise OutOfDomain('relate with an empty handle')
                out = fn(x.idx, y.idx, reln, phrase)
                if out != 'True':
                    raise OutOfDomain('erroneous %s: %s' % (k, out))
            return
        if k == 'selfrom':
            _, card, var, kl, where, _ = s
            kind = ref._kind(kl)
            idxs = [i for i in ref.order[kind] if where is None or self.where(frame, where, Handle(kind, i))]
            self.bind_selection(frame, card, var, kind, idxs)
            return
        if k == 'selrel':
            _, card, var, handle, chain, where = s
            h = self.expr(frame, handle)
            if isinstance(h, Handle):
                if h.idx is not None and not ref.insts[h.idx].alive:
                    raise OutOfDomain('navigation from a deleted instance')
                cur, kind = ([h.idx] if h.idx is not None else []), h.kind
            elif isinstance(h, InstSet):
                cur, kind = list(h.idxs), h.kind
                if any(not ref.insts[i].alive for i in cur):
                    raise OutOfDomain('navigation from a deleted instance')
            else:
                raise OutOfDomain('navigation from a non-handle')
            for (kl, rel, ph) in chain:
                nxt = []
                for i in cur:
                    res = ref.navigate(i, kl, int(rel[1:]), ph[1] if ph is not None else '')
                    if res == 'UnknownLinkException':
                        raise OutOfDomain('unknown link')
                    for y in res:
                        if y not in nxt:
                            nxt.append(y)
                cur, kind = nxt, ref._kind(kl)
            if where is not None:
                cur = [i for i in cur if self.where(frame, where, Handle(kind, i))]
            if card.lower() == 'one' and len(cur) > 1:
                raise OutOfDomain('select one with several candidates')
            self.bind_selection(frame, card, var, kind, cur)
            return
        if k == 'if':
            _, cond, blk, elifs, els, _ = s
            if self.boolean(frame, cond):
                self.block(frame, blk)
                return
            for ec, eb in elifs:
                if self.boolean(frame, ec):
                    self.block(frame, eb)
                    return
            if els is not None:
                self.block(frame, els)
            return
        if k == 'while':
            _, cond, blk, _ = s
            while self.boolean(frame, cond):
                self.tick()
                try:
                    self.block(frame, blk)
                except _Continue:
                    continue
                except _Break:
                    break
            return
        if k == 'foreach':
            _, v, sv, blk, _ = s
            st = self.lookup(frame, sv)
            if not isinstance(st, InstSet):
                raise OutOfDomain('for each over a non-set')
            for i in list(st.idxs):
                self.tick()
                self.assign_var(frame, v, Handle(st.kind, i))
                try:
                    self.block(frame, blk)
                except _Continue:
                    continue
                except _Break:
                    break
            return
        if k == 'call':
            self.invoke(frame, s[2])
            return
        if k == 'callassign':
            value = self.invoke(frame, s[3])
            if value is None:
                raise OutOfDomain('void call used as a value')
            if s[2][0] != 'var':
                raise OutOfDomain('unsupported target')
            self.assign_var(frame, s[2][1], value)
            return
        raise OutOfDomain('unsupported statement %s' % k)

    def bind_selection(self, frame, card, var, kind, idxs):
        if card.lower() == 'many':
            self.assign_var(frame, var, InstSet(kind, idxs))
        else:
            self.assign_var(frame, var, Handle(kind, idxs[0] if idxs else None))

    def handle_by_name(self, frame, name):
        if name == 'self':
            h = frame['self']
        else:
            h = self.lookup(frame, name)
        if not isinstance(h, Handle):
            raise OutOfDomain('%s is not an instance handle' % name)
        return h

    def where(self, frame, cond, selected):
        frame['blocks'].append({'selected': selected})
        try:
            return self.boolean(frame, cond)
        finally:
            frame['blocks'].pop()

    def boolean(self, frame, e):
        v = self.expr(frame, e)
        if not isinstance(v, bool):
            raise OutOfDomain('condition is not boolean')
        return v

    # -- attributes ---------------------------------------------------------
    def attr_decl(self, kind, name):
        for n, t in self.ref.schema.attrs(kind):
            if n.upper() == name.upper():
                return n, ATTR_TYPES[t.upper()]
        return None, None

    def read_attr(self, h, name):
        if not isinstance(h, Handle) or h.idx is None or not self.ref.insts[h.idx].alive:
            raise OutOfDomain('attribute access on an empty handle')
        key = (h.kind.upper(), name)
        if key in self.derived:
            value = self.run(self.derived[key].body, {}, h)
            if value is None:
                raise OutOfDomain('derived attribute without value')
            return value
        decl, ty = self.attr_decl(h.kind, name)
        if decl is None:
            raise OutOfDomain('unknown attribute %s' % name)
        v = self.ref.attr(h.idx, decl)
        if v is None:
            raise OutOfDomain('read of an unset attribute')
        return v

    def write_attr(self, h, name, value):
        if not isinstance(h, Handle) or h.idx is None or not self.ref.insts[h.idx].alive:
            raise OutOfDomain('attribute write on an empty handle')
        decl, ty = self.attr_decl(h.kind, name)
        if decl is None or decl in self.ref.schema.referentials(h.kind):
            raise OutOfDomain('write to an unknown or referential attribute')
        vt = type_of(value)
        if ty == 'unique_id':
            raise OutOfDomain('write to an id attribute')
        if vt != ty:
            raise OutOfDomain('attribute %s of type %s assigned a %s' % (name, ty, vt))
        self.ref.insts[h.idx].values[decl] = value

    # -- expressions ----------------------------------------------------------
    def expr(self, frame, e):
        k = e[0]
        if k == 'int':
            return int(e[1])
        if k == 'real':
            return float(e[1])
        if k == 'str':
            return e[1]
        if k == 'bool':
            return e[1].lower() == 'true'
        if k == 'var':
            return self.lookup(frame, e[1])
        if k == 'self':
            if frame['self'] is None:
                raise OutOfDomain('self outside an instance context')
            return frame['self']
        if k == 'selected':
            return self.lookup(frame, 'selected')
        if k == 'param':
            if e[1] not in frame['params']:
                raise OutOfDomain('unknown parameter')
            return frame['params'][e[1]]
        if k == 'grp':
            return self.expr(frame, e[1])
        if k == 'field':
            return self.read_attr(self.expr(frame, e[1]), e[2])
        if k == 'enum':
            ns, name = e[1], e[2]
            if ns in self.enums:
                if name not in self.enums[ns]:
                    raise OutOfDomain('unknown enumerator')
                return self.enums[ns].index(name)
            raise OutOfDomain('unknown namespace')
        if k == 'un':
            op = e[1].lower()
            v = self.expr(frame, e[2])
            t = type_of(v)
            if op == 'not':
                if t != 'boolean':
                    raise OutOfDomain('not on non-boolean')
                return not v
            if op in ('-', '+'):
                if t not in NUM:
                    raise OutOfDomain('sign on non-number')
                return -v if op == '-' else +v
            if op in ('empty', 'not_empty', 'cardinality'):
                if isinstance(v, Handle):
                    n = 0 if v.idx is None else 1
                    if v.idx is not None and not self.ref.insts[v.idx].alive:
                        raise OutOfDomain('deleted instance')
                elif isinstance(v, InstSet):
                    n = len(v.idxs)
                else:
                    raise OutOfDomain('%s on a non-handle' % op)
                return n if op == 'cardinality' else ((n == 0) if op == 'empty' else (n != 0))
            raise OutOfDomain('unknown unary operator')
        if k == 'bin':
            op = e[1].lower()
            l = self.expr(frame, e[2])
            r = self.expr(frame, e[3])
            tl, tr = type_of(l), type_of(r)
            if op in ('and', 'or'):
                if tl != 'boolean' or tr != 'boolean':
                    raise OutOfDomain('boolean operator on non-booleans')
                return (l and r) if op == 'and' else (l or r)
            if op in ('+', '-', '*', '/', '%'):
                if op == '+' and tl == 'string' and tr == 'string':
                    return l + r
                if tl not in NUM or tr not in NUM:
                    raise OutOfDomain('arithmetic on non-numbers')
                if op == '+':
                    return l + r
                if op == '-':
                    return l - r
                if op == '*':
                    return l * r
                if op == '/':
                    if r == 0:
                        raise OutOfDomain('division by zero')
                    if tl == 'integer' and tr == 'integer':
                        if l % r != 0:
                            raise OutOfDomain('inexact integer division (dialects differ)')
                        return l // r
                    return l / r
                if op == '%':
                    if tl != 'integer' or tr != 'integer' or l < 0 or r <= 0:
                        raise OutOfDomain('modulo outside the common domain')
                    return l % r
            if op in ('<', '<=', '>', '>=', '==', '!='):
                if tl in NUM and tr in NUM:
                    pass
                elif tl == tr and tl in ('string', 'boolean') and op in ('==', '!='):
                    pass
                elif tl == tr and tl == 'string':
                    pass
                elif isinstance(l, Handle) and isinstance(r, Handle) and op in ('==', '!=') and \
                        l.idx is not None and r.idx is not None:
                    return (l.idx == r.idx) if op == '==' else (l.idx != r.idx)
                else:
                    raise OutOfDomain('comparison of %s with %s' % (tl, tr))
                return {'<': l < r, '<=': l <= r, '>': l > r, '>=': l >= r, '==': l == r, '!=': l != r}[op]
            raise OutOfDomain('operator %s is not part of the compared subset' % op)
        if k in ('fcall', 'icall', 'ncall'):
            v = self.invoke(frame, e)
            if v is None:
                raise OutOfDomain('void call used as a value')
            return v
        raise OutOfDomain('unsupported expression %s' % k)

    # -- calls ------------------------------------------------------------------
    def invoke(self, frame, e):
        args = {}
        params = e[2] if e[0] == 'fcall' else e[3]
        for name, ex in params:
            if name in args:
                raise OutOfDomain('duplicate parameter')
            args[name] = self.expr(frame, ex)
        if e[0] == 'fcall':
            c = self.functions.get(e[1])
            me = None
        elif e[0] == 'ncall':
            c = self.bridges.get((e[1], e[2])) or self.operations.get((e[1].upper(), e[2]))
            me = None
            if c is not None and c.kind == 'operation':
                raise OutOfDomain('instance operation invoked on a class')
        else:
            h = self.expr(frame, e[1])
            if not isinstance(h, Handle) or h.idx is None:
                raise OutOfDomain('operation on an empty handle')
            c = self.operations.get((h.kind.upper(), e[2]))
            me = h
            if c is not None and c.kind != 'operation':
                raise OutOfDomain('class operation invoked on an instance')
        if c is None:
            raise OutOfDomain('unknown callable')
        if sorted(args) != sorted(n for n, _ in c.params):
            raise OutOfDomain('parameters do not match')
        for n, t in c.params:
            if type_of(args[n]) != t:
                raise OutOfDomain('parameter %s type' % n)
        return self.run(c.body, args, me)


def selftest():
    from mc.refs import relmodel
    a = relmodel.Assoc(1, 'B', ['A_Id'], True, True, '', 'A', ['Id'], False, False, '')
    s = relmodel.Schema('t', [('A', [('Id', 'unique_id'), ('N', 'integer')]),
                              ('B', [('Id', 'unique_id'), ('A_Id', 'unique_id'), ('N', 'integer')])], [a])
    V = lambda n: ('var', n)
    I = lambda n: ('int', str(n))
    prog = [('create', 'a', 'A'), ('create', 'b', 'B'), ('create', 'b2', 'B'),
            ('relate', 'b', 'a', 'R1', None, None), ('relate', 'a', 'b2', 'R1', None, None),
            ('assign', ('field', V('b2'), 'N'), I(5), False),
            ('selrel', 'many', 'bs', V('a'), [('B', 'R1', None)], None),
            ('assign', V('t'), I(0), False),
            ('foreach', 'x', 'bs', [('assign', V('t'), ('bin', '+', V('t'), ('field', V('x'), 'N')), False)], True),
            ('assign', V('i'), I(0), False),
            ('while', ('bin', '<', V('i'), I(10)), [('assign', V('i'), ('bin', '+', V('i'), I(1)), False),
                                                    ('if', ('bin', '==', V('i'), I(3)), [('break',)], [], None, [False])], True),
            ('return', ('bin', '+', ('bin', '*', V('t'), I(10)), V('i')))]
    ev = Evaluator(relmodel.Ref(s))
    assert ev.run(prog) == 53
    try:
        Evaluator(relmodel.Ref(s)).run([('if', ('bool', 'true'), [('assign', V('x'), I(1), False)], [], None, [False]),
                                        ('return', V('x'))])
        raise AssertionError('scoping')
    except OutOfDomain:
        pass
    f = Callable('fact', [('n', 'integer')],
                 [('if', ('bin', '<=', ('param', 'n'), I(1)), [('return', I(1))], [], None, [False]),
                  ('return', ('bin', '*', ('param', 'n'), ('fcall', 'fact', [('n', ('bin', '-', ('param', 'n'), I(1)))])))])
    ev = Evaluator(relmodel.Ref(s), functions={'fact': f})
    assert ev.run([('return', ('fcall', 'fact', [('n', I(5))]))]) == 120
