'''
OAL abstract syntax, printer with exact span recording, and the expected parse
tree (DESIGN.md section 4, `oalast`).

Programs are plain tuples.  The printer turns a program into a token list with
one *gap* between any two consecutive tokens; a layout decides the text of each
gap.  While printing, the token range of every statement and expression is
recorded so that, once the text is assembled, the exact offsets / lines /
columns / substring each parse-tree node must carry are known.

Expressions
  ('int', '12') ('real', '1.5') ('str', 'abc') ('bool', 'true') ('var', 'x')
  ('self',) ('selected',) ('param', 'p') ('rcvd', 'p') ('field', h, 'Name') ('index', h, e)
  ('enum', 'NS', 'name') ('un', op, e) ('bin', op, l, r) ('grp', e)   # grp = redundant parentheses
  ('fcall', name, params) ('icall', h, name, params) ('ncall', ns, name, params)   params = [(name, e)]
Statements (see Printer.stmt)
'''

# precedence levels as the property states them
LEVEL = {'or': 1, 'and': 2,
         '<': 3, '<=': 3, '==': 3, '!=': 3, '>=': 3, '>': 3,
         '+': 4, '-': 4, '|': 4,
         '*': 5, '/': 5, '&': 5, '^': 5,
         '%': 6}
UNARY_LEVEL = 7
BINARY_OPS = ['+', '-', '*', '/', '%', '|', '&', '^', '<', '<=', '==', '!=', '>=', '>', 'and', 'or']
UNARY_OPS = ['not', 'empty', 'not_empty', 'cardinality', '+', '-']
COMPARISONS = ['<', '<=', '==', '!=', '>=', '>']
TRAILING_COMMA = ','        # optional last element of a parameter / event data list: print a comma after the last item

KEYWORDS = set('''ASSIGN ASSIGNER BREAK BRIDGE SEND CONTROL STOP CONTINUE CREATE EVENT INSTANCE OF OBJECT DELETE FOR
EACH IN GENERATE IF ELIF ELSE RELATE TO ACROSS USING RETURN SELECT ONE ANY MANY TRANSFORM UNRELATE FROM WHILE CLASS
CREATOR RELATED BY INSTANCES WHERE CARDINALITY EMPTY FALSE NOT NOT_EMPTY TRUE AND OR PARAM RCVD_EVT SELF SELECTED
LOOP THEN'''.split())


def level(e):
    if e[0] == 'bin':
        return LEVEL[e[1].lower()]
    if e[0] == 'un':
        return UNARY_LEVEL
    return 9


class Tok(object):
    __slots__ = ('text', 'kw', 'glue', 'inner')

    def __init__(self, text, kw=None, glue=False, inner=None):
        self.text = text      # as printed (before keyword casing)
        self.kw = kw          # keyword kind (upper-case) if the token is a keyword, else None
        self.glue = glue      # True: no gap allowed between this token and the next one (NS + '::')
        self.inner = inner    # for 'end if' style tokens: the two words


class Printed(object):
    '''Result of printing: tokens, node spans (token index ranges), expected tree.'''
    def __init__(self):
        self.toks = []
        self.expected = None


class Layout(object):
    '''
    default: every gap is one space.  gaps: {gap index: string}; gap i sits
    before token i (gap 0 = leading text, gap len(toks) = trailing text).
    kwcase: function(kind, occurrence index) -> 'lower'|'upper'|'cap'|'mixed'.
    inner: {token index: string} white space inside 'end if' style tokens.
    '''
    def __init__(self, default=' ', gaps=None, kwcase=None, inner=None, lead='', trail=''):
        self.default = default
        self.gaps = gaps or {}
        self.kwcase = kwcase
        self.inner = inner or {}
        self.lead = lead
        self.trail = trail


def case_word(word, how):
    if how == 'upper':
        return word.upper()
    if how == 'cap':
        return word[:1].upper() + word[1:].lower()
    if how == 'mixed':
        return ''.join(c.upper() if i % 2 else c.lower() for i, c in enumerate(word))
    return word.lower()


WORD = 'abcdefghijklmnopqrstuvwxyzABCDEFGHIJKLMNOPQRSTUVWXYZ0123456789_'


def may_be_empty(a, b):
    '''May the gap between tokens a and b be empty without changing the token stream?
    Conservative: only next to brackets, commas and semicolons.'''
    if a is None or b is None:
        return True
    ta, tb = a.text, b.text
    if ta[-1] in WORD and tb[0] in WORD:
        return False
    if tb.startswith('::'):
        return ta in ('(', ',', '[')          # "x::" would lex as a namespace
    if ta in ('(', '[', ',') and tb[0] not in '*/':
        return True
    if tb in (')', ']', ',', ';') and ta[-1] not in '*/':
        return True
    return False


def assemble(printed, layout=None):
    '''Returns (text, [(start, end)] per token).'''
    layout = layout or Layout()
    toks = printed.toks
    out = []
    pos = 0
    spans = []
    occ = {}
    for i, t in enumerate(toks):
        if i == 0:
            gap = layout.gaps.get(0, layout.lead)
        elif toks[i - 1].glue:
            gap = ''
        else:
            gap = layout.gaps.get(i, layout.default)
            if gap == '' and not may_be_empty(toks[i - 1], t):
                gap = ' '
        out.append(gap)
        pos += len(gap)
        text = t.text
        if t.kw:
            n = occ.get(t.kw, 0)
            occ[t.kw] = n + 1
            how = layout.kwcase(t.kw, n) if layout.kwcase else 'lower'
            if t.inner:
                text = case_word(t.inner[0], how) + layout.inner.get(i, ' ') + case_word(t.inner[1], how)
            else:
                text = case_word(text, how)
        out.append(text)
        spans.append((pos, pos + len(text), text))
        pos += len(text)
    out.append(layout.gaps.get(len(toks), layout.trail))
    return ''.join(out), spans


def line_col(text, off):
    '''1-based line and column of the character at offset off.'''
    return 1 + text.count('\n', 0, off), off - text.rfind('\n', 0, off)


class Printer(object):
    '''Prints with the minimal parentheses the precedence table requires.'''

    def __init__(self, paren='minimal'):
        self.p = Printed()
        self.paren = paren            # 'minimal' | 'full'

    # -- tokens ---------------------------------------------------------
    def tok(self, text, kw=False, glue=False):
        self.p.toks.append(Tok(text, kw=text.upper() if kw else None, glue=glue))
        return len(self.p.toks) - 1

    def kw(self, word):
        return self.tok(word, kw=True)

    def endkw(self, second):
        self.p.toks.append(Tok('end ' + second, kw='END_' + second.upper(), inner=('end', second)))
        return len(self.p.toks) - 1

    def node(self, cls, first, fields, track=True):
        '''Expected-tree node covering tokens first..last printed so far.'''
        return dict(cls=cls, fields=fields, first=first, last=len(self.p.toks) - 1, track=track)

    # -- expressions ------------------------------------------------------
    def expr(self, e, ctx_level=0, right_side=False, nonassoc=False):
        '''Print e as an operand in a context that requires precedence above
        ctx_level (strictly above when right_side or nonassoc).'''
        lv = level(e)
        need = lv < ctx_level or (lv == ctx_level and (right_side or nonassoc))
        if self.paren == 'full' and e[0] in ('bin', 'un'):
            need = True
        if need:
            first = self.tok('(')
            n = self._expr(e)
            self.tok(')')
            n['first'] = first
            n['last'] = len(self.p.toks) - 1
            return n
        return self._expr(e)

    def _expr(self, e):
        k = e[0]
        first = len(self.p.toks)
        if k == 'int':
            self.tok(e[1])
            return self.node('IntegerNode', first, dict(value=e[1]))
        if k == 'real':
            self.tok(e[1])
            return self.node('RealNode', first, dict(value=e[1]))
        if k == 'str':
            self.tok('"%s"' % e[1])
            return self.node('StringNode', first, dict(value='"%s"' % e[1]))
        if k == 'bool':
            i = self.kw(e[1])
            return self.node('BooleanNode', first, dict(value=('kwtext', i)))
        if k == 'var':
            self.tok(e[1])
            return self.node('VariableAccessNode', first, dict(variable_name=e[1]))
        if k == 'self':
            self.kw('self')
            return self.node('SelfAccessNode', first, dict(variable_name='self'))
        if k == 'selected':
            self.kw('selected')
            return self.node('SelectedAccessNode', first, dict(variable_name='selected'))
        if k in ('param', 'rcvd'):
            self.kw('param' if k == 'param' else 'rcvd_evt')
            self.tok('.')
            self.tok(e[1])
            return self.node('ParamAccessNode', first, dict(variable_name=e[1]))
        if k == 'field':
            h = self._expr(e[1])
            self.tok('.')
            self.tok(e[2])
            return self.node('FieldAccessNode', first, dict(handle=h, name=e[2]))
        if k == 'index':
            h = self._expr(e[1])
            self.tok('[')
            x = self.expr(e[2])
            self.tok(']')
            return self.node('IndexAccessNode', first, dict(handle=h, expression=x))
        if k == 'enum':
            self.tok(e[1], glue=True)
            self.tok('::')
            self.tok(e[2])
            return self.node('EnumOrNamedConstantNode', first, dict(namespace=e[1], name=e[2]))
        if k == 'grp':
            self.tok('(')
            n = self.expr(e[1])
            self.tok(')')
            n = dict(n)
            n['first'] = first
            n['last'] = len(self.p.toks) - 1
            return n
        if k == 'un':
            op = e[1]
            i = self.kw(op) if op[0].isalpha() else self.tok(op)
            x = self.expr(e[2], UNARY_LEVEL)
            return self.node('UnaryOperationNode', first,
                             dict(operator=('kwtext', i) if op[0].isalpha() else op, operand=x))
        if k == 'bin':
            op = e[1]
            lv = LEVEL[op.lower()]
            na = op in COMPARISONS
            l = self.expr(e[2], lv, right_side=False, nonassoc=na)
            i = self.kw(op) if op[0].isalpha() else self.tok(op)
            r = self.expr(e[3], lv, right_side=True, nonassoc=na)
            return self.node('BinaryOperationNode', first,
                             dict(left=l, operator=('kwtext', i) if op[0].isalpha() else op, right=r))
        if k in ('fcall', 'icall', 'ncall'):
            return self.invocation(e)
        raise ValueError(e)

    def params(self, params, cls='ParameterListNode', item='ParameterNode'):
        # a last element ',' (TRAILING_COMMA) asks for the comma the grammar allows after the last item: 'f(a: 1, )' is
        # another way of writing the same list
        first = len(self.p.toks)
        items = []
        trailing = bool(params) and params[-1] == TRAILING_COMMA
        if trailing:
            params = params[:-1]
        for n, (name, ex) in enumerate(params):
            if n:
                self.tok(',')
            f = len(self.p.toks)
            self.tok(name)
            self.tok(':')
            x = self.expr(ex)
            items.append(self.node(item, f, dict(name=name, expression=x), track=False))
        if trailing and params:
            self.tok(',')
        return self.node(cls, first, dict(children=items), track=False)

    def invocation(self, e, cls=None):
        first = len(self.p.toks)
        if e[0] == 'fcall':
            self.tok('::')
            self.tok(e[1])
            self.tok('(')
            pl = self.params(e[2])
            self.tok(')')
            return self.node('FunctionInvocationNode', first, dict(action_name=e[1], parameter_list=pl))
        if e[0] == 'icall':
            h = self._expr(e[1])
            self.tok('.')
            self.tok(e[2])
            self.tok('(')
            pl = self.params(e[3])
            self.tok(')')
            return self.node('InstanceInvocationNode', first, dict(handle=h, action_name=e[2], parameter_list=pl))
        if e[0] == 'ncall':
            self.tok(e[1], glue=True)
            self.tok('::')
            self.tok(e[2])
            self.tok('(')
            pl = self.params(e[3])
            self.tok(')')
            return self.node(cls or 'ImplicitInvocationNode', first,
                             dict(namespace=e[1], action_name=e[2], parameter_list=pl))
        raise ValueError(e)

    # -- statements ---------------------------------------------------------
    def phrase(self, ph):
        '''ph: ("t", "text") ticked phrase or ("i", "ident") identifier phrase; returns expected field value.'''
        if ph is None:
            return ''
        if ph[0] == 't':
            self.tok("'%s'" % ph[1])
        else:
            self.tok(ph[1])
        return "'%s'" % ph[1]

    def evspec(self, spec):
        ident, poly, meaning, data = spec
        first = len(self.p.toks)
        self.tok(ident)
        if poly:
            self.tok('*')
        m = None
        if meaning is not None:
            self.tok(':')
            m = self.phrase(meaning)
        if data is not None:
            self.tok('(')
            d = self.params(data, 'EventDataListNode', 'EventDataItemNode')
            self.tok(')')
        else:
            d = dict(cls='EventDataListNode', fields=dict(children=[]), first=first, last=first, track=False)
        return self.node('EventSpecNode', first, dict(identifier=ident, meaning=m, event_data=d), track=False)

    def block(self, stmts):
        first = len(self.p.toks)
        items = []
        for s in stmts:
            if s[0] == 'empty':
                self.tok(';')
                continue
            items.append(self.stmt(s))
            self.tok(';')
        sl = dict(cls='StatementListNode', fields=dict(children=items), first=first, last=len(self.p.toks) - 1, track=False)
        return dict(cls='BlockNode', fields=dict(statement_list=sl), first=first, last=len(self.p.toks) - 1, track=False)

    def stmt(self, s):
        k = s[0]
        first = len(self.p.toks)
        N = lambda cls, **f: self.node(cls, first, f)
        if k == 'assign':
            _, lhs, rhs, explicit = s
            if explicit:
                self.kw('assign')
            l = self._expr(lhs)
            self.tok('=')
            r = self.expr(rhs)
            return N('AssignmentNode', variable_access=l, expression=r)
        if k == 'break':
            self.kw('break')
            return N('BreakNode')
        if k == 'continue':
            self.kw('continue')
            return N('ContinueNode')
        if k == 'stop':
            self.kw('control')
            self.kw('stop')
            return N('ControlNode')
        if k == 'return':
            self.kw('return')
            x = self.expr(s[1]) if s[1] is not None else None
            return N('ReturnNode', expression=x)
        if k == 'create':
            self.kw('create'); self.kw('object'); self.kw('instance')
            if s[1] is not None:
                self.tok(s[1])
            self.kw('of')
            self.tok(s[2])
            if s[1] is None:
                return N('CreateObjectNoVariableNode', key_letter=s[2])
            return N('CreateObjectNode', variable_name=s[1], key_letter=s[2])
        if k == 'delete':
            self.kw('delete'); self.kw('object'); self.kw('instance')
            self.kw('self') if s[1] == 'self' else self.tok(s[1])
            return N('DeleteNode', variable_name=('kwtext', len(self.p.toks) - 1) if s[1] == 'self' else s[1])
        if k in ('relate', 'unrelate'):
            _, a, b, rel, ph, using = s
            self.kw(k)
            ia = self.kw('self') if a == 'self' else self.tok(a)
            self.kw('to' if k == 'relate' else 'from')
            ib = self.kw('self') if b == 'self' else self.tok(b)
            self.kw('across')
            self.tok(rel)
            phv = ''
            if ph is not None:
                self.tok('.')
                phv = self.phrase(ph)
            fa = ('kwtext', ia) if a == 'self' else a
            fb = ('kwtext', ib) if b == 'self' else b
            base = 'Relate' if k == 'relate' else 'Unrelate'
            if using is not None:
                self.kw('using')
                self.tok(using)
                return N(base + 'UsingNode', from_variable_name=fa, to_variable_name=fb, rel_id=rel, phrase=phv,
                         using_variable_name=using)
            return N(base + 'Node', from_variable_name=fa, to_variable_name=fb, rel_id=rel, phrase=phv)
        if k == 'selfrom':
            _, card, var, kl, where, inst_of = s
            self.kw('select')
            ic = self.kw(card)
            self.tok(var)
            self.kw('from')
            if inst_of:
                self.kw('instances'); self.kw('of')
            self.tok(kl)
            if where is not None:
                self.kw('where')
                w = self.expr(where)
                return N('SelectFromWhereNode', cardinality=('kwtext', ic), variable_name=var, key_letter=kl, where_clause=w)
            return N('SelectFromNode', cardinality=('kwtext', ic), variable_name=var, key_letter=kl)
        if k == 'selrel':
            _, card, var, handle, chain, where = s
            self.kw('select')
            ic = self.kw(card)
            self.tok(var)
            self.kw('related'); self.kw('by')
            h = self._expr(handle)
            cf = len(self.p.toks)
            steps = []
            for (kl, rel, ph) in chain:
                f = len(self.p.toks)
                self.tok('->')
                self.tok(kl)
                self.tok('[')
                self.tok(rel)
                phv = ''
                if ph is not None:
                    self.tok('.')
                    phv = self.phrase(ph)
                self.tok(']')
                steps.append(self.node('NavigationStepNode', f, dict(key_letter=kl, rel_id=rel, phrase=phv), track=False))
            ch = self.node('NavigationListNode', cf, dict(children=steps), track=False)
            if where is not None:
                self.kw('where')
                w = self.expr(where)
                return N('SelectRelatedWhereNode', cardinality=('kwtext', ic), variable_name=var, handle=h,
                         navigation_chain=ch, where_clause=w)
            return N('SelectRelatedNode', cardinality=('kwtext', ic), variable_name=var, handle=h, navigation_chain=ch)
        if k == 'if':
            _, cond, blk, elifs, els, thens = s
            self.kw('if')
            c = self.expr(cond)
            if thens[0]:
                self.kw('then')
            b = self.block(blk)
            ef = len(self.p.toks)
            items = []
            for n, (ec, eb) in enumerate(elifs):
                self.kw('elif')
                f = len(self.p.toks)
                x = self.expr(ec)
                if thens[1 + n] if len(thens) > 1 + n else False:
                    self.kw('then')
                bb = self.block(eb)
                items.append(self.node('ElIfNode', f, dict(expression=x, block=bb), track=False))
            el = self.node('ElIfListNode', ef, dict(children=items), track=False)
            ec = None
            if els is not None:
                f = len(self.p.toks)
                self.kw('else')
                ec = self.node('ElseNode', f, dict(block=self.block(els)), track=False)
                ec['last'] = len(self.p.toks) - 1
            self.endkw('if')
            return N('IfNode', expression=c, block=b, elif_list=el, else_clause=ec)
        if k == 'while':
            _, cond, blk, loop = s
            self.kw('while')
            c = self.expr(cond)
            if loop:
                self.kw('loop')
            b = self.block(blk)
            self.endkw('while')
            return N('WhileNode', expression=c, block=b)
        if k == 'foreach':
            _, v, sv, blk, loop = s
            self.kw('for'); self.kw('each')
            self.tok(v)
            self.kw('in')
            self.tok(sv)
            if loop:
                self.kw('loop')
            b = self.block(blk)
            self.endkw('for')
            return N('ForEachNode', instance_variable_name=v, set_variable_name=sv, block=b)
        if k == 'call':
            _, prefix, inv = s
            cls = None
            if prefix:
                self.kw(prefix)
                cls = {'bridge': 'BridgeInvocationNode', 'transform': 'ClassInvocationNode',
                       'send': 'PortInvocationNode'}[prefix]
            i = self.invocation(inv, cls if inv[0] == 'ncall' else None)
            return N('InvocationStatementNode', invocation=i)
        if k == 'callassign':
            _, prefix, lhs, inv = s
            self.kw(prefix)
            l = self._expr(lhs)
            self.tok('=')
            cls = {'bridge': 'BridgeInvocationNode', 'transform': 'ClassInvocationNode',
                   'send': 'PortInvocationNode'}[prefix]
            i = self.invocation(inv, cls if inv[0] == 'ncall' else None)
            return N('AssignmentNode', variable_access=l, expression=i)
        if k == 'portevent':
            _, port, action, params, to = s
            self.kw('send')
            self.tok(port, glue=True)
            self.tok('::')
            self.tok(action)
            self.tok('(')
            pl = self.params(params)
            self.tok(')')
            self.kw('to')
            t = self.expr(to)
            return N('GeneratePortEventNode', port_name=port, action_name=action, parameter_list=pl, expression=t)
        if k == 'gen':
            _, spec, target = s
            self.kw('generate')
            sp = self.evspec(spec)
            self.kw('to')
            if target[0] in ('class', 'assigner', 'creator'):
                self.tok(target[1])
                self.kw(target[0])
                cls = 'GenerateCreatorEventNode' if target[0] == 'creator' else 'GenerateClassEventNode'
                return N(cls, event_specification=sp, key_letter=target[1])
            t = self._expr(target[1])
            return N('GenerateInstanceEventNode', event_specification=sp, variable_access=t)
        if k == 'genpre':
            self.kw('generate')
            v = self._expr(s[1])
            return N('GeneratePreexistingNode', variable_access=v)
        if k == 'createev':
            _, var, spec, target = s
            self.kw('create'); self.kw('event'); self.kw('instance')
            self.tok(var)
            self.kw('of')
            sp = self.evspec(spec)
            self.kw('to')
            if target[0] in ('class', 'assigner', 'creator'):
                self.tok(target[1])
                self.kw(target[0])
                cls = 'CreateCreatorEventNode' if target[0] == 'creator' else 'CreateClassEventNode'
                return N(cls, variable_name=var, event_specification=sp, key_letter=target[1])
            t = self._expr(target[1])
            return N('CreateInstanceEventNode', variable_name=var, event_specification=sp, to_variable_access=t)
        raise ValueError(s)


def print_program(stmts, paren='minimal'):
    pr = Printer(paren)
    blk = pr.block(stmts)
    pr.p.expected = dict(cls='BodyNode', fields=dict(block=blk), first=0, last=len(pr.p.toks) - 1, track=False)
    return pr.p


def print_expression(e, paren='minimal'):
    '''Program "x = <e>;" -- returns the Printed object; the expression's expected
    node is expected['fields']['block'] ... children[0] ... ['expression'].'''
    return print_program([('assign', ('var', 'x'), e, False)], paren)


# ---------------------------------------------------------------------------
# strict comparison of a real parse tree with the expected tree
# ---------------------------------------------------------------------------

def compare(node, exp, text, spans, positions=True, kwfold=False, path='root'):
    '''Returns a list of mismatch descriptions (empty = equal).'''
    out = []
    if exp is None:
        if node is not None:
            out.append('%s: expected nothing, got %s' % (path, type(node).__name__))
        return out
    if node is None:
        return ['%s: expected %s, got None' % (path, exp['cls'])]
    if type(node).__name__ != exp['cls']:
        return ['%s: expected %s, got %s' % (path, exp['cls'], type(node).__name__)]
    for f, ev in exp['fields'].items():
        try:
            av = getattr(node, f)
        except AttributeError:
            out.append('%s.%s: attribute missing' % (path, f))
            continue
        if isinstance(ev, dict):
            out += compare(av, ev, text, spans, positions, kwfold, '%s.%s' % (path, f))
        elif isinstance(ev, list):
            av = list(av) if av is not None else None
            if av is None or len(av) != len(ev):
                out.append('%s.%s: expected %d children, got %s' % (path, f, len(ev), 'None' if av is None else len(av)))
            else:
                for i, (a, e) in enumerate(zip(av, ev)):
                    out += compare(a, e, text, spans, positions, kwfold, '%s.%s[%d]' % (path, f, i))
        else:
            if isinstance(ev, tuple) and ev[0] == 'kwtext':
                ev = spans[ev[1]][2]
                if kwfold:
                    ev = ev.lower()
                    av = av.lower() if isinstance(av, str) else av
            if av != ev:
                out.append('%s.%s: expected %r, got %r' % (path, f, ev, av))
    if positions and exp.get('track', True):
        s = spans[exp['first']][0]
        e = spans[exp['last']][1]
        pos = getattr(node, 'position', None)
        if pos is None:
            out.append('%s: no position recorded' % path)
        else:
            sl, sc = line_col(text, s)
            el, ec = line_col(text, e - 1)
            got = (pos.start_line, pos.start_column, pos.end_line, pos.end_column)
            if got != (sl, sc, el, ec):
                out.append('%s: position %s, expected %s for %r' % (path, got, (sl, sc, el, ec), text[s:e]))
            if node.character_stream != text[s:e]:
                out.append('%s: character_stream %r, expected %r' % (path, node.character_stream, text[s:e]))
    return out


def structure(node):
    '''Neutral dump of a real parse tree (for differential comparisons).'''
    if node is None:
        return None
    if isinstance(node, (str, int, float, bool)):
        return node
    d = [type(node).__name__]
    for k, v in sorted(vars(node).items()):
        if k in ('position', 'character_stream'):
            continue
        if isinstance(v, list):
            d.append((k, [structure(x) for x in v]))
        elif hasattr(v, '__dict__') and type(v).__module__.endswith('oal'):
            d.append((k, structure(v)))
        else:
            d.append((k, v))
    return d


# ---------------------------------------------------------------------------
# generators
# ---------------------------------------------------------------------------

def expr_trees(depth, binops, unops, leaves, leaves_deep=None):
    '''All expression trees of depth <= depth (a leaf has depth 1).  At the
    deepest level only *leaves_deep* (default: leaves) are used.'''
    leaves_deep = leaves if leaves_deep is None else leaves_deep
    memo = {}

    def exact(d):
        # trees of depth exactly d
        if d in memo:
            return memo[d]
        if d == 1:
            res = list(leaves if depth == 1 else leaves)
        else:
            below = [t for k in range(1, d) for t in exact(k)]
            top = exact(d - 1)
            res = []
            for op in unops:
                for t in top:
                    res.append(('un', op, t))
            top_set = set(map(id, top))
            for op in binops:
                for l in below:
                    for r in below:
                        if id(l) in top_set or id(r) in top_set:
                            res.append(('bin', op, l, r))
        memo[d] = res
        return res
    out = []
    for d in range(1, depth + 1):
        out += exact(d)
    return out


def count_nodes(e):
    if e[0] == 'bin':
        return 1 + count_nodes(e[2]) + count_nodes(e[3])
    if e[0] == 'un':
        return 1 + count_nodes(e[2])
    return 1


def selftest():
    p = print_expression(('bin', '*', ('bin', '+', ('var', 'a'), ('var', 'b')), ('un', '-', ('var', 'c'))))
    text, spans = assemble(p)
    assert text == 'x = ( a + b ) * - c ;', text
    p = print_expression(('bin', '-', ('var', 'a'), ('bin', '-', ('var', 'b'), ('var', 'c'))))
    assert assemble(p)[0] == 'x = a - ( b - c ) ;'
    p = print_expression(('bin', '-', ('bin', '-', ('var', 'a'), ('var', 'b')), ('var', 'c')))
    assert assemble(p)[0] == 'x = a - b - c ;'
    p = print_expression(('bin', '==', ('bin', '<', ('var', 'a'), ('var', 'b')), ('var', 'c')))
    assert assemble(p)[0] == 'x = ( a < b ) == c ;'
    p = print_expression(('un', 'not', ('bin', 'and', ('var', 'a'), ('var', 'b'))))
    assert assemble(p)[0] == 'x = not ( a and b ) ;'
    p = print_expression(('bin', 'and', ('un', 'not', ('var', 'a')), ('var', 'b')))
    assert assemble(p)[0] == 'x = not a and b ;'
    assert line_col('ab\ncd', 3) == (2, 1) and line_col('ab\ncd', 1) == (1, 2)
    n = len(expr_trees(2, ['+'], ['-'], [('var', 'a'), ('var', 'b')]))
    assert n == 2 + 2 + 4, n
