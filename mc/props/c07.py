'''
C07 -- OAL parsing follows the precedence table and ignores layout.
(Also provides the machinery C13's position oracle reuses.)

E2: every expression tree up to depth 3 over every binary and unary operator,
every operand kind, every statement production with every optional word, each
printed with minimal / full / redundant parentheses and under every
single-gap layout deviation, is parsed by the real parser (tables regenerated
from the grammar of the working tree) and compared strictly with the tree it
was printed from.
'''
import json

from mc.refs import oalast as A
from mc.refs import oalfam as F

NEEDS_BRIDGEPOINT = True
PROP = 'c07'
POSITIONS = False
BUDGET_S = {'quick': 3600, 'thorough': 14400}
ASSUMPTIONS = [
    'parser tables are regenerated from the grammar of the working tree (bootstrap), never the stale files in /repo',
    'a namespace and its "::" are one lexical unit (no gap is inserted there); "//" comments end with a line break',
    'exponent forms of reals are limited to those the dialect lexes as one token (1e3, 2.E+4, not 2.5e3)',
    'phrases and strings are content, not layout',
    'the parser is also called on pairs of texts that differ only in blank space inside literals/phrases or in the line break '
    'ending a // comment, one after the other in one process (a tree is a function of the text alone)',
    'the comma the grammar allows after the last item of a parameter list / event data list ("::f(a: 1, )") is an optional '
    'spelling of the same list: such texts must parse to the tree without it, alone, next to invocations / events with an empty '
    '"()" in the same text, and in ordered in-process pairs with them',
]


def parse(text):
    from bridgepoint import oal
    return oal.parse(text)


def check_text(ctx, prop, printed, layout_desc, positions, case, family):
    '''Assemble, parse and compare one program under one layout.'''
    from bridgepoint import oal
    text, spans = A.assemble(printed, F.layout_from(layout_desc))
    ctx.count('parses')
    try:
        root = oal.parse(text)
    except oal.ParseException as e:
        ctx.violation('%s:%s:parse-error' % (prop, family), dict(case, layout=layout_desc),
                      'well-formed text does not parse: %r: %s' % (text, e), 'a tree', str(e),
                      unit_test='from bridgepoint import oal\noal.parse(%r)' % text)
        return False
    except Exception as e:
        ctx.violation('%s:%s:crash:%s' % (prop, family, type(e).__name__), dict(case, layout=layout_desc),
                      'parsing %r raised %s: %s' % (text, type(e).__name__, e), 'a tree', type(e).__name__,
                      unit_test='from bridgepoint import oal\noal.parse(%r)' % text)
        return False
    diffs = A.compare(root, printed.expected, text, spans, positions=positions)
    if diffs:
        structural = [d for d in diffs if ': position ' not in d and 'character_stream' not in d and 'no position' not in d]
        kind = 'tree' if structural else 'position'
        ctx.violation('%s:%s:%s' % (prop, family, kind), dict(case, layout=layout_desc),
                      '%r parses to a different %s: %s' % (text, kind, '; '.join((structural or diffs)[:3])),
                      None, (structural or diffs)[:6],
                      unit_test='from bridgepoint import oal\nroot = oal.parse(%r)\n# %s' % (text, (structural or diffs)[0]))
        return False
    ctx.count('traces')
    return True


def expr_task(ctx, task):
    prop, positions, tier, items = task
    F.instrument_parser()
    for family, e in items:
        case = dict(kind='expr', family=family, expr=e)
        variants = [('minimal', 'default')]
        if tier == 'thorough' or family not in ('expr3', 'names'):
            variants.append(('full', 'default'))
        if positions:
            variants.append(('minimal', ['uniform', '\n']))
            if tier == 'thorough':
                variants.append(('minimal', ['uniform', ' /* c */ ']))
            elif ('full', 'default') in variants:
                variants.remove(('full', 'default'))
        for paren, lay in variants:
            p = A.print_expression(e, paren)
            ctx.count('programs')
            if check_text(ctx, prop, p, lay, positions, dict(case, paren=paren), family):
                ctx.distinct('trees', (family, repr(e)))
                if A.count_nodes(e) >= 3:
                    ctx.distinct('nontrivial', (family, repr(e)))
    for n in F._hits:
        ctx.distinct('productions', n)


def layout_task(ctx, task):
    prop, positions, tier, items = task
    F.instrument_parser()
    for family, name, stmts, paren in items:
        p = A.print_program(stmts, paren)
        case = dict(kind='stmts', family=family, name=name, stmts=stmts, paren=paren)
        pairs = (tier == 'thorough')
        for desc, _ in F.layouts(p, pairs=pairs):
            ctx.count('programs')
            ok = check_text(ctx, prop, p, desc, positions, case, family + ':' + (desc if isinstance(desc, str) else desc[0]))
            if ok:
                ctx.distinct('layouts', (name, repr(stmts), repr(desc)))
                ctx.distinct('nontrivial', (name, repr(stmts), repr(desc)))
    for n in F._hits:
        ctx.distinct('productions', n)


def near_items():
    '''Programs whose texts differ only in blank space where blank space is content (string literals, phrases) or is
    significant (the line break that ends a // comment): (statements, layout description).'''
    V, I = F.V, F.I
    x1 = ('assign', V('x'), I(1), False)
    y2 = ('assign', V('y'), I(2), False)
    items = []
    for lit in ('a  b', 'a b', 'a\tb', ' a b', 'a b ', 'ab'):
        items.append(([('assign', V('m'), ('str', lit), False)], 'default'))
        items.append(([x1, ('assign', V('m'), ('bin', '+', ('str', lit), ('str', 'a b')), False)], ['uniform', '\n']))
    for ph in ('is a', 'is  a', 'isa', ' is a'):
        items.append(([('relate', 'a', 'b', 'R1', F.T(ph), None)], 'default'))
    two = A.print_program([x1, y2])
    iy = [i for i, t in enumerate(two.toks) if t.text == 'y'][0]
    for gap in (' // reset\n', ' /* reset */ ', '\n', ' '):
        items.append(([x1, y2], ['gap', iy, gap]))
    items.append(([x1], ['trail', ' // reset y = 2;']))
    items.append(([x1], ['trail', ' /* reset\n*/ // y = 2;']))
    items.append(([x1], 'default'))
    # a list that ends with the optional comma after its last item, and the same invocation / event with an empty list or
    # without the comma: what one text was parsed to must not show in the tree of the next
    TC = A.TRAILING_COMMA
    a1 = [('a', F.I(1))]
    ab = [('a', F.I(1)), ('b', V('n'))]
    for mk in (lambda ps: ('call', None, ('fcall', 'f', ps)),
               lambda ps: ('call', 'bridge', ('ncall', 'EE', 'b', ps)),
               lambda ps: ('callassign', 'transform', V('v'), ('icall', V('x'), 'op', ps)),
               lambda ps: ('call', 'transform', ('ncall', 'K', 'cop', ps)),
               lambda ps: ('call', 'send', ('ncall', 'Port', 'msg', ps)),
               lambda ps: ('assign', V('r'), ('icall', ('self',), 'op', ps), False),
               lambda ps: ('portevent', 'Port', 'sig', ps, V('x')),
               lambda ps: ('gen', ('E1', False, None, ps), ('inst', V('x'))),
               lambda ps: ('createev', 'ev', ('E1', False, None, ps), ('class', 'K'))):
        for ps in (ab + [TC], [], a1):
            items.append(([mk(ps)], 'default'))
    items.append(([('gen', ('E1', False, None, None), ('inst', V('x')))], 'default'))      # event without a data list at all
    return items


def near_task(ctx, task):
    '''Ordered pairs of near-identical texts parsed one after the other in ONE process: the second must parse to its own tree.'''
    prop, positions, lo, hi = task
    from bridgepoint import oal
    items = near_items()
    pairs = [(i, j) for i in range(len(items)) for j in range(len(items))]
    for i, j in pairs[lo:hi]:
        pre_stmts, pre_layout = items[i]
        text, _ = A.assemble(A.print_program(pre_stmts), F.layout_from(pre_layout))
        ctx.count('parses')
        try:
            oal.parse(text)
        except Exception:
            pass        # judged when the item is the second of a pair
        stmts, layout = items[j]
        ctx.count('near_pairs')
        case = dict(kind='near', family='near', pre=[pre_stmts, pre_layout], stmts=stmts, paren='minimal')
        if check_text(ctx, prop, A.print_program(stmts), layout, positions, case, 'near'):
            ctx.distinct('nontrivial', ('near', i, j))


def near_count():
    return len(near_items()) ** 2


def chunks(seq, n):
    return [seq[i:i + n] for i in range(0, len(seq), n)]


def run_families(ctx, prop, positions):
    exprs = F.expression_family(ctx.tier) + F.group_family() + F.names_family(ctx.tier)
    k = ctx.seed % 7
    exprs = exprs[k:] + exprs[:k]
    ctx.pmap(expr_task, [(prop, positions, ctx.tier, c) for c in chunks(exprs, 400)])
    progs = [('stmt', name, stmts, 'minimal') for name, stmts in F.statement_family()]
    # expressions under layout deviations: multi-line expressions, comments between any two tokens
    lay_exprs = A.expr_trees(3, ['+', '*', '<', 'and', 'or', '%'], ['not', '-'], [('var', 'a')])
    lay_exprs = [e for e in lay_exprs if A.count_nodes(e) >= 4][:: (6 if ctx.quick else 1)]
    for e in lay_exprs:
        progs.append(('exprlayout', 'expr', [('assign', ('var', 'x'), e, False)], 'minimal'))
    for e in F.LEAVES_ALL:
        progs.append(('leaflayout', 'leaf', [('assign', ('var', 'x'), ('bin', '+', e, e), False)], 'minimal'))
    # the optional comma after the last item of a parameter / event data list
    for name, stmts in F.trailing_comma_family():
        progs.append(('trailcomma', name, stmts, 'minimal'))
    ctx.pmap(layout_task, [(prop, positions, ctx.tier, c) for c in chunks(progs, 4)])
    ctx.pmap(near_task, [(prop, positions, i, i + 60) for i in range(0, near_count(), 60)])
    ctx.require(ctx.n('near_pairs') >= 2000, 'too few pairs of near-identical texts (%d)' % ctx.n('near_pairs'))
    ctx.sample(dict(expression=exprs[len(exprs) // 2][1], text=A.assemble(A.print_expression(exprs[len(exprs) // 2][1]))[0]))
    nm, st = F.statement_family()[40]
    ctx.sample(dict(statement=nm, text=A.assemble(A.print_program(st), A.Layout(default='\n'))[0]))
    # vacuity guards
    missing = [n for n in F.production_names() if not _hit(ctx, n)]
    ctx.require(not missing, 'grammar productions never exercised: %s' % missing)
    ctx.require(ctx.nd('trees') >= 90000, 'too few expression trees parsed (%d)' % ctx.nd('trees'))
    ctx.require(ctx.nd('layouts') >= 20000, 'too few layouts parsed (%d)' % ctx.nd('layouts'))


def _hit(ctx, name):
    from mc import core
    return core.h64(name) in ctx.sets.get('productions', ())


def run(ctx):
    run_families(ctx, PROP, POSITIONS)


def replay_case(ctx, prop, positions, case):
    F.instrument_parser()
    if case['kind'] == 'expr':
        p = A.print_expression(case['expr'], case['paren'])
        check_text(ctx, prop, p, case.get('layout'), positions, case, case['family'])
    elif case['kind'] == 'near':
        # the run parses the pairs of one task in sequence in one process: replay every other item first, then the recorded
        # predecessor, then the item itself
        from bridgepoint import oal
        target = A.assemble(A.print_program(case['stmts']), F.layout_from(case.get('layout')))[0]
        for stmts, layout in near_items() + [tuple(case['pre'])]:
            text = A.assemble(A.print_program(stmts), F.layout_from(layout))[0]
            if text == target:
                continue
            try:
                oal.parse(text)
            except Exception:
                pass
        check_text(ctx, prop, A.print_program(case['stmts']), case.get('layout'), positions, case, 'near')
    else:
        p = A.print_program(case['stmts'], case['paren'])
        desc = case.get('layout')
        if desc not in (None, 'default'):
            # the run parses the layouts of one program in sequence in one process, the default layout first
            from bridgepoint import oal
            try:
                oal.parse(A.assemble(p, F.layout_from('default'))[0])
            except Exception:
                pass
        check_text(ctx, prop, p, desc, positions, case,
                   case['family'] + ':' + (desc if isinstance(desc, str) else desc[0]))


def replay(ctx, case):
    case = dict(case)
    layout = case.pop('layout', 'default')
    replay_case(ctx, PROP, POSITIONS, dict(case, layout=layout))


def coverage(ctx):
    return dict(
        states=ctx.nd('trees') + ctx.nd('layouts'),
        transitions=ctx.n('parses'),
        traces_validated_against_impl=ctx.n('traces'),
        evaluations=ctx.n('parses'),
        distinct_nontrivial=ctx.nd('nontrivial'),
        distinct_trees=ctx.nd('trees'), distinct_layouts=ctx.nd('layouts'),
        productions_exercised=ctx.nd('productions'), productions_total=len(F.production_names()),
        rule='states = distinct (expression tree) + distinct (program, layout) inputs parsed and compared; non-trivial = '
             'expression trees with at least three nodes, and every (statement program, layout) pair',
        bounds=dict(expression_depth=3 if ctx.quick else 4, binary_operators=len(A.BINARY_OPS), unary_operators=len(A.UNARY_OPS),
                    operand_kinds=len(F.LEAVES_ALL), statement_programs=len(F.statement_family()),
                    trailing_comma_programs=len(F.trailing_comma_family()), near_identical_items=len(near_items()),
                    gap_alternatives=F.GAP_ALTERNATIVES, layout_deviation_bound=1 if ctx.quick else 2),
        exhaustive=not ctx.caps_hit,
    )
