'''
C10 -- names are case-insensitive and every spelling addresses one stored value.

E1 search to closure over writes / deletes / relate / unrelate on one instance,
each name written in every case pattern; in every state every read route
(getattr under every spelling, serialisation, where_eq, dict filter) is
compared with a reference dict keyed by the upper-cased name.
'''
import itertools
import json

from mc import explorer

NEEDS_BRIDGEPOINT = False
ASSUMPTIONS = [
    'names of two or three letters, all 2^n case patterns; one observed instance plus one referred instance',
    'values from a three-value alphabet per attribute type',
    'after a deletion the statement only fixes that every spelling behaves alike; both "unset" and AttributeError are accepted',
]

SQL = ('CREATE TABLE Ab (Id UNIQUE_ID, Xy STRING, R_a UNIQUE_ID);\n'
       'CREATE TABLE Cd (Id UNIQUE_ID, Nm INTEGER);\n'
       "CREATE ROP REF_ID R1 FROM MC Ab (R_a) TO 1C Cd (Id);\n"
       'CREATE UNIQUE INDEX I1 ON Ab (Id);\n'
       'CREATE UNIQUE INDEX I1 ON Cd (Id);\n')
DECL = ['Id', 'Xy', 'R_a']
TYPES = {'ID': 'UNIQUE_ID', 'XY': 'STRING', 'R_A': 'UNIQUE_ID'}
VALS = {'XY': ['p', 'q', ''], 'ID': [7, 8]}


def spellings(name):
    letters = [i for i, ch in enumerate(name) if ch.isalpha()]
    out = []
    for bits in itertools.product((0, 1), repeat=len(letters)):
        ch = list(name.lower())
        for b, i in zip(bits, letters):
            if b:
                ch[i] = ch[i].upper()
        out.append(''.join(ch))
    return out


class World(object):
    pass


DELETED = '<deleted>'


class NameModel(explorer.Model):
    def __init__(self, tier, seed=0):
        self.tier = tier
        self.sp = dict((n.upper(), spellings(n)) for n in DECL)
        self.kinds = spellings('Ab')

    def case(self, hist, op):
        return dict(hist=hist, op=op, tier=self.tier)

    def build(self, hist):
        import xtuml
        w = World()
        l = xtuml.ModelLoader()
        l.input(SQL)
        w.m = l.build_metamodel(xtuml.IntegerGenerator())
        w.a = w.m.new('Ab')          # Id = 1
        w.c = w.m.new('Cd')          # Id = 2
        w.ref = {'ID': 1, 'XY': '', 'R_A': None}
        w.related = False
        w.written = set()
        w.last = {}
        for op in hist:
            self.step(w, op)
        return w

    def canon(self, w):
        try:
            proxy = sorted(w.a.__dict__.keys())
        except Exception:
            proxy = None
        return json.dumps([sorted(w.ref.items(), key=str), w.related, sorted(w.last.items()), proxy], default=repr)

    def enabled(self, w):
        ops = []
        for u in ('XY', 'ID'):
            for s in self.sp[u]:
                for v in VALS[u]:
                    ops.append(['set', s, v])
                ops.append(['del', s])
        for s in self.sp['R_A']:
            ops.append(['set', s, 2])
        ops.append(['relate'])
        if w.related:
            ops.append(['unrelate'])   # (unrelate of an unlinked pair: C02)
        # constructor forms: terminal transitions (checked, not expanded)
        for ks in self.kinds:
            for s in self.sp['XY']:
                ops.append(['new', ks, {s: 'q'}])
            for s in self.sp['ID']:
                ops.append(['new', ks, {s: 9}])
            for s in self.sp['R_A']:
                ops.append(['new', ks, {s: 2}])
            for s in self.sp['R_A']:
                ops.append(['new', ks, {s: 99}])      # a referential value that resolves to nothing
        ops.append(['newpos', 'Ab', [9, 'p', 99]])
        ops.append(['new', 'aB', {'xY': 'p', 'iD': 9, 'r_A': 2}])
        ops.append(['newpos', 'AB', [9, 'p', 2]])
        return ops

    def step(self, w, op):
        '''Apply op to implementation and reference; returns (got, expected).'''
        import xtuml
        name = op[0]
        try:
            if name == 'set':
                u = op[1].upper()
                if u == 'R_A':
                    exp = 'MetaException'
                else:
                    exp = 'ok'
                    w.ref[u] = op[2]
                    w.written.add(op[1])
                    w.last[u] = op[1]
                setattr(w.a, op[1], op[2])
                return 'ok', exp
            if name == 'del':
                u = op[1].upper()
                exp = 'ok' if w.ref[u] != DELETED else 'error'
                w.ref[u] = DELETED
                delattr(w.a, op[1])
                return 'ok', exp
            if name == 'relate':
                exp = 'True'
                w.related = True
                return repr(xtuml.relate(w.a, w.c, 1)), exp
            if name == 'unrelate':
                exp = 'True' if w.related else 'UnrelateException'
                w.related = False
                return repr(xtuml.unrelate(w.a, w.c, 1)), exp
        except xtuml.MetaException as e:
            return ('MetaException' if type(e).__name__ == 'MetaException' else type(e).__name__), exp
        except (AttributeError, KeyError) as e:
            return 'error', exp
        raise ValueError(op)

    def expected_read(self, w, u):
        if u == 'R_A':
            if w.related:
                return w.ref['ID'] if False else 2      # identifying attribute of the linked Cd instance
            return None
        return w.ref[u]

    def apply(self, ctx, w, op, hist):
        import xtuml
        case = self.case(hist, op)

        def bad(kind, msg, exp=None, got=None):
            ctx.violation('c10:%s' % kind, case, 'history %s, then %s: %s' % (hist, op, msg), exp, got,
                          unit_test=unit_test(hist, op))
        if op[0] in ('new', 'newpos'):
            return self.apply_new(ctx, w, op, bad)
        ctx.count('traces')
        got, exp = self.step(w, op)
        ctx.distinct('outcomes', (op[0], got))
        if got != exp:
            kind = '%s:outcome' % op[0]
            if op[0] == 'del' and exp == 'error':
                # deleting an attribute that is already deleted: accept any failure, but it must not succeed
                # silently on *another* attribute; that is checked by the reads below
                pass
            else:
                bad(kind, 'outcome %s, expected %s' % (got, exp), exp, got)
                return False
        return self.check_reads(ctx, w, bad, op[0])

    def apply_new(self, ctx, w, op, bad):
        import xtuml
        ctx.count('traces')
        exp = {'ID': None, 'XY': '', 'R_A': None}
        try:
            if op[0] == 'new':
                inst = w.m.new(op[1], **op[2])
                for k, v in op[2].items():
                    exp[k.upper()] = v
            else:
                inst = w.m.new(op[1], *op[2])
                exp = {'ID': op[2][0], 'XY': op[2][1], 'R_A': op[2][2]}
        except Exception as e:
            bad('new:exception', 'creation raised %s: %s' % (type(e).__name__, e), 'instance', type(e).__name__)
            return False
        ctx.distinct('outcomes', ('new', 'ok'))
        if exp['R_A'] != 2:
            exp['R_A'] = None          # a referential value that matches no instance links nothing
        got = {}
        for u, decl in (('ID', 'Id'), ('XY', 'Xy'), ('R_A', 'R_a')):
            got[u] = getattr(inst, decl)
        if exp['ID'] is None:
            exp['ID'] = got['ID']      # defaulted id: any fresh value
        if got != exp:
            bad('new:values', 'created instance reads %s, expected %s' % (got, exp), exp, got)
            return False
        # every spelling of every attribute of the new instance reads the same value, and queries agree
        for u in ('ID', 'XY', 'R_A'):
            for s in self.sp[u]:
                ctx.count('reads')
                g = getattr(inst, s)
                if g != exp[u]:
                    bad('new:read', 'created instance reads %r under the spelling %r but %r under the declared one' % (g, s, exp[u]),
                        exp[u], g)
                    return False
                if exp[u] is not None and DELETED not in w.ref.values():
                    hit = inst in list(w.m.select_many('Ab', xtuml.where_eq(**{s: exp[u]})))
                    if not hit:
                        bad('new:where_eq', 'where_eq(%s=%r) misses the created instance' % (s, exp[u]), True, hit)
                        return False
        return False       # terminal: constructor forms are not expanded further

    def check_reads(self, ctx, w, bad, opname):
        import xtuml
        a = w.a
        for u in ('ID', 'XY', 'R_A'):
            exp = self.expected_read(w, u)
            seen = []
            for s in self.sp[u]:
                ctx.count('reads')
                try:
                    got = getattr(a, s)
                except AttributeError:
                    got = DELETED
                seen.append(got)
                if exp == DELETED:
                    continue
                if got != exp:
                    bad('%s:read' % opname, 'reading %r gives %r, expected %r (written spellings so far: %s)' %
                        (s, got, exp, sorted(w.written)), exp, got)
                    return False
            if exp == DELETED:
                norm = [DELETED if g in (None, DELETED) else g for g in seen]
                if len(set(map(repr, norm))) != 1 or norm[0] != DELETED:
                    bad('%s:read-after-delete' % opname, 'after deletion the spellings %s read %s' % (self.sp[u], seen),
                        'all alike and unset', seen)
                    return False
        # the value serialised and the value matched by queries
        if DELETED not in w.ref.values():
            text = xtuml.serialize_instance(a)
            exp_text = self.expected_text(w)
            ctx.count('reads')
            if norm_text(text) != norm_text(exp_text):
                bad('%s:serialize' % opname, 'serialize_instance gives %r, expected %r' % (text, exp_text), exp_text, text)
                return False
            for u in ('ID', 'XY'):
                for s in self.sp[u]:
                    for v in VALS[u]:
                        for form in ('kw', 'dict'):
                            ctx.count('reads')
                            q = xtuml.where_eq(**{s: v}) if form == 'kw' else {s: v}
                            hit = a in list(w.m.select_many(self.kinds[len(s) % 4], q))
                            if hit != (w.ref[u] == v):
                                bad('%s:where_eq' % opname, 'where_eq(%s=%r) %s the instance whose value is %r' %
                                    (s, v, 'matches' if hit else 'misses', w.ref[u]), w.ref[u] == v, hit)
                                return False
        return True

    def expected_text(self, w):
        import xtuml
        vals = [xtuml.serialize_value(w.ref['ID'], 'UNIQUE_ID'), xtuml.serialize_value(w.ref['XY'], 'STRING'),
                xtuml.serialize_value(2 if w.related else None, 'UNIQUE_ID')]
        return 'INSERT INTO Ab VALUES (%s);' % ', '.join(vals)

    def probes(self, ctx, w, hist):
        import xtuml
        case = self.case(hist, ['probe'])

        def bad(kind, msg, exp=None, got=None):
            ctx.violation('c10:%s' % kind, case, 'state %s: %s' % (hist, msg), exp, got)
        self.check_reads(ctx, w, bad, 'state')
        mc = w.m.find_metaclass('Ab')
        for ks in self.kinds:
            ctx.count('reads')
            if w.m.find_metaclass(ks) is not mc or w.m.find_class(ks) is not mc.clazz:
                bad('find_metaclass', 'find_metaclass(%r) is another object' % ks)
            if w.a not in list(w.m.select_many(ks)) or w.m.select_any(ks) is not w.a:
                bad('select', 'select_many(%r) does not return the instance' % ks)
        # a class name that is already defined is rejected under every spelling
        for ks in self.kinds + ['AB ']:
            if ks.strip() != ks:
                continue
            ctx.count('reads')
            try:
                w.m.define_class(ks, [('Zz', 'integer')])
                redefined = True
            except xtuml.MetaException:
                redefined = False
            if redefined or w.m.find_metaclass('Ab') is not mc:
                bad('define_class', 'define_class(%r) replaced the existing class Ab' % ks, 'MetaModelException', 'accepted')
                break
        # equality filters with null-ish values: every spelling of the key gives the same answer
        if DELETED not in w.ref.values():
            for u in ('ID', 'R_A'):
                for v in (0, None):
                    answers = []
                    for s in self.sp[u]:
                        ctx.count('reads')
                        for q in (xtuml.where_eq(**{s: v}), {s: v}):
                            answers.append(w.a in list(w.m.select_many('ab', q)))
                    if len(set(answers)) != 1:
                        bad('where_eq:null', 'where_eq(<spelling of %s>=%r) matches under some spellings only: %s' %
                            (u, v, list(zip(self.sp[u], answers[::2]))), 'the same answer under every spelling', answers)
        for u in ('ID', 'XY', 'R_A'):
            for s in self.sp[u]:
                ctx.count('reads')
                t = mc.attribute_type(s)
                if t is None or t.upper() != TYPES[u]:
                    bad('attribute_type', 'attribute_type(%r) is %r' % (s, t), TYPES[u], t)


def norm_text(text):
    import re
    text = re.sub(r'--[^\n]*', '', text)
    return re.sub(r'\s+', '', text)


def unit_test(hist, op):
    lines = ['import xtuml', 'l = xtuml.ModelLoader()', 'l.input(%r)' % SQL,
             'm = l.build_metamodel(xtuml.IntegerGenerator())', "a = m.new('Ab'); c = m.new('Cd')"]

    def stmt(o):
        if o[0] == 'set':
            return 'a.%s = %r' % (o[1], o[2])
        if o[0] == 'del':
            return 'del a.%s' % o[1]
        if o[0] in ('relate', 'unrelate'):
            return 'xtuml.%s(a, c, 1)' % o[0]
        if o[0] == 'new':
            return 'b = m.new(%r, **%r)' % (o[1], o[2])
        return 'b = m.new(%r, *%r)' % (o[1], o[2])
    for o in hist:
        lines.append(stmt(o))
    lines.append(stmt(op) + '   # <- failing step')
    lines.append('print([(s, getattr(a, s, None)) for s in %r])' % (spellings('Xy') + spellings('Id') + spellings('R_a'),))
    return '\n'.join(lines)


def run(ctx):
    m = NameModel(ctx.tier, ctx.seed)
    res = explorer.bfs(ctx, m, chunk=4, label='names')
    print('  states=%d depth=%d closed=%s' % (res['states'], res['depth'], res['closed']))
    hs = sorted(res['seen'].values(), key=lambda h: (len(h), repr(h)))
    for h in hs[-3:]:
        ctx.sample(dict(history=h))
    ctx.require(res['states'] >= 100, 'too few states (%d)' % res['states'])
    ctx.require(ctx.n('reads') >= 10000, 'too few reads compared')
    ctx.require(ctx.nd('outcomes') >= 6, 'too few distinct outcomes (%d)' % ctx.nd('outcomes'))


def replay(ctx, case):
    m = NameModel(case.get('tier', 'quick'))
    explorer.replay_case(ctx, m, case['hist'], case.get('op'))


def coverage(ctx):
    closed = all(v.get('closed') for v in ctx.notes.values() if isinstance(v, dict))
    return dict(
        states=ctx.n('states'), transitions=ctx.n('transitions'),
        traces_validated_against_impl=ctx.n('traces'),
        evaluations=ctx.n('transitions') + ctx.n('reads'),
        reads_compared=ctx.n('reads'),
        distinct_nontrivial=ctx.n('states'),
        distinct_outcomes=ctx.nd('outcomes'),
        rule='closure over (reference values, relate flag, set of spellings written, keys of the instance dict); in every '
             'state every write/delete under every case pattern, relate/unrelate and every constructor form is executed and '
             'every read route compared; distinct_nontrivial = number of distinct canonical states',
        bounds=dict(names=DECL, case_patterns='all 2^n', values=VALS),
        exhaustive=bool(closed) and not ctx.caps_hit,
    )
