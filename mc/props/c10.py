'''
C10 -- names are case-insensitive and every spelling addresses one stored value.

E1 search to closure over writes / deletes / relate / unrelate on one instance,
each name written in every case pattern; in every state every read route
(getattr under every spelling, serialisation, where_eq, dict filter) is
compared with a reference dict keyed by the upper-cased name.

Second family ("twins"): two observed instances of two classes whose attribute
names differ only in letter case (Id/iD, _Tg/_tG -- one plain name with a
leading underscore, one identifying name, one referential name with a leading
underscore), in one metamodel (linked) or in two metamodels of the same process
(unlinked). Every write/delete/constructor form on either instance is
followed by every read route on BOTH instances, so a spelling resolved for one
class is afterwards used on the other.
'''
import itertools
import json

from mc import explorer

NEEDS_BRIDGEPOINT = False
ASSUMPTIONS = [
    'names of two or three letters, all 2^n case patterns; one observed instance plus one referred instance',
    'values from a three-value alphabet per attribute type',
    'after a deletion the statement only fixes that every spelling behaves alike; both "unset" and AttributeError are accepted',
    'twin family: two classes Pq(Id, _Tg) / Rs(iD, _tG, _Rf) whose attribute names differ only in letter case, names with a '
    'leading underscore (plain and referential); layouts: one metamodel with the pair linked, two metamodels (pair '
    'unlinked); two values per attribute, deletion of the plain attribute only; constructor keywords under every attribute spelling (class spelling cycled)',
]

SQL = ('CREATE TABLE Ab (Id UNIQUE_ID, Xy STRING, R_a UNIQUE_ID);\n'
       'CREATE TABLE Cd (Id UNIQUE_ID, Nm INTEGER);\n'
       "CREATE ROP REF_ID R1 FROM MC Ab (R_a) TO 1C Cd (Id);\n"
       'CREATE UNIQUE INDEX I1 ON Ab (Id);\n'
       'CREATE UNIQUE INDEX I1 ON Cd (Id);\n')
DECL = ['Id', 'Xy', 'R_a']
TYPES = {'ID': 'UNIQUE_ID', 'XY': 'STRING', 'R_A': 'UNIQUE_ID'}
VALS = {'XY': ['p', 'q', ''], 'ID': [7, 8]}


def spellings(name):
    letters = [i for i, ch in enumerate(name) if ch.isalpha()]
    out = []
    for bits in itertools.product((0, 1), repeat=len(letters)):
        ch = list(name.lower())
        for b, i in zip(bits, letters):
            if b:
                ch[i] = ch[i].upper()
        out.append(''.join(ch))
    return out


class World(object):
    pass


DELETED = '<deleted>'


class NameModel(explorer.Model):
    def __init__(self, tier, seed=0):
        self.tier = tier
        self.sp = dict((n.upper(), spellings(n)) for n in DECL)
        self.kinds = spellings('Ab')

    def case(self, hist, op):
        return dict(hist=hist, op=op, tier=self.tier)

    def build(self, hist):
        import xtuml
        w = World()
        l = xtuml.ModelLoader()
        l.input(SQL)
        w.m = l.build_metamodel(xtuml.IntegerGenerator())
        w.a = w.m.new('Ab')          # Id = 1
        w.c = w.m.new('Cd')          # Id = 2
        w.ref = {'ID': 1, 'XY': '', 'R_A': None}
        w.related = False
        w.written = set()
        w.last = {}
        for op in hist:
            self.step(w, op)
        return w

    def canon(self, w):
        try:
            proxy = sorted(w.a.__dict__.keys())
        except Exception:
            proxy = None
        return json.dumps([sorted(w.ref.items(), key=str), w.related, sorted(w.last.items()), proxy], default=repr)

    def enabled(self, w):
        ops = []
        for u in ('XY', 'ID'):
            for s in self.sp[u]:
                for v in VALS[u]:
                    ops.append(['set', s, v])
                ops.append(['del', s])
        for s in self.sp['R_A']:
            ops.append(['set', s, 2])
        ops.append(['relate'])
        if w.related:
            ops.append(['unrelate'])   # (unrelate of an unlinked pair: C02)
        # constructor forms: terminal transitions (checked, not expanded)
        for ks in self.kinds:
            for s in self.sp['XY']:
                ops.append(['new', ks, {s: 'q'}])
            for s in self.sp['ID']:
                ops.append(['new', ks, {s: 9}])
            for s in self.sp['R_A']:
                ops.append(['new', ks, {s: 2}])
            for s in self.sp['R_A']:
                ops.append(['new', ks, {s: 99}])      # a referential value that resolves to nothing
        ops.append(['newpos', 'Ab', [9, 'p', 99]])
        ops.append(['new', 'aB', {'xY': 'p', 'iD': 9, 'r_A': 2}])
        ops.append(['newpos', 'AB', [9, 'p', 2]])
        return ops

    def step(self, w, op):
        '''Apply op to implementation and reference; returns (got, expected).'''
        import xtuml
        name = op[0]
        try:
            if name == 'set':
                u = op[1].upper()
                if u == 'R_A':
                    exp = 'MetaException'
                else:
                    exp = 'ok'
                    w.ref[u] = op[2]
                    w.written.add(op[1])
                    w.last[u] = op[1]
                setattr(w.a, op[1], op[2])
                return 'ok', exp
            if name == 'del':
                u = op[1].upper()
                exp = 'ok' if w.ref[u] != DELETED else 'error'
                w.ref[u] = DELETED
                delattr(w.a, op[1])
                return 'ok', exp
            if name == 'relate':
                exp = 'True'
                w.related = True
                return repr(xtuml.relate(w.a, w.c, 1)), exp
            if name == 'unrelate':
                exp = 'True' if w.related else 'UnrelateException'
                w.related = False
                return repr(xtuml.unrelate(w.a, w.c, 1)), exp
        except xtuml.MetaException as e:
            return ('MetaException' if type(e).__name__ == 'MetaException' else type(e).__name__), exp
        except (AttributeError, KeyError) as e:
            return 'error', exp
        raise ValueError(op)

    def expected_read(self, w, u):
        if u == 'R_A':
            if w.related:
                return w.ref['ID'] if False else 2      # identifying attribute of the linked Cd instance
            return None
        return w.ref[u]

    def apply(self, ctx, w, op, hist):
        import xtuml
        case = self.case(hist, op)

        def bad(kind, msg, exp=None, got=None):
            ctx.violation('c10:%s' % kind, case, 'history %s, then %s: %s' % (hist, op, msg), exp, got,
                          unit_test=unit_test(hist, op))
        if op[0] in ('new', 'newpos'):
            return self.apply_new(ctx, w, op, bad)
        ctx.count('traces')
        got, exp = self.step(w, op)
        ctx.distinct('outcomes', (op[0], got))
        if got != exp:
            kind = '%s:outcome' % op[0]
            if op[0] == 'del' and exp == 'error':
                # deleting an attribute that is already deleted: accept any failure, but it must not succeed
                # silently on *another* attribute; that is checked by the reads below
                pass
            else:
                bad(kind, 'outcome %s, expected %s' % (got, exp), exp, got)
                return False
        return self.check_reads(ctx, w, bad, op[0])

    def apply_new(self, ctx, w, op, bad):
        import xtuml
        ctx.count('traces')
        exp = {'ID': None, 'XY': '', 'R_A': None}
        try:
            if op[0] == 'new':
                inst = w.m.new(op[1], **op[2])
                for k, v in op[2].items():
                    exp[k.upper()] = v
            else:
                inst = w.m.new(op[1], *op[2])
                exp = {'ID': op[2][0], 'XY': op[2][1], 'R_A': op[2][2]}
        except Exception as e:
            bad('new:exception', 'creation raised %s: %s' % (type(e).__name__, e), 'instance', type(e).__name__)
            return False
        ctx.distinct('outcomes', ('new', 'ok'))
        if exp['R_A'] != 2:
            exp['R_A'] = None          # a referential value that matches no instance links nothing
        got = {}
        for u, decl in (('ID', 'Id'), ('XY', 'Xy'), ('R_A', 'R_a')):
            got[u] = getattr(inst, decl)
        if exp['ID'] is None:
            exp['ID'] = got['ID']      # defaulted id: any fresh value
        if got != exp:
            bad('new:values', 'created instance reads %s, expected %s' % (got, exp), exp, got)
            return False
        # every spelling of every attribute of the new instance reads the same value, and queries agree
        for u in ('ID', 'XY', 'R_A'):
            for s in self.sp[u]:
                ctx.count('reads')
                g = getattr(inst, s)
                if g != exp[u]:
                    bad('new:read', 'created instance reads %r under the spelling %r but %r under the declared one' % (g, s, exp[u]),
                        exp[u], g)
                    return False
                if exp[u] is not None and DELETED not in w.ref.values():
                    hit = inst in list(w.m.select_many('Ab', xtuml.where_eq(**{s: exp[u]})))
                    if not hit:
                        bad('new:where_eq', 'where_eq(%s=%r) misses the created instance' % (s, exp[u]), True, hit)
                        return False
        return False       # terminal: constructor forms are not expanded further

    def check_reads(self, ctx, w, bad, opname):
        import xtuml
        a = w.a
        for u in ('ID', 'XY', 'R_A'):
            exp = self.expected_read(w, u)
            seen = []
            for s in self.sp[u]:
                ctx.count('reads')
                try:
                    got = getattr(a, s)
                except AttributeError:
                    got = DELETED
                seen.append(got)
                if exp == DELETED:
                    continue
                if got != exp:
                    bad('%s:read' % opname, 'reading %r gives %r, expected %r (written spellings so far: %s)' %
                        (s, got, exp, sorted(w.written)), exp, got)
                    return False
            if exp == DELETED:
                norm = [DELETED if g in (None, DELETED) else g for g in seen]
                if len(set(map(repr, norm))) != 1 or norm[0] != DELETED:
                    bad('%s:read-after-delete' % opname, 'after deletion the spellings %s read %s' % (self.sp[u], seen),
                        'all alike and unset', seen)
                    return False
        # the value serialised and the value matched by queries
        if DELETED not in w.ref.values():
            text = xtuml.serialize_instance(a)
            exp_text = self.expected_text(w)
            ctx.count('reads')
            if norm_text(text) != norm_text(exp_text):
                bad('%s:serialize' % opname, 'serialize_instance gives %r, expected %r' % (text, exp_text), exp_text, text)
                return False
            for u in ('ID', 'XY'):
                for s in self.sp[u]:
                    for v in VALS[u]:
                        for form in ('kw', 'dict'):
                            ctx.count('reads')
                            q = xtuml.where_eq(**{s: v}) if form == 'kw' else {s: v}
                            hit = a in list(w.m.select_many(self.kinds[len(s) % 4], q))
                            if hit != (w.ref[u] == v):
                                bad('%s:where_eq' % opname, 'where_eq(%s=%r) %s the instance whose value is %r' %
                                    (s, v, 'matches' if hit else 'misses', w.ref[u]), w.ref[u] == v, hit)
                                return False
        return True

    def expected_text(self, w):
        import xtuml
        vals = [xtuml.serialize_value(w.ref['ID'], 'UNIQUE_ID'), xtuml.serialize_value(w.ref['XY'], 'STRING'),
                xtuml.serialize_value(2 if w.related else None, 'UNIQUE_ID')]
        return 'INSERT INTO Ab VALUES (%s);' % ', '.join(vals)

    def probes(self, ctx, w, hist):
        import xtuml
        case = self.case(hist, ['probe'])

        def bad(kind, msg, exp=None, got=None):
            ctx.violation('c10:%s' % kind, case, 'state %s: %s' % (hist, msg), exp, got)
        self.check_reads(ctx, w, bad, 'state')
        mc = w.m.find_metaclass('Ab')
        for ks in self.kinds:
            ctx.count('reads')
            if w.m.find_metaclass(ks) is not mc or w.m.find_class(ks) is not mc.clazz:
                bad('find_metaclass', 'find_metaclass(%r) is another object' % ks)
            if w.a not in list(w.m.select_many(ks)) or w.m.select_any(ks) is not w.a:
                bad('select', 'select_many(%r) does not return the instance' % ks)
        # a class name that is already defined is rejected under every spelling
        for ks in self.kinds + ['AB ']:
            if ks.strip() != ks:
                continue
            ctx.count('reads')
            try:
                w.m.define_class(ks, [('Zz', 'integer')])
                redefined = True
            except xtuml.MetaException:
                redefined = False
            if redefined or w.m.find_metaclass('Ab') is not mc:
                bad('define_class', 'define_class(%r) replaced the existing class Ab' % ks, 'MetaModelException', 'accepted')
                break
        # equality filters with null-ish values: every spelling of the key gives the same answer
        if DELETED not in w.ref.values():
            for u in ('ID', 'R_A'):
                for v in (0, None):
                    answers = []
                    for s in self.sp[u]:
                        ctx.count('reads')
                        for q in (xtuml.where_eq(**{s: v}), {s: v}):
                            answers.append(w.a in list(w.m.select_many('ab', q)))
                    if len(set(answers)) != 1:
                        bad('where_eq:null', 'where_eq(<spelling of %s>=%r) matches under some spellings only: %s' %
                            (u, v, list(zip(self.sp[u], answers[::2]))), 'the same answer under every spelling', answers)
        for u in ('ID', 'XY', 'R_A'):
            for s in self.sp[u]:
                ctx.count('reads')
                t = mc.attribute_type(s)
                if t is None or t.upper() != TYPES[u]:
                    bad('attribute_type', 'attribute_type(%r) is %r' % (s, t), TYPES[u], t)


# ---------------------------------------------------------------------------------------------------------------------
# twin family: two classes whose attribute names differ only in letter case; names with a leading underscore
# ---------------------------------------------------------------------------------------------------------------------
TWIN_SQL = ('CREATE TABLE Pq (Id UNIQUE_ID, _Tg STRING);\n'
            'CREATE TABLE Rs (iD UNIQUE_ID, _tG STRING, _Rf UNIQUE_ID);\n'
            'CREATE ROP REF_ID R2 FROM MC Rs (_Rf) TO 1C Pq (Id);\n'
            'CREATE UNIQUE INDEX I1 ON Pq (Id);\n'
            'CREATE UNIQUE INDEX I1 ON Rs (iD);\n')
TWIN_KIND = {'p': 'Pq', 'r': 'Rs'}
TWIN_DECL = {'p': ['Id', '_Tg'], 'r': ['iD', '_tG', '_Rf']}
TWIN_TYPES = {'ID': 'UNIQUE_ID', '_TG': 'STRING', '_RF': 'UNIQUE_ID'}
TWIN_VALS = {'ID': [7, 8], '_TG': ['', 'q']}       # the initial values are members of the alphabet
TWIN_LAYOUTS = ['linked', 'separate']
TWIN_DELETABLE = ('_TG',)                         # (deleting an identifying attribute: first family)


class TwinModel(explorer.Model):
    def __init__(self, tier, layout, seed=0):
        self.tier = tier
        self.layout = layout
        self.sp = dict((n, spellings(n)) for n in ('ID', '_TG', '_RF'))
        self.kinds = dict((who, spellings(k)) for who, k in TWIN_KIND.items())

    def case(self, hist, op):
        return dict(family='twin', layout=self.layout, hist=hist, op=op, tier=self.tier)

    def build(self, hist):
        import xtuml
        w = World()
        l = xtuml.ModelLoader()
        l.input(TWIN_SQL)
        mp = l.build_metamodel(xtuml.IntegerGenerator())
        mr = mp if self.layout != 'separate' else l.build_metamodel(xtuml.IntegerGenerator())
        w.m = {'p': mp, 'r': mr}
        w.inst = {'p': mp.new('Pq', Id=7), 'r': mr.new('Rs', iD=8)}
        w.ref = {'p': {'ID': 7, '_TG': ''}, 'r': {'ID': 8, '_TG': ''}}
        w.linked = False
        if self.layout == 'linked':
            xtuml.relate(w.inst['r'], w.inst['p'], 2)
            w.linked = True
        w.written = set()
        for op in hist:
            self.step(w, op)
        return w

    def canon(self, w):
        proxy = []
        for who in ('p', 'r'):
            try:
                proxy.append(sorted(w.inst[who].__dict__.keys()))
            except Exception:
                proxy.append(None)
        return json.dumps([sorted(w.ref['p'].items()), sorted(w.ref['r'].items()), proxy], default=repr)

    def enabled(self, w):
        ops = []
        for who in ('p', 'r'):
            for u in ('ID', '_TG'):
                for s in self.sp[u]:
                    for v in TWIN_VALS[u]:
                        ops.append(['set', who, s, v])
                    if u in TWIN_DELETABLE:
                        ops.append(['del', who, s])
        for s in self.sp['_RF']:
            ops.append(['set', 'r', s, 7])
        # constructor keywords: terminal transitions (checked, not expanded); the product class spelling x attribute
        # spelling is covered by the first family, here the class spelling is cycled
        for who in ('p', 'r'):
            n = 0
            for u in ('ID', '_TG'):
                for s in self.sp[u]:
                    ops.append(['new', who, self.kinds[who][n % 4], {s: TWIN_VALS[u][1]}])
                    n += 1
        for s in self.sp['_RF']:
            ops.append(['new', 'r', self.kinds['r'][n % 4], {s: 7}])
            n += 1
        return ops

    def step(self, w, op):
        import xtuml
        name, who = op[0], op[1]
        u = op[2].upper()
        try:
            if name == 'set':
                if u == '_RF':
                    exp = 'MetaException'
                else:
                    exp = 'ok'
                    w.ref[who][u] = op[3]
                    w.written.add((who, op[2]))
                setattr(w.inst[who], op[2], op[3])
                return 'ok', exp
            if name == 'del':
                exp = 'ok' if w.ref[who][u] != DELETED else 'error'
                w.ref[who][u] = DELETED
                delattr(w.inst[who], op[2])
                return 'ok', exp
        except xtuml.MetaException as e:
            return ('MetaException' if type(e).__name__ == 'MetaException' else type(e).__name__), exp
        except (AttributeError, KeyError) as e:
            return 'error', exp
        raise ValueError(op)

    def expected(self, w, who, u):
        if u == '_RF':
            return w.ref['p']['ID'] if w.linked else None
        return w.ref[who][u]

    def attrs(self, who):
        return ('ID', '_TG') if who == 'p' else ('ID', '_TG', '_RF')

    def apply(self, ctx, w, op, hist):
        case = self.case(hist, op)

        def bad(kind, msg, exp=None, got=None):
            ctx.violation('c10:twin:%s' % kind, case, '[%s] history %s, then %s: %s' % (self.layout, hist, op, msg), exp, got,
                          unit_test=twin_unit_test(self.layout, hist, op))
        ctx.count('traces')
        ctx.count('twin_traces')
        if op[0] == 'new':
            return self.apply_new(ctx, w, op, bad)
        got, exp = self.step(w, op)
        ctx.distinct('outcomes', (op[0], got))
        if got != exp and not (op[0] == 'del' and exp == 'error'):
            bad('%s:outcome' % op[0], 'outcome %s, expected %s' % (got, exp), exp, got)
            return False
        return self.check_reads(ctx, w, bad, op[0])

    def apply_new(self, ctx, w, op, bad):
        import xtuml
        who = op[1]
        m = w.m[who]
        exp = dict((u, None if u != '_TG' else '') for u in self.attrs(who))
        try:
            inst = m.new(op[2], **op[3])
        except Exception as e:
            bad('new:exception', 'creation raised %s: %s' % (type(e).__name__, e), 'instance', type(e).__name__)
            return False
        for k, v in op[3].items():
            exp[k.upper()] = v
        if '_RF' in exp and not (exp['_RF'] is not None and w.ref['p']['ID'] == exp['_RF'] and self.layout != 'separate'):
            exp['_RF'] = None          # a referential value that matches no instance links nothing
        decl = dict((d.upper(), d) for d in TWIN_DECL[who])
        got = dict((u, getattr(inst, decl[u], DELETED)) for u in exp)
        if exp['ID'] is None:
            exp['ID'] = got['ID']      # defaulted id: any fresh value
        if got != exp:
            bad('new:values', 'created instance reads %s, expected %s' % (got, exp), exp, got)
            return False
        can_query = DELETED not in list(w.ref['p'].values()) + list(w.ref['r'].values())
        for u in self.attrs(who):
            for s in self.sp[u]:
                ctx.count('reads')
                g = getattr(inst, s, DELETED)
                if g != exp[u]:
                    bad('new:read', 'created instance reads %r under the spelling %r but %r under the declared one' %
                        (g, s, exp[u]), exp[u], g)
                    return False
                if exp[u] is not None and can_query:
                    hit = inst in list(m.select_many(TWIN_KIND[who], xtuml.where_eq(**{s: exp[u]})))
                    if not hit:
                        bad('new:where_eq', 'where_eq(%s=%r) misses the created instance' % (s, exp[u]), True, hit)
                        return False
        # ... and the instances that existed before still read as before under every spelling
        self.check_reads(ctx, w, bad, 'new')
        return False       # terminal

    def check_reads(self, ctx, w, bad, opname):
        import xtuml
        for who in ('p', 'r'):
            inst = w.inst[who]
            for u in self.attrs(who):
                exp = self.expected(w, who, u)
                seen = []
                for s in self.sp[u]:
                    ctx.count('reads')
                    try:
                        got = getattr(inst, s)
                    except AttributeError:
                        got = DELETED
                    seen.append(got)
                    if exp != DELETED and got != exp:
                        bad('%s:read' % opname, 'reading %s.%s gives %r, expected %r (written spellings so far: %s)' %
                            (who, s, got, exp, sorted(w.written)), exp, got)
                        return False
                if exp == DELETED:
                    norm = [DELETED if g in (None, DELETED) else g for g in seen]
                    if len(set(map(repr, norm))) != 1 or norm[0] != DELETED:
                        bad('%s:read-after-delete' % opname, 'after deletion the spellings %s of %s read %s' %
                            (self.sp[u], who, seen), 'all alike and unset', seen)
                        return False
        if DELETED in list(w.ref['p'].values()) + list(w.ref['r'].values()):
            return True
        # the value serialised and the value matched by queries
        for who in ('p', 'r'):
            inst = w.inst[who]
            text = xtuml.serialize_instance(inst)
            vals = [xtuml.serialize_value(self.expected(w, who, u), TWIN_TYPES[u]) for u in self.attrs(who)]
            exp_text = 'INSERT INTO %s VALUES (%s);' % (TWIN_KIND[who], ', '.join(vals))
            ctx.count('reads')
            if norm_text(text) != norm_text(exp_text):
                bad('%s:serialize' % opname, 'serialize_instance(%s) gives %r, expected %r' % (who, text, exp_text), exp_text, text)
                return False
            for u in self.attrs(who):
                for s in self.sp[u]:
                    for v in TWIN_VALS['ID' if u == '_RF' else u]:
                        for form in ('kw', 'dict'):
                            ctx.count('reads')
                            q = xtuml.where_eq(**{s: v}) if form == 'kw' else {s: v}
                            hit = inst in list(w.m[who].select_many(self.kinds[who][len(s) % 4], q))
                            want = self.expected(w, who, u) == v
                            if hit != want:
                                bad('%s:where_eq' % opname, 'where_eq(%s=%r) %s the %s instance whose value is %r' %
                                    (s, v, 'matches' if hit else 'misses', TWIN_KIND[who], self.expected(w, who, u)), want, hit)
                                return False
        return True

    def probes(self, ctx, w, hist):
        case = self.case(hist, ['probe'])

        def bad(kind, msg, exp=None, got=None):
            ctx.violation('c10:twin:%s' % kind, case, '[%s] state %s: %s' % (self.layout, hist, msg), exp, got)
        self.check_reads(ctx, w, bad, 'state')
        for who in ('p', 'r'):
            mc = w.m[who].find_metaclass(TWIN_KIND[who])
            for u in self.attrs(who):
                for s in self.sp[u]:
                    ctx.count('reads')
                    t = mc.attribute_type(s)
                    if t is None or t.upper() != TWIN_TYPES[u]:
                        bad('attribute_type', 'attribute_type(%r) of %s is %r' % (s, TWIN_KIND[who], t), TWIN_TYPES[u], t)


def twin_unit_test(layout, hist, op):
    lines = ['import xtuml', 'l = xtuml.ModelLoader()', 'l.input(%r)' % TWIN_SQL,
             'mp = l.build_metamodel(xtuml.IntegerGenerator())',
             'mr = mp' if layout != 'separate' else 'mr = l.build_metamodel(xtuml.IntegerGenerator())',
             "p = mp.new('Pq', Id=7); r = mr.new('Rs', iD=8)"]
    if layout == 'linked':
        lines.append('xtuml.relate(r, p, 2)')

    def stmt(o):
        if o[0] == 'set':
            return '%s.%s = %r' % (o[1], o[2], o[3])
        if o[0] == 'del':
            return 'del %s.%s' % (o[1], o[2])
        return 'b = m%s.new(%r, **%r)' % (o[1], o[2], o[3])
    for o in hist:
        lines.append(stmt(o))
    lines.append(stmt(op) + '   # <- failing step')
    lines.append('print([(s, getattr(p, s, None)) for s in %r])' % (spellings('Id') + spellings('_Tg'),))
    lines.append('print([(s, getattr(r, s, None)) for s in %r])' % (spellings('Id') + spellings('_Tg') + spellings('_Rf'),))
    return '\n'.join(lines)


TWIN_SLICE = 8          # operations of one state executed per task (keeps the critical path of a level short)
TWIN_MAX_DEPTH = 12     # closes at depth 5 on a conforming implementation


def _twin_expand(sub, args):
    """One slice of the operations enabled in one state (explorer._expand, sliced)."""
    layout, hist, lo = args
    model = TwinModel(sub.tier, layout, sub.seed)
    ok, world = explorer.guarded(sub, model, hist, None, lambda: model.build(hist))
    if not ok:
        return []
    if lo == 0:
        sub.count('states_expanded')
        ok, _ = explorer.guarded(sub, model, hist, None, lambda: model.probes(sub, world, hist))
        if not ok:
            return []
    ops = explorer.rotate(model.enabled(world), sub.seed)[lo:lo + TWIN_SLICE]
    out = []
    for op in ops:
        sub.count('transitions')

        def one():
            w = model.build(hist)
            if model.apply(sub, w, op, hist):
                return model.canon(w)
            return None
        ok, key = explorer.guarded(sub, model, hist, op, one)
        if ok and key is not None:
            out.append((key, op))
    return out


def twin_bfs(ctx):
    """Search to closure over all layouts at once; a task is (layout, state, slice of the enabled operations)."""
    seen, frontier = {}, []
    for layout in TWIN_LAYOUTS:
        model = TwinModel(ctx.tier, layout, ctx.seed)
        ok, w = explorer.guarded(ctx, model, [], None, lambda: model.build([]))
        if not ok:
            continue
        seen[(layout, model.canon(w))] = []
        frontier.append((layout, [], len(model.enabled(w))))
    depth, closed = 0, True
    while frontier:
        if depth >= TWIN_MAX_DEPTH:
            closed = False
            ctx.cap('twins: depth bound %d reached with %d unexpanded states' % (TWIN_MAX_DEPTH, len(frontier)))
            break
        tasks = [(layout, h, lo) for layout, h, n in frontier for lo in range(0, n, TWIN_SLICE)]
        results = ctx.pmap(_twin_expand, tasks, chunk=1)
        nxt = []
        for (layout, h, lo), succ in zip(tasks, results):
            for k, op in succ:
                if (layout, k) not in seen:
                    seen[(layout, k)] = h + [op]
                    nxt.append((layout, h + [op], None))
        # the menu does not depend on the state
        n_ops = frontier[0][2]
        frontier = [(layout, h, n_ops) for layout, h, _ in nxt]
        depth += 1
        if ctx.time_left() < 0 and frontier:
            closed = False
            ctx.cap('twins: time budget reached at depth %d' % depth)
            break
    per = {}
    for layout, _ in seen:
        per[layout] = per.get(layout, 0) + 1
    ctx.count('states', len(seen))
    ctx.count('twin_states', len(seen))
    ctx.notes.setdefault('twins', {}).update(states=len(seen), depth=depth, closed=closed)
    return dict(states=len(seen), depth=depth, closed=closed, per_layout=per)


def norm_text(text):
    import re
    text = re.sub(r'--[^\n]*', '', text)
    return re.sub(r'\s+', '', text)


def unit_test(hist, op):
    lines = ['import xtuml', 'l = xtuml.ModelLoader()', 'l.input(%r)' % SQL,
             'm = l.build_metamodel(xtuml.IntegerGenerator())', "a = m.new('Ab'); c = m.new('Cd')"]

    def stmt(o):
        if o[0] == 'set':
            return 'a.%s = %r' % (o[1], o[2])
        if o[0] == 'del':
            return 'del a.%s' % o[1]
        if o[0] in ('relate', 'unrelate'):
            return 'xtuml.%s(a, c, 1)' % o[0]
        if o[0] == 'new':
            return 'b = m.new(%r, **%r)' % (o[1], o[2])
        return 'b = m.new(%r, *%r)' % (o[1], o[2])
    for o in hist:
        lines.append(stmt(o))
    lines.append(stmt(op) + '   # <- failing step')
    lines.append('print([(s, getattr(a, s, None)) for s in %r])' % (spellings('Xy') + spellings('Id') + spellings('R_a'),))
    return '\n'.join(lines)


def run(ctx):
    m = NameModel(ctx.tier, ctx.seed)
    res = explorer.bfs(ctx, m, chunk=4, label='names')
    print('  states=%d depth=%d closed=%s t=%.1fs' % (res['states'], res['depth'], res['closed'], ctx.elapsed()))
    hs = sorted(res['seen'].values(), key=lambda h: (len(h), repr(h)))
    for h in hs[-3:]:
        ctx.sample(dict(history=h))
    ctx.require(res['states'] >= 100, 'too few states (%d)' % res['states'])
    r2 = twin_bfs(ctx)
    print('  twins: states=%s depth=%d closed=%s t=%.1fs' % (r2['per_layout'], r2['depth'], r2['closed'], ctx.elapsed()))
    for layout in TWIN_LAYOUTS:
        ctx.require(r2['per_layout'].get(layout, 0) >= 30, 'twin family %s: too few states (%s)' % (layout, r2['per_layout']))
    ctx.require(ctx.n('twin_traces') >= 3000, 'twin family: too few transitions (%d)' % ctx.n('twin_traces'))
    ctx.require(ctx.n('reads') >= 10000, 'too few reads compared')
    ctx.require(ctx.nd('outcomes') >= 6, 'too few distinct outcomes (%d)' % ctx.nd('outcomes'))


def replay(ctx, case):
    if case.get('family') == 'twin':
        m = TwinModel(case.get('tier', 'quick'), case['layout'])
        return explorer.replay_case(ctx, m, case['hist'], case.get('op'))
    m = NameModel(case.get('tier', 'quick'))
    explorer.replay_case(ctx, m, case['hist'], case.get('op'))


def coverage(ctx):
    closed = all(v.get('closed') for v in ctx.notes.values() if isinstance(v, dict))
    return dict(
        states=ctx.n('states'), transitions=ctx.n('transitions'),
        traces_validated_against_impl=ctx.n('traces'),
        evaluations=ctx.n('transitions') + ctx.n('reads'),
        reads_compared=ctx.n('reads'),
        distinct_nontrivial=ctx.n('states'),
        distinct_outcomes=ctx.nd('outcomes'),
        rule='closure over (reference values, relate flag, set of spellings written, keys of the instance dict); in every '
             'state every write/delete under every case pattern, relate/unrelate and every constructor form is executed and '
             'every read route compared; distinct_nontrivial = number of distinct canonical states; twin family: the same '
             'closure over two instances of two classes whose attribute names differ only in letter case (leading '
             'underscores included), every operation followed by every read route on both instances',
        bounds=dict(names=DECL, case_patterns='all 2^n', values=VALS,
                    twin_family=dict(classes=TWIN_DECL, layouts=TWIN_LAYOUTS, values=TWIN_VALS, states=ctx.n('twin_states'),
                                     transitions=ctx.n('twin_traces'))),
        exhaustive=bool(closed) and not ctx.caps_hit,
    )
