'''
C10 -- names are case-insensitive and every spelling addresses one stored value.

E1 search to closure over writes / deletes / relate / unrelate on one instance,
each name written in every case pattern; in every state every read route
(getattr under every spelling, serialisation, where_eq, dict filter) is
compared with a reference dict keyed by the upper-cased name.

Second family ("twins"): two observed instances of two classes whose attribute
names differ only in letter case (Id/iD, _Tg/_tG -- one plain name with a
leading underscore, one identifying name, one referential name with a leading
underscore), in one metamodel (linked) or in two metamodels of the same process
(unlinked). Every write/delete/constructor form on either instance is
followed by every read route on BOTH instances, so a spelling resolved for one
class is afterwards used on the other.

Null family (NullModel): per core type an identifying and a plain attribute
that really hold None or a null-ish value (0, '', 0.0, False), written /
constructed / loaded under every spelling; every spelling is read (compared by
type and value), filtered (whole selections, six routes) and serialised, and
the referential attributes derived from the identifying one are read through
two associations that spell the key differently.
'''
import itertools
import json
import os

from mc import explorer

NEEDS_BRIDGEPOINT = False
# definition family (see DefModel)
DEF_KIND = 'Ab'
DEF_ATTRS = [('Id', 'UNIQUE_ID'), ('Nm', 'STRING')]
DEF_PROBE_ROUTES = ['find_metaclass', 'find_class', 'select_many', 'select_one', 'new', 'clone']
DEF_DEFINE_ROUTES = ['define_class', 'loader']
DEF_CREATE_ROUTES = ['new', 'clone']
DEF_MAX_PROBES = 2        # rejected uses of the name before the definition, per history
DEF_SLICE = 32
DEF_MAX_DEPTH = 8         # closes at depth DEF_MAX_PROBES + 2
# null family (see NullModel): routes of the equality filters
NULL_FORMS = ['kw', 'dict', 'query', 'any', 'one', 'nav']
ASSUMPTIONS = [
    'names of two or three letters, all 2^n case patterns; one observed instance plus one referred instance',
    'values from a three-value alphabet per attribute type',
    'after a deletion the statement only fixes that every spelling behaves alike; both "unset" and AttributeError are accepted',
    'twin family: two classes Pq(Id, _Tg) / Rs(iD, _tG, _Rf) whose attribute names differ only in letter case, names with a '
    'leading underscore (plain and referential); layouts: one metamodel with the pair linked, two metamodels (pair '
    'unlinked); two values per attribute, deletion of the plain attribute only; constructor keywords under every attribute spelling (class spelling cycled)',
    'referential family: chain Ab.R_a -> Cd.K_c -> Ef.Id (K_c identifying and referential), one Ab, two Cd, one Ef instance; '
    'relate / unrelate across both associations, xtuml.delete (disconnecting) of each of the four instances, relate again; '
    'writes (one value; must be rejected) and deletions of the referential attributes under every spelling, writes of the root '
    'identifier (two values) under every spelling; after each step every spelling of R_a / K_c / Id is read on every instance '
    '(also the deleted ones), serialised and filtered (values 5, 6, 9, None; whole selections compared). Whether deleting a '
    'referential attribute is refused is not judged, only what is read afterwards',
    'palette family: one STRING attribute whose name coincides with a name python objects or the library classes define or '
    'could define (quick: Kind Name Type Self Key New Id Links Class Storage Attributes Metaclass), declared Capitalized / '
    'UPPER / lower / cAPITALIZED-swapped (thorough: more names; all 2^n declarations of names up to four letters), accessed in all '
    '2^n case patterns (names up to four letters) or six patterns (longer names); writes of two values, deletions, constructor '
    'keywords (MetaModel.new and metaclass call alternating), reads, where_eq/dict filters (alternating), serialisation, and the '
    'referential attributes of up to four associations that spell the key in lower / UPPER / Capitalized / swapped case; '
    'the metamodel of this family is defined through MetaModel.define_class / define_association (the calls the loader makes)',
    'constructor forms that give one attribute a positional AND a keyword value (first family, in every state): per attribute '
    '(plain, identifying, referential) the positional prefix up to that attribute and all three positional values, the keyword '
    'under every spelling, through MetaModel.new / MetaClass.new / the metaclass call; judged: every spelling has the outcome of '
    'the declared one (instance or the same exception type), and an accepted call stores the keyword value (keywords are applied '
    'after positional values), read under every spelling',
    'definition family: a metamodel without the class; at most %d rejected uses of the name before the definition (routes %s, '
    'every spelling; each must raise UnknownClassException), then the definition under every spelling (define_class, or the '
    'loader populating the metamodel from CREATE TABLE), then one creation (MetaModel.new / clone of an instance of a like-named '
    'class of another metamodel, every spelling); after the definition every spelling is looked up, selected (many/one/any) and '
    're-defined (must be refused) in every state. Before the definition no observation is made (it would be a rejected use itself)'
    % (DEF_MAX_PROBES, ', '.join(DEF_PROBE_ROUTES)),
    'constructor keywords spelled exactly like the python parameters of the constructor routes (self, kind) are sent like any '
    'other spelling (this found F-C10d, repaired)',
    'equality filters naming ONE attribute twice under two spellings (first family, every state without a deleted attribute): '
    'every ordered pair of the four spellings of Id / Xy, the value pairs (stored, stored), (stored, other), (other, stored), '
    '(other, other); routes where_eq keywords / dict through MetaModel.select_many, MetaClass.query, select_any, '
    'MetaClass.select_one and the filter of a navigation chain (when related), alternating; judged: the selection is the '
    'instance iff both values equal the one stored value, else empty',
    'palette family, names with letters whose case mappings do not round-trip (quick: Ma\u00df, S\u0131ra; thorough also '
    '\u017fo, \ufb01x, Stra\u00dfe), declared as written / lower / UPPER (thorough: also swapped and lower(UPPER)): a spelling '
    'of such a name is any string whose str.upper() equals the upper() of the declared name (the comparison the library makes '
    'at every site), generated by upper / lower / swapcase / capitalize (twice) and, for names up to four letters, per-letter '
    'toggling of the name and of its upper-cased form (MASS, mass, ma\u00df, MA\u00df ... all address the attribute declared Ma\u00df)',
    'palette family: when a write leaves the instance with more entries than it was created with, one more observation is made '
    '(delete under the declared spelling, then every spelling must read unset); the number of entries itself is never judged',
    'null family: per core type (unique_id, string, integer, real, boolean) a class Nv with an identifying and a plain attribute of '
    'that type (two-letter names, all case patterns; thorough: three letters) and two referring classes whose referential '
    'attribute is derived from the identifying one (one association spells the key as declared, one in swapped case); the '
    'observed instance is created with positional None values or loaded from a named INSERT that leaves the identifying column '
    'out; writes of None, the null value of the type and one non-null value (thorough: also null-ish values of other types) and '
    'deletions under every spelling, searched to closure; constructor forms (None / null keyword under every spelling, positional '
    'None, clone; routes MetaModel.new / MetaClass.new / metaclass call / MetaModel.clone / MetaClass.clone) are terminal; after '
    'every step every spelling of both attributes is read on three instances (plus the created one) and of the referential '
    'attribute on both referring instances, compared by type AND value (None, 0, 0.0, False and the empty string are five different values); every '
    'instance is serialised; filters <spelling>=v for v in None, 0, the empty string, 0.0, False and the non-null values, through %s, compare the '
    'whole selection with the instances whose one stored value equals v (python equality, which is what an equality filter means: 0 '
    'matches False and 0.0, nothing but None matches None)' % ', '.join(NULL_FORMS),
]

SQL = ('CREATE TABLE Ab (Id UNIQUE_ID, Xy STRING, R_a UNIQUE_ID);\n'
       'CREATE TABLE Cd (Id UNIQUE_ID, Nm INTEGER);\n'
       "CREATE ROP REF_ID R1 FROM MC Ab (R_a) TO 1C Cd (Id);\n"
       'CREATE UNIQUE INDEX I1 ON Ab (Id);\n'
       'CREATE UNIQUE INDEX I1 ON Cd (Id);\n')
DECL = ['Id', 'Xy', 'R_a']
TYPES = {'ID': 'UNIQUE_ID', 'XY': 'STRING', 'R_A': 'UNIQUE_ID'}
VALS = {'XY': ['p', 'q', ''], 'ID': [7, 8]}


# constructor routes and forms (positional values, keyword value) that give one attribute two values
MIX_ROUTES = ['model', 'metaclass', 'call']
MIX_FORMS = {'ID': [([9, 'p', 99], 8), ([9], 8)],
             'XY': [([9, 'p', 99], 'q'), ([9, 'p'], 'q')],
             'R_A': [([9, 'p', 99], 2), ([9, 'p', 2], 99), ([9, 'p', 2], None)]}


# routes of equality filters that name one attribute twice (under two spellings)
TWICE_FORMS = ['kw', 'dict', 'query', 'any', 'one', 'nav']


def spellings(name):
    letters = [i for i, ch in enumerate(name) if ch.isalpha()]
    out = []
    for bits in itertools.product((0, 1), repeat=len(letters)):
        ch = list(name.lower())
        for b, i in zip(bits, letters):
            if b:
                ch[i] = ch[i].upper()
        out.append(''.join(ch))
    return out


class World(object):
    pass


DELETED = '<deleted>'


class NameModel(explorer.Model):
    def __init__(self, tier, seed=0):
        self.tier = tier
        self.sp = dict((n.upper(), spellings(n)) for n in DECL)
        self.kinds = spellings('Ab')

    def case(self, hist, op):
        return dict(hist=hist, op=op, tier=self.tier)

    def build(self, hist):
        import xtuml
        w = World()
        l = xtuml.ModelLoader()
        l.input(SQL)
        w.m = l.build_metamodel(xtuml.IntegerGenerator())
        w.a = w.m.new('Ab')          # Id = 1
        w.c = w.m.new('Cd')          # Id = 2
        w.ref = {'ID': 1, 'XY': '', 'R_A': None}
        w.related = False
        w.written = set()
        w.last = {}
        for op in hist:
            self.step(w, op)
        return w

    def canon(self, w):
        try:
            proxy = sorted(w.a.__dict__.keys())
        except Exception:
            proxy = None
        return json.dumps([sorted(w.ref.items(), key=str), w.related, sorted(w.last.items()), proxy], default=repr)

    def enabled(self, w):
        ops = []
        for u in ('XY', 'ID'):
            for s in self.sp[u]:
                for v in VALS[u]:
                    ops.append(['set', s, v])
                ops.append(['del', s])
        for s in self.sp['R_A']:
            ops.append(['set', s, 2])
        ops.append(['relate'])
        if w.related:
            ops.append(['unrelate'])   # (unrelate of an unlinked pair: C02)
        # constructor forms: terminal transitions (checked, not expanded)
        for ks in self.kinds:
            for s in self.sp['XY']:
                ops.append(['new', ks, {s: 'q'}])
            for s in self.sp['ID']:
                ops.append(['new', ks, {s: 9}])
            for s in self.sp['R_A']:
                ops.append(['new', ks, {s: 2}])
            for s in self.sp['R_A']:
                ops.append(['new', ks, {s: 99}])      # a referential value that resolves to nothing
        ops.append(['newpos', 'Ab', [9, 'p', 99]])
        ops.append(['new', 'aB', {'xY': 'p', 'iD': 9, 'r_A': 2}])
        ops.append(['newpos', 'AB', [9, 'p', 2]])
        # one attribute given positionally AND by keyword, the keyword under every spelling; one op per constructor route
        # (the forms of one route run one after the other in one world)
        for route in MIX_ROUTES:
            ops.append(['newmix', route])
        return ops

    def step(self, w, op):
        '''Apply op to implementation and reference; returns (got, expected).'''
        import xtuml
        name = op[0]
        try:
            if name == 'set':
                u = op[1].upper()
                if u == 'R_A':
                    exp = 'MetaException'
                else:
                    exp = 'ok'
                    w.ref[u] = op[2]
                    w.written.add(op[1])
                    w.last[u] = op[1]
                setattr(w.a, op[1], op[2])
                return 'ok', exp
            if name == 'del':
                u = op[1].upper()
                exp = 'ok' if w.ref[u] != DELETED else 'error'
                w.ref[u] = DELETED
                delattr(w.a, op[1])
                return 'ok', exp
            if name == 'relate':
                exp = 'True'
                w.related = True
                return repr(xtuml.relate(w.a, w.c, 1)), exp
            if name == 'unrelate':
                exp = 'True' if w.related else 'UnrelateException'
                w.related = False
                return repr(xtuml.unrelate(w.a, w.c, 1)), exp
        except xtuml.MetaException as e:
            return ('MetaException' if type(e).__name__ == 'MetaException' else type(e).__name__), exp
        except (AttributeError, KeyError) as e:
            return 'error', exp
        raise ValueError(op)

    def expected_read(self, w, u):
        if u == 'R_A':
            if w.related:
                return w.ref['ID'] if False else 2      # identifying attribute of the linked Cd instance
            return None
        return w.ref[u]

    def apply(self, ctx, w, op, hist):
        import xtuml
        case = self.case(hist, op)

        def bad(kind, msg, exp=None, got=None):
            ctx.violation('c10:%s' % kind, case, 'history %s, then %s: %s' % (hist, op, msg), exp, got,
                          unit_test=unit_test(hist, op))
        if op[0] in ('new', 'newpos'):
            return self.apply_new(ctx, w, op, bad)
        if op[0] == 'newmix':
            return self.apply_newmix(ctx, w, op, bad)
        ctx.count('traces')
        got, exp = self.step(w, op)
        ctx.distinct('outcomes', (op[0], got))
        if got != exp:
            kind = '%s:outcome' % op[0]
            if op[0] == 'del' and exp == 'error':
                # deleting an attribute that is already deleted: accept any failure, but it must not succeed
                # silently on *another* attribute; that is checked by the reads below
                pass
            else:
                bad(kind, 'outcome %s, expected %s' % (got, exp), exp, got)
                return False
        return self.check_reads(ctx, w, bad, op[0])

    def apply_new(self, ctx, w, op, bad):
        import xtuml
        ctx.count('traces')
        exp = {'ID': None, 'XY': '', 'R_A': None}
        try:
            if op[0] == 'new':
                inst = w.m.new(op[1], **op[2])
                for k, v in op[2].items():
                    exp[k.upper()] = v
            else:
                inst = w.m.new(op[1], *op[2])
                exp = {'ID': op[2][0], 'XY': op[2][1], 'R_A': op[2][2]}
        except Exception as e:
            bad('new:exception', 'creation raised %s: %s' % (type(e).__name__, e), 'instance', type(e).__name__)
            return False
        ctx.distinct('outcomes', ('new', 'ok'))
        if exp['R_A'] != 2:
            exp['R_A'] = None          # a referential value that matches no instance links nothing
        got = {}
        for u, decl in (('ID', 'Id'), ('XY', 'Xy'), ('R_A', 'R_a')):
            got[u] = getattr(inst, decl)
        if exp['ID'] is None:
            exp['ID'] = got['ID']      # defaulted id: any fresh value
        if got != exp:
            bad('new:values', 'created instance reads %s, expected %s' % (got, exp), exp, got)
            return False
        # every spelling of every attribute of the new instance reads the same value, and queries agree
        for u in ('ID', 'XY', 'R_A'):
            for s in self.sp[u]:
                ctx.count('reads')
                g = getattr(inst, s)
                if g != exp[u]:
                    bad('new:read', 'created instance reads %r under the spelling %r but %r under the declared one' % (g, s, exp[u]),
                        exp[u], g)
                    return False
                if exp[u] is not None and DELETED not in w.ref.values():
                    hit = inst in list(w.m.select_many('Ab', xtuml.where_eq(**{s: exp[u]})))
                    if not hit:
                        bad('new:where_eq', 'where_eq(%s=%r) misses the created instance' % (s, exp[u]), True, hit)
                        return False
        return False       # terminal: constructor forms are not expanded further

    def apply_newmix(self, ctx, w, op, bad):
        '''Constructor calls that give one attribute a positional value AND a keyword value, the keyword under every
        spelling: every spelling must have the same outcome as the declared one, and where the call is accepted the
        keyword value (applied after the positional ones) is the one stored value read under every spelling.'''
        import xtuml
        route = op[1]
        mc = w.m.find_metaclass('Ab')
        ctx.count('traces')
        n = 0
        for u, decl, idx in (('ID', 'Id', 0), ('XY', 'Xy', 1), ('R_A', 'R_a', 2)):
            for pos, kwv in MIX_FORMS[u]:
                first = None
                for s in [decl] + [x for x in self.sp[u] if x != decl]:
                    ks = self.kinds[n % 4]
                    n += 1
                    ctx.count('reads')
                    ctx.count('mix_forms')
                    try:
                        if route == 'model':
                            inst = w.m.new(ks, *pos, **{s: kwv})
                        elif route == 'metaclass':
                            inst = mc.new(*pos, **{s: kwv})
                        else:
                            inst = mc(*pos, **{s: kwv})
                        outcome, detail = 'instance', ''
                    except Exception as e:
                        inst, outcome, detail = None, type(e).__name__, ' (%s)' % e
                    ctx.distinct('outcomes', ('newmix', outcome))
                    if first is None:
                        first = outcome, detail
                    elif outcome != first[0]:
                        bad('newmix:spellings-differ', '%s route, positional values %r and the keyword %s=%r: %s%s, but under the '
                            'declared spelling %s: %s%s' % (route, pos, s, kwv, outcome, detail, decl, first[0], first[1]),
                            first[0], outcome)
                        return False
                    if inst is None:
                        continue
                    exp = {'ID': None, 'XY': '', 'R_A': None}
                    for k, v in zip(('ID', 'XY', 'R_A'), pos):
                        exp[k] = v
                    exp[u] = kwv
                    if exp['R_A'] != 2:
                        exp['R_A'] = None      # a referential value that matches no instance links nothing
                    for u2 in ('ID', 'XY', 'R_A'):
                        for s2 in self.sp[u2]:
                            ctx.count('reads')
                            g = getattr(inst, s2)
                            if g != exp[u2]:
                                bad('newmix:read', '%s route, positional values %r and the keyword %s=%r: the created instance '
                                    'reads %r under the spelling %r, expected %r' % (route, pos, s, kwv, g, s2, exp[u2]), exp[u2], g)
                                return False
                    if exp[u] is not None and DELETED not in w.ref.values():
                        for s2 in (s,):        # (filters under every spelling for created instances: the 'new' forms)
                            ctx.count('reads')
                            sel = list(w.m.select_many(ks, xtuml.where_eq(**{s2: exp[u]})))
                            if not any(i is inst for i in sel):
                                bad('newmix:where_eq', '%s route, positional values %r and the keyword %s=%r: where_eq(%s=%r) '
                                    'misses the created instance' % (route, pos, s, kwv, s2, exp[u]), True, False)
                                return False
        return False       # terminal

    def check_reads(self, ctx, w, bad, opname):
        import xtuml
        a = w.a
        for u in ('ID', 'XY', 'R_A'):
            exp = self.expected_read(w, u)
            seen = []
            for s in self.sp[u]:
                ctx.count('reads')
                try:
                    got = getattr(a, s)
                except AttributeError:
                    got = DELETED
                seen.append(got)
                if exp == DELETED:
                    continue
                if got != exp:
                    bad('%s:read' % opname, 'reading %r gives %r, expected %r (written spellings so far: %s)' %
                        (s, got, exp, sorted(w.written)), exp, got)
                    return False
            if exp == DELETED:
                norm = [DELETED if g in (None, DELETED) else g for g in seen]
                if len(set(map(repr, norm))) != 1 or norm[0] != DELETED:
                    bad('%s:read-after-delete' % opname, 'after deletion the spellings %s read %s' % (self.sp[u], seen),
                        'all alike and unset', seen)
                    return False
        # the value serialised and the value matched by queries
        if DELETED not in w.ref.values():
            text = xtuml.serialize_instance(a)
            exp_text = self.expected_text(w)
            ctx.count('reads')
            if norm_text(text) != norm_text(exp_text):
                bad('%s:serialize' % opname, 'serialize_instance gives %r, expected %r' % (text, exp_text), exp_text, text)
                return False
            for u in ('ID', 'XY'):
                for s in self.sp[u]:
                    for v in VALS[u]:
                        for form in ('kw', 'dict'):
                            ctx.count('reads')
                            q = xtuml.where_eq(**{s: v}) if form == 'kw' else {s: v}
                            hit = a in list(w.m.select_many(self.kinds[len(s) % 4], q))
                            if hit != (w.ref[u] == v):
                                bad('%s:where_eq' % opname, 'where_eq(%s=%r) %s the instance whose value is %r' %
                                    (s, v, 'matches' if hit else 'misses', w.ref[u]), w.ref[u] == v, hit)
                                return False
        return True

    def expected_text(self, w):
        import xtuml
        vals = [xtuml.serialize_value(w.ref['ID'], 'UNIQUE_ID'), xtuml.serialize_value(w.ref['XY'], 'STRING'),
                xtuml.serialize_value(2 if w.related else None, 'UNIQUE_ID')]
        return 'INSERT INTO Ab VALUES (%s);' % ', '.join(vals)

    def probes(self, ctx, w, hist):
        import xtuml
        case = self.case(hist, ['probe'])

        def bad(kind, msg, exp=None, got=None):
            ctx.violation('c10:%s' % kind, case, 'state %s: %s' % (hist, msg), exp, got)
        self.check_reads(ctx, w, bad, 'state')
        mc = w.m.find_metaclass('Ab')
        for ks in self.kinds:
            ctx.count('reads')
            if w.m.find_metaclass(ks) is not mc or w.m.find_class(ks) is not mc.clazz:
                bad('find_metaclass', 'find_metaclass(%r) is another object' % ks)
            if w.a not in list(w.m.select_many(ks)) or w.m.select_any(ks) is not w.a:
                bad('select', 'select_many(%r) does not return the instance' % ks)
        # a class name that is already defined is rejected under every spelling
        for ks in self.kinds + ['AB ']:
            if ks.strip() != ks:
                continue
            ctx.count('reads')
            try:
                w.m.define_class(ks, [('Zz', 'integer')])
                redefined = True
            except xtuml.MetaException:
                redefined = False
            if redefined or w.m.find_metaclass('Ab') is not mc:
                bad('define_class', 'define_class(%r) replaced the existing class Ab' % ks, 'MetaModelException', 'accepted')
                break
        # equality filters with null-ish values: every spelling of the key gives the same answer
        if DELETED not in w.ref.values():
            for u in ('ID', 'R_A'):
                for v in (0, None):
                    answers = []
                    for s in self.sp[u]:
                        ctx.count('reads')
                        for q in (xtuml.where_eq(**{s: v}), {s: v}):
                            answers.append(w.a in list(w.m.select_many('ab', q)))
                    if len(set(answers)) != 1:
                        bad('where_eq:null', 'where_eq(<spelling of %s>=%r) matches under some spellings only: %s' %
                            (u, v, list(zip(self.sp[u], answers[::2]))), 'the same answer under every spelling', answers)
        for u in ('ID', 'XY', 'R_A'):
            for s in self.sp[u]:
                ctx.count('reads')
                t = mc.attribute_type(s)
                if t is None or t.upper() != TYPES[u]:
                    bad('attribute_type', 'attribute_type(%r) is %r' % (s, t), TYPES[u], t)
        self.twice_filters(ctx, w, bad, mc)

    def twice_filters(self, ctx, w, bad, mc):
        '''Equality filters with TWO conditions naming one attribute under two spellings: both spellings address the one
        stored value, so the filter matches the instance iff the stored value equals both values (never when the two
        values differ, whichever condition is given first).'''
        import xtuml
        if DELETED in w.ref.values():
            return
        a = w.a
        n = 0
        for u in ('ID', 'XY'):
            cur = w.ref[u]
            others = [v for v in VALS[u] if v != cur][:2]
            pairs = [(cur, cur)] + [(cur, o) for o in others] + [(o, cur) for o in others] + [(others[0], others[0])]
            for s1, s2 in itertools.permutations(self.sp[u], 2):
                for v1, v2 in pairs:
                    flt = [(s1, v1), (s2, v2)]
                    exp = [a] if v1 == cur and v2 == cur else []
                    n += 1
                    # the routes alternate (every route meets every pair of values and every pair of spellings
                    # over the states; all of them in one state would double the cost of a state)
                    for form in (TWICE_FORMS[(n + n // len(TWICE_FORMS)) % len(TWICE_FORMS)],):
                        if form == 'nav' and not w.related:
                            form = 'dict'
                        ctx.count('reads')
                        ctx.count('twice_filters')
                        d = dict(flt)
                        if list(d.items()) != flt:
                            raise ValueError(flt)
                        if form == 'kw':
                            got = list(w.m.select_many('aB', xtuml.where_eq(**d)))
                        elif form == 'dict':
                            got = list(w.m.select_many('Ab', d))
                        elif form == 'query':
                            got = list(mc.query(d))
                        elif form == 'any':
                            got = w.m.select_any('AB', xtuml.where_eq(**d))
                            got = [] if got is None else [got]
                        elif form == 'one':
                            got = mc.select_one(d)
                            got = [] if got is None else [got]
                        else:
                            got = list(xtuml.navigate_many(w.c).Ab[1](d))
                        if len(got) != len(exp) or any(g is not e for g, e in zip(got, exp)):
                            bad('where_eq:two-spellings', 'the filter %s (form %s) selects %s; the one stored value is %r, so it '
                                'must select %s' % (' and '.join('%s=%r' % c for c in flt), form,
                                                    [str(g) for g in got], cur, 'the instance' if exp else 'nothing'),
                                len(exp), len(got))
                            return


# ---------------------------------------------------------------------------------------------------------------------
# twin family: two classes whose attribute names differ only in letter case; names with a leading underscore
# ---------------------------------------------------------------------------------------------------------------------
TWIN_SQL = ('CREATE TABLE Pq (Id UNIQUE_ID, _Tg STRING);\n'
            'CREATE TABLE Rs (iD UNIQUE_ID, _tG STRING, _Rf UNIQUE_ID);\n'
            'CREATE ROP REF_ID R2 FROM MC Rs (_Rf) TO 1C Pq (Id);\n'
            'CREATE UNIQUE INDEX I1 ON Pq (Id);\n'
            'CREATE UNIQUE INDEX I1 ON Rs (iD);\n')
TWIN_KIND = {'p': 'Pq', 'r': 'Rs'}
TWIN_DECL = {'p': ['Id', '_Tg'], 'r': ['iD', '_tG', '_Rf']}
TWIN_TYPES = {'ID': 'UNIQUE_ID', '_TG': 'STRING', '_RF': 'UNIQUE_ID'}
TWIN_VALS = {'ID': [7, 8], '_TG': ['', 'q']}       # the initial values are members of the alphabet
TWIN_LAYOUTS = ['linked', 'separate']
TWIN_DELETABLE = ('_TG',)                         # (deleting an identifying attribute: first family)


class TwinModel(explorer.Model):
    def __init__(self, tier, layout, seed=0):
        self.tier = tier
        self.layout = layout
        self.sp = dict((n, spellings(n)) for n in ('ID', '_TG', '_RF'))
        self.kinds = dict((who, spellings(k)) for who, k in TWIN_KIND.items())

    def case(self, hist, op):
        return dict(family='twin', layout=self.layout, hist=hist, op=op, tier=self.tier)

    def build(self, hist):
        import xtuml
        w = World()
        l = xtuml.ModelLoader()
        l.input(TWIN_SQL)
        mp = l.build_metamodel(xtuml.IntegerGenerator())
        mr = mp if self.layout != 'separate' else l.build_metamodel(xtuml.IntegerGenerator())
        w.m = {'p': mp, 'r': mr}
        w.inst = {'p': mp.new('Pq', Id=7), 'r': mr.new('Rs', iD=8)}
        w.ref = {'p': {'ID': 7, '_TG': ''}, 'r': {'ID': 8, '_TG': ''}}
        w.linked = False
        if self.layout == 'linked':
            xtuml.relate(w.inst['r'], w.inst['p'], 2)
            w.linked = True
        w.written = set()
        for op in hist:
            self.step(w, op)
        return w

    def canon(self, w):
        proxy = []
        for who in ('p', 'r'):
            try:
                proxy.append(sorted(w.inst[who].__dict__.keys()))
            except Exception:
                proxy.append(None)
        return json.dumps([sorted(w.ref['p'].items()), sorted(w.ref['r'].items()), proxy], default=repr)

    def enabled(self, w):
        ops = []
        for who in ('p', 'r'):
            for u in ('ID', '_TG'):
                for s in self.sp[u]:
                    for v in TWIN_VALS[u]:
                        ops.append(['set', who, s, v])
                    if u in TWIN_DELETABLE:
                        ops.append(['del', who, s])
        for s in self.sp['_RF']:
            ops.append(['set', 'r', s, 7])
        # constructor keywords: terminal transitions (checked, not expanded); the product class spelling x attribute
        # spelling is covered by the first family, here the class spelling is cycled
        for who in ('p', 'r'):
            n = 0
            for u in ('ID', '_TG'):
                for s in self.sp[u]:
                    ops.append(['new', who, self.kinds[who][n % 4], {s: TWIN_VALS[u][1]}])
                    n += 1
        for s in self.sp['_RF']:
            ops.append(['new', 'r', self.kinds['r'][n % 4], {s: 7}])
            n += 1
        return ops

    def step(self, w, op):
        import xtuml
        name, who = op[0], op[1]
        u = op[2].upper()
        try:
            if name == 'set':
                if u == '_RF':
                    exp = 'MetaException'
                else:
                    exp = 'ok'
                    w.ref[who][u] = op[3]
                    w.written.add((who, op[2]))
                setattr(w.inst[who], op[2], op[3])
                return 'ok', exp
            if name == 'del':
                exp = 'ok' if w.ref[who][u] != DELETED else 'error'
                w.ref[who][u] = DELETED
                delattr(w.inst[who], op[2])
                return 'ok', exp
        except xtuml.MetaException as e:
            return ('MetaException' if type(e).__name__ == 'MetaException' else type(e).__name__), exp
        except (AttributeError, KeyError) as e:
            return 'error', exp
        raise ValueError(op)

    def expected(self, w, who, u):
        if u == '_RF':
            return w.ref['p']['ID'] if w.linked else None
        return w.ref[who][u]

    def attrs(self, who):
        return ('ID', '_TG') if who == 'p' else ('ID', '_TG', '_RF')

    def apply(self, ctx, w, op, hist):
        case = self.case(hist, op)

        def bad(kind, msg, exp=None, got=None):
            ctx.violation('c10:twin:%s' % kind, case, '[%s] history %s, then %s: %s' % (self.layout, hist, op, msg), exp, got,
                          unit_test=twin_unit_test(self.layout, hist, op))
        ctx.count('traces')
        ctx.count('twin_traces')
        if op[0] == 'new':
            return self.apply_new(ctx, w, op, bad)
        got, exp = self.step(w, op)
        ctx.distinct('outcomes', (op[0], got))
        if got != exp and not (op[0] == 'del' and exp == 'error'):
            bad('%s:outcome' % op[0], 'outcome %s, expected %s' % (got, exp), exp, got)
            return False
        return self.check_reads(ctx, w, bad, op[0])

    def apply_new(self, ctx, w, op, bad):
        import xtuml
        who = op[1]
        m = w.m[who]
        exp = dict((u, None if u != '_TG' else '') for u in self.attrs(who))
        try:
            inst = m.new(op[2], **op[3])
        except Exception as e:
            bad('new:exception', 'creation raised %s: %s' % (type(e).__name__, e), 'instance', type(e).__name__)
            return False
        for k, v in op[3].items():
            exp[k.upper()] = v
        if '_RF' in exp and not (exp['_RF'] is not None and w.ref['p']['ID'] == exp['_RF'] and self.layout != 'separate'):
            exp['_RF'] = None          # a referential value that matches no instance links nothing
        decl = dict((d.upper(), d) for d in TWIN_DECL[who])
        got = dict((u, getattr(inst, decl[u], DELETED)) for u in exp)
        if exp['ID'] is None:
            exp['ID'] = got['ID']      # defaulted id: any fresh value
        if got != exp:
            bad('new:values', 'created instance reads %s, expected %s' % (got, exp), exp, got)
            return False
        can_query = DELETED not in list(w.ref['p'].values()) + list(w.ref['r'].values())
        for u in self.attrs(who):
            for s in self.sp[u]:
                ctx.count('reads')
                g = getattr(inst, s, DELETED)
                if g != exp[u]:
                    bad('new:read', 'created instance reads %r under the spelling %r but %r under the declared one' %
                        (g, s, exp[u]), exp[u], g)
                    return False
                if exp[u] is not None and can_query:
                    hit = inst in list(m.select_many(TWIN_KIND[who], xtuml.where_eq(**{s: exp[u]})))
                    if not hit:
                        bad('new:where_eq', 'where_eq(%s=%r) misses the created instance' % (s, exp[u]), True, hit)
                        return False
        # ... and the instances that existed before still read as before under every spelling
        self.check_reads(ctx, w, bad, 'new')
        return False       # terminal

    def check_reads(self, ctx, w, bad, opname):
        import xtuml
        for who in ('p', 'r'):
            inst = w.inst[who]
            for u in self.attrs(who):
                exp = self.expected(w, who, u)
                seen = []
                for s in self.sp[u]:
                    ctx.count('reads')
                    try:
                        got = getattr(inst, s)
                    except AttributeError:
                        got = DELETED
                    seen.append(got)
                    if exp != DELETED and got != exp:
                        bad('%s:read' % opname, 'reading %s.%s gives %r, expected %r (written spellings so far: %s)' %
                            (who, s, got, exp, sorted(w.written)), exp, got)
                        return False
                if exp == DELETED:
                    norm = [DELETED if g in (None, DELETED) else g for g in seen]
                    if len(set(map(repr, norm))) != 1 or norm[0] != DELETED:
                        bad('%s:read-after-delete' % opname, 'after deletion the spellings %s of %s read %s' %
                            (self.sp[u], who, seen), 'all alike and unset', seen)
                        return False
        if DELETED in list(w.ref['p'].values()) + list(w.ref['r'].values()):
            return True
        # the value serialised and the value matched by queries
        for who in ('p', 'r'):
            inst = w.inst[who]
            text = xtuml.serialize_instance(inst)
            vals = [xtuml.serialize_value(self.expected(w, who, u), TWIN_TYPES[u]) for u in self.attrs(who)]
            exp_text = 'INSERT INTO %s VALUES (%s);' % (TWIN_KIND[who], ', '.join(vals))
            ctx.count('reads')
            if norm_text(text) != norm_text(exp_text):
                bad('%s:serialize' % opname, 'serialize_instance(%s) gives %r, expected %r' % (who, text, exp_text), exp_text, text)
                return False
            for u in self.attrs(who):
                for s in self.sp[u]:
                    for v in TWIN_VALS['ID' if u == '_RF' else u]:
                        for form in ('kw', 'dict'):
                            ctx.count('reads')
                            q = xtuml.where_eq(**{s: v}) if form == 'kw' else {s: v}
                            hit = inst in list(w.m[who].select_many(self.kinds[who][len(s) % 4], q))
                            want = self.expected(w, who, u) == v
                            if hit != want:
                                bad('%s:where_eq' % opname, 'where_eq(%s=%r) %s the %s instance whose value is %r' %
                                    (s, v, 'matches' if hit else 'misses', TWIN_KIND[who], self.expected(w, who, u)), want, hit)
                                return False
        return True

    def probes(self, ctx, w, hist):
        case = self.case(hist, ['probe'])

        def bad(kind, msg, exp=None, got=None):
            ctx.violation('c10:twin:%s' % kind, case, '[%s] state %s: %s' % (self.layout, hist, msg), exp, got)
        self.check_reads(ctx, w, bad, 'state')
        for who in ('p', 'r'):
            mc = w.m[who].find_metaclass(TWIN_KIND[who])
            for u in self.attrs(who):
                for s in self.sp[u]:
                    ctx.count('reads')
                    t = mc.attribute_type(s)
                    if t is None or t.upper() != TWIN_TYPES[u]:
                        bad('attribute_type', 'attribute_type(%r) of %s is %r' % (s, TWIN_KIND[who], t), TWIN_TYPES[u], t)


def twin_unit_test(layout, hist, op):
    lines = ['import xtuml', 'l = xtuml.ModelLoader()', 'l.input(%r)' % TWIN_SQL,
             'mp = l.build_metamodel(xtuml.IntegerGenerator())',
             'mr = mp' if layout != 'separate' else 'mr = l.build_metamodel(xtuml.IntegerGenerator())',
             "p = mp.new('Pq', Id=7); r = mr.new('Rs', iD=8)"]
    if layout == 'linked':
        lines.append('xtuml.relate(r, p, 2)')

    def stmt(o):
        if o[0] == 'set':
            return '%s.%s = %r' % (o[1], o[2], o[3])
        if o[0] == 'del':
            return 'del %s.%s' % (o[1], o[2])
        return 'b = m%s.new(%r, **%r)' % (o[1], o[2], o[3])
    for o in hist:
        lines.append(stmt(o))
    lines.append(stmt(op) + '   # <- failing step')
    lines.append('print([(s, getattr(p, s, None)) for s in %r])' % (spellings('Id') + spellings('_Tg'),))
    lines.append('print([(s, getattr(r, s, None)) for s in %r])' % (spellings('Id') + spellings('_Tg') + spellings('_Rf'),))
    return '\n'.join(lines)


TWIN_SLICE = 8          # operations of one state executed per task (keeps the critical path of a level short)
TWIN_MAX_DEPTH = 12     # closes at depth 5 on a conforming implementation


# ---------------------------------------------------------------------------------------------------------------------
# referential family: a chain Ab.R_a -> Cd.K_c -> Ef.Id (K_c is identifying AND referential); relate / unrelate /
# deletion of referred-to and referring instances / relate again, the referential attributes read, written, deleted
# and filtered under every spelling
# ---------------------------------------------------------------------------------------------------------------------
REF_SQL = ('CREATE TABLE Ab (Id UNIQUE_ID, R_a UNIQUE_ID);\n'
           'CREATE TABLE Cd (K_c UNIQUE_ID, Nm INTEGER);\n'
           'CREATE TABLE Ef (Id UNIQUE_ID);\n'
           'CREATE ROP REF_ID R1 FROM MC Ab (R_a) TO 1C Cd (K_c);\n'
           'CREATE ROP REF_ID R2 FROM MC Cd (K_c) TO 1C Ef (Id);\n'
           'CREATE UNIQUE INDEX I1 ON Ab (Id);\n'
           'CREATE UNIQUE INDEX I1 ON Cd (K_c);\n'
           'CREATE UNIQUE INDEX I1 ON Ef (Id);\n')
REF_WHO = ('a', 'c1', 'c2', 'e')
# layouts of the referential family: 'chain' creates the four instances through the API; the 'loaded' layouts read them
# from INSERT statements whose references are null -- written as the null id in positional rows, or left out of named
# rows (round 8, C10-15): the loader must leave no stored value behind for a referential attribute
_Z = '"00000000-0000-0000-0000-0000000000%02d"'
REF_ROWS = {
    'loaded-zero': ('INSERT INTO Ab VALUES (%s, %s);\nINSERT INTO Cd VALUES (%s, 1);\nINSERT INTO Cd VALUES (%s, 2);\n'
                    'INSERT INTO Ef VALUES (%s);\n' % (_Z % 1, _Z % 0, _Z % 0, _Z % 0, _Z % 5)),
    'loaded-absent': ('INSERT INTO Ab (Id) VALUES (%s);\nINSERT INTO Cd (Nm) VALUES (1);\nINSERT INTO Cd (nm) VALUES (2);\n'
                      'INSERT INTO Ef (ID) VALUES (%s);\n' % (_Z % 1, _Z % 5)),
}
REF_LAYOUTS = ['chain'] + sorted(REF_ROWS)
REF_KIND = {'a': 'Ab', 'c1': 'Cd', 'c2': 'Cd', 'e': 'Ef'}
REF_ATTR = {'a': 'R_a', 'c1': 'K_c', 'c2': 'K_c', 'e': 'Id'}      # the attribute observed on each instance
REF_EID = [5, 6]          # values of the root identifier (written under every spelling)
REF_WRITE = 9             # value of the (rejected) writes to referential attributes
REF_QUERY = [5, 6, 9, None]
REF_SLICE = 10
REF_MAX_DEPTH = 14


class RefModel(explorer.Model):
    def __init__(self, tier, layout='chain', seed=0):
        self.tier = tier
        self.layout = layout
        self.sp = dict((who, spellings(REF_ATTR[who])) for who in REF_WHO)
        self.kinds = dict((k, spellings(k)) for k in ('Ab', 'Cd', 'Ef'))

    def case(self, hist, op):
        return dict(family='ref', layout=self.layout, hist=hist, op=op, tier=self.tier)

    def build(self, hist):
        import xtuml
        w = World()
        l = xtuml.ModelLoader()
        l.input(REF_SQL)
        if self.layout in REF_ROWS:
            l.input(REF_ROWS[self.layout])
        w.m = l.build_metamodel(xtuml.IntegerGenerator())
        if self.layout in REF_ROWS:
            cs = sorted(w.m.select_many('Cd'), key=lambda c: c.Nm)
            w.inst = {'a': w.m.select_any('Ab'), 'c1': cs[0], 'c2': cs[1], 'e': w.m.select_any('Ef')}
        else:
            w.inst = {'a': w.m.new('Ab', Id=1), 'c1': w.m.new('Cd', Nm=1), 'c2': w.m.new('Cd', Nm=2),
                      'e': w.m.new('Ef', Id=REF_EID[0])}
        w.alive = dict((who, True) for who in REF_WHO)
        w.l1 = None            # the Cd instance a is related to
        w.l2 = []              # the Cd instances related to e
        w.eid = REF_EID[0]
        for op in hist:
            self.step(w, op)
        return w

    def canon(self, w):
        proxy = []
        for who in REF_WHO:
            try:
                proxy.append(sorted(w.inst[who].__dict__.keys()))
            except Exception:
                proxy.append(None)
        return json.dumps([sorted(w.alive.items()), w.l1, sorted(w.l2), w.eid, proxy], default=repr)

    def enabled(self, w):
        ops = []
        for c in ('c1', 'c2'):
            if w.alive['a'] and w.alive[c] and w.l1 is None:
                ops.append(['relate', 'a', c])
            if w.l1 == c:
                ops.append(['unrelate', 'a', c])
            if w.alive[c] and w.alive['e'] and c not in w.l2:
                ops.append(['relate', c, 'e'])
            if c in w.l2:
                ops.append(['unrelate', c, 'e'])
        for who in REF_WHO:
            if w.alive[who]:
                ops.append(['delete', who])
        for who in ('a', 'c1', 'c2'):
            for s in self.sp[who]:
                ops.append(['set', who, s, REF_WRITE])
                ops.append(['del', who, s])
        for s in self.sp['e']:
            for v in REF_EID:
                ops.append(['set', 'e', s, v])
        return ops

    def step(self, w, op):
        import xtuml
        name = op[0]
        exp = None
        try:
            if name == 'set':
                who = op[1]
                if who == 'e':
                    exp = 'ok'
                    w.eid = op[3]
                else:
                    exp = 'MetaException'
                setattr(w.inst[who], op[2], op[3])
                return 'ok', exp
            if name == 'del':
                # a referential attribute has no stored value of its own: whether the deletion is refused is not
                # defined by the statement (exp None = not judged); what it reads afterwards is
                delattr(w.inst[op[1]], op[2])
                return 'ok', None
            if name in ('relate', 'unrelate'):
                exp = 'True'
                x, y = op[1], op[2]
                if x == 'a':
                    w.l1 = y if name == 'relate' else None
                    rel = 1
                else:
                    if name == 'relate':
                        w.l2.append(x)
                    else:
                        w.l2.remove(x)
                    rel = 2
                fn = xtuml.relate if name == 'relate' else xtuml.unrelate
                return repr(fn(w.inst[x], w.inst[y], rel)), exp
            if name == 'delete':
                who = op[1]
                exp = 'ok'
                w.alive[who] = False
                if who == 'a' or who == w.l1:
                    w.l1 = None
                if who == 'e':
                    w.l2 = []
                elif who in w.l2:
                    w.l2.remove(who)
                xtuml.delete(w.inst[who])
                return 'ok', exp
        except xtuml.MetaException as e:
            return ('MetaException' if type(e).__name__ == 'MetaException' else type(e).__name__), exp
        except (AttributeError, KeyError) as e:
            return 'error', exp
        raise ValueError(op)

    def expected(self, w, who):
        if who == 'e':
            return w.eid
        if who == 'a':
            return self.expected(w, w.l1) if w.l1 else None
        return w.eid if who in w.l2 else None

    def apply(self, ctx, w, op, hist):
        case = self.case(hist, op)

        def bad(kind, msg, exp=None, got=None):
            ctx.violation('c10:ref:%s' % kind, case, '[referential chain, %s] history %s, then %s: %s' % (self.layout, hist, op, msg), exp, got,
                          unit_test=ref_unit_test(hist, op, self.layout))
        ctx.count('traces')
        ctx.count('ref_traces')
        got, exp = self.step(w, op)
        ctx.distinct('outcomes', (op[0], got))
        ctx.distinct('ref_outcomes', (op[0], got))
        if exp is not None and got != exp:
            bad('%s:outcome' % op[0], 'outcome %s, expected %s' % (got, exp), exp, got)
            return False
        return self.check_reads(ctx, w, bad, op[0])

    def check_reads(self, ctx, w, bad, opname):
        import xtuml
        for who in REF_WHO:
            exp = self.expected(w, who)
            for s in self.sp[who]:
                ctx.count('reads')
                try:
                    got = getattr(w.inst[who], s)
                except AttributeError:
                    got = DELETED
                if got != exp:
                    bad('%s:read' % opname, 'reading %s.%s gives %r, expected %r (the value read under the declared spelling '
                        'is %r)' % (who, s, got, exp, getattr(w.inst[who], REF_ATTR[who], DELETED)), exp, got)
                    return False
        # the value serialised
        for who in REF_WHO:
            vals = {'a': [1, self.expected(w, 'a')], 'e': [w.eid]}.get(who)
            types = ['UNIQUE_ID', 'UNIQUE_ID']
            if vals is None:
                vals, types = [self.expected(w, who), 1 if who == 'c1' else 2], ['UNIQUE_ID', 'INTEGER']
            exp_text = 'INSERT INTO %s VALUES (%s);' % (REF_KIND[who], ', '.join(xtuml.serialize_value(v, t)
                                                                                  for v, t in zip(vals, types)))
            text = xtuml.serialize_instance(w.inst[who])
            ctx.count('reads')
            if norm_text(text) != norm_text(exp_text):
                bad('%s:serialize' % opname, 'serialize_instance(%s) gives %r, expected %r' % (who, text, exp_text), exp_text, text)
                return False
        # the value matched by queries: the whole selection is compared
        for kind, members in (('Ab', ('a',)), ('Cd', ('c1', 'c2')), ('Ef', ('e',))):
            for n, s in enumerate(self.sp[members[0]]):
                for v in REF_QUERY:
                    want = [who for who in members if w.alive[who] and self.expected(w, who) == v]
                    for form in ('kw', 'dict'):
                        ctx.count('reads')
                        q = xtuml.where_eq(**{s: v}) if form == 'kw' else {s: v}
                        sel = list(w.m.select_many(self.kinds[kind][n % 4], q))
                        got = [who for who in members if any(i is w.inst[who] for i in sel)]
                        if got != want or len(sel) != len(want):
                            bad('%s:where_eq' % opname, 'where_eq(%s=%r) on %s selects %s, expected %s' % (s, v, kind, got, want),
                                want, got)
                            return False
        return True

    def probes(self, ctx, w, hist):
        case = self.case(hist, ['probe'])

        def bad(kind, msg, exp=None, got=None):
            ctx.violation('c10:ref:%s' % kind, case, '[referential chain, %s] state %s: %s' % (self.layout, hist, msg), exp, got,
                          unit_test=ref_unit_test(hist, None, self.layout))
        self.check_reads(ctx, w, bad, 'state')


def ref_unit_test(hist, op, layout='chain'):
    lines = ['import xtuml', 'l = xtuml.ModelLoader()', 'l.input(%r)' % REF_SQL]
    if layout in REF_ROWS:
        lines += ['l.input(%r)' % REF_ROWS[layout], 'm = l.build_metamodel(xtuml.IntegerGenerator())',
                  "a = m.select_any('Ab'); c1, c2 = sorted(m.select_many('Cd'), key=lambda c: c.Nm); e = m.select_any('Ef')"]
    else:
        lines += ['m = l.build_metamodel(xtuml.IntegerGenerator())',
                  "a = m.new('Ab', Id=1); c1 = m.new('Cd', Nm=1); c2 = m.new('Cd', Nm=2); e = m.new('Ef', Id=%d)" % REF_EID[0]]

    def stmt(o):
        if o[0] == 'set':
            return '%s.%s = %r' % (o[1], o[2], o[3])
        if o[0] == 'del':
            return 'del %s.%s' % (o[1], o[2])
        if o[0] == 'delete':
            return 'xtuml.delete(%s)' % o[1]
        return 'xtuml.%s(%s, %s, %d)' % (o[0], o[1], o[2], 1 if o[1] == 'a' else 2)
    for o in hist:
        lines.append(stmt(o))
    if op:
        lines.append(stmt(op) + '   # <- failing step')
    for who in ('a', 'c1', 'c2'):
        lines.append('print([(s, getattr(%s, s, None)) for s in %r])' % (who, spellings(REF_ATTR[who])))
    return '\n'.join(lines)


# ---------------------------------------------------------------------------------------------------------------------
# palette family: modeled attribute names that coincide, in some letter case, with names python objects or the library's
# own classes define (or could come to define); declared in one case, accessed in every case
# ---------------------------------------------------------------------------------------------------------------------
PALETTE = {'quick': ['Kind', 'Name', 'Type', 'Self', 'Key', 'New', 'Id', 'Links', 'Class', 'Storage', 'Attributes', 'Metaclass'],
           'thorough': ['Kind', 'Name', 'Type', 'Self', 'Key', 'New', 'Id', 'Links', 'Class', 'Storage', 'Attributes', 'Metaclass',
                        'Dict', 'Doc', 'Nav', 'Get', 'Last', 'Clazz', 'First', 'Value', 'Query', 'Clone', 'Delete', 'Select',
                        'Module', 'Indices', 'Metamodel', 'Navigate']}
PALETTE_ALL_PATTERNS = 4      # names of up to this many letters: all 2^n case patterns are accessed
PALETTE_VALS = ['p', 'q']
PALETTE_SLICE = 16
PALETTE_MAX_DEPTH = 10
# Python parameter names of MetaModel.new(self, kind, ...) and MetaClass.new/__call__(self, ...): a constructor keyword
# spelled exactly like one of them could not be passed at all (TypeError: got multiple values for argument 'kind') while
# every other spelling of the same attribute name was accepted: F-C10d, repaired in /repo (positional-only parameters).
PALETTE_PARAMETER_NAMES_CHECKED = True
PYTHON_PARAMETERS = {'model': ('self', 'kind'), 'metaclass': ('self',)}


def patterns(name):
    """Case patterns in which a name is accessed: all 2^n for short names, a fixed set of six for longer ones."""
    if sum(ch.isalpha() for ch in name) <= PALETTE_ALL_PATTERNS:
        return spellings(name)
    alt = ''.join(ch.upper() if i % 2 else ch.lower() for i, ch in enumerate(name))
    out = []
    for s in (name.lower(), name.upper(), name.capitalize(), name.capitalize().swapcase(), alt, alt.swapcase()):
        if s not in out:
            out.append(s)
    return out


def declared_forms(name, tier):
    """Spellings under which the palette name is declared."""
    if tier != 'quick' and sum(ch.isalpha() for ch in name) <= PALETTE_ALL_PATTERNS:
        return spellings(name)
    out = []
    for s in (name.capitalize(), name.upper(), name.lower(), name.capitalize().swapcase()):
        if s not in out:
            out.append(s)
    return out


# Names with a letter whose case mappings do not round-trip (str.upper() is what the library compares): 'Maß'.upper() ==
# 'MASS' but 'MASS'.lower() == 'mass' != 'maß'; dotless 'ı'.upper() == 'I' but 'I'.lower() == 'i'; long s, the fi ligature.
# The spellings of such a name are ALL strings whose upper() equals the upper() of the declared name (so 'MASS', 'mass',
# 'maß', 'MAß' address the attribute declared 'Maß'), generated with str.upper / lower / swapcase / capitalize and, for
# short names, per-character toggling of both the name and its upper-cased form.
FOLD_NAMES = {'quick': ['Ma\xdf', 'S\u0131ra'],
              'thorough': ['Ma\xdf', 'S\u0131ra', '\u017fo', '\ufb01x', 'Stra\xdfe']}


def fold_base(layout):
    for name in FOLD_NAMES['thorough']:
        if name.upper() == layout.upper():
            return name
    return None


def fold_declared(name, tier):
    out = []
    for s in (name, name.lower(), name.upper()) + ((name.swapcase(), name.upper().lower()) if tier != 'quick' else ()):
        if s not in out:
            out.append(s)
    return out


def fold_patterns(base, decl):
    pool = [decl] + ([base] if base != decl else [])
    for _ in range(2):
        for x in list(pool):
            for f in (str.upper, str.lower, str.swapcase, str.capitalize):
                if f(x) not in pool:
                    pool.append(f(x))
    if sum(ch.isalpha() for ch in base) <= PALETTE_ALL_PATTERNS:
        for x in spellings(base) + spellings(base.upper()):
            if x not in pool:
                pool.append(x)
    return [s for s in pool if s.upper() == decl.upper()]


def palette_layouts(tier):
    return ['%s' % d for name in PALETTE[tier] for d in declared_forms(name, tier)] + \
           [d for name in FOLD_NAMES[tier] for d in fold_declared(name, tier)]


class PaletteModel(explorer.Model):
    """One class Zz whose first attribute is declared as *layout*; classes Y0.. refer to it through associations that
    spell the key in other letter cases."""

    def __init__(self, tier, layout, seed=0):
        self.tier = tier
        self.layout = layout
        self.decl = layout
        self.sp = patterns(layout)
        if fold_base(layout):
            self.sp = fold_patterns(fold_base(layout), layout)
        if self.decl not in self.sp:
            self.sp.append(self.decl)
        self.rop_keys = []
        for s in (self.decl.lower(), self.decl.upper(), self.decl.capitalize(), self.decl.swapcase()):
            if s not in self.rop_keys:
                self.rop_keys.append(s)
        self.sql = 'CREATE TABLE Zz (%s STRING, Ot INTEGER);\n' % self.decl
        for i, k in enumerate(self.rop_keys):
            self.sql += 'CREATE TABLE Y%d (R_f STRING);\n' % i
            self.sql += 'CREATE ROP REF_ID R%d FROM MC Y%d (R_f) TO 1C Zz (%s);\n' % (i + 1, i, k)
        self.rf = spellings('R_f')

    def case(self, hist, op):
        return dict(family='palette', layout=self.layout, hist=hist, op=op, tier=self.tier)

    def build(self, hist):
        import xtuml
        w = World()
        # (the loader's populate_classes / populate_associations calls, without parsing self.sql -- 10x cheaper)
        w.m = xtuml.MetaModel(xtuml.IntegerGenerator())
        w.m.define_class('Zz', [(self.decl, 'STRING'), ('Ot', 'INTEGER')])
        for i, k in enumerate(self.rop_keys):
            w.m.define_class('Y%d' % i, [('R_f', 'STRING')])
            w.m.define_association('R%d' % (i + 1), 'Y%d' % i, ['R_f'], True, True, '', 'Zz', [k], False, True, '').formalize()
        w.mc = w.m.find_metaclass('Zz')
        w.z = w.mc.new()
        w.ys = []
        for i in range(len(self.rop_keys)):
            y = w.m.find_metaclass('Y%d' % i).new()
            xtuml.relate(y, w.z, i + 1)
            w.ys.append(y)
        w.ref = ''
        w.written = set()
        try:
            w.slots0 = len(w.z.__dict__)
        except Exception:
            w.slots0 = 0
        for op in hist:
            self.step(w, op)
        return w

    def canon(self, w):
        try:
            proxy = sorted(w.z.__dict__.keys())
        except Exception:
            proxy = None
        return json.dumps([w.ref, proxy], default=repr)

    def enabled(self, w):
        ops = []
        for s in self.sp:
            for v in PALETTE_VALS:
                ops.append(['set', s, v])
            ops.append(['del', s])
        for n, s in enumerate(self.sp):       # constructor keywords: terminal; the two routes alternate
            routes = ('metaclass', 'model') if n % 2 else ('model', 'metaclass')
            if not PALETTE_PARAMETER_NAMES_CHECKED:
                routes = [r for r in routes if s not in PYTHON_PARAMETERS[r]]
            for route in routes[:1]:
                ops.append(['new', route, spellings('Zz')[n % 4], {s: 'q'}])
        return ops

    def step(self, w, op):
        name = op[0]
        try:
            if name == 'set':
                exp = 'ok'
                w.ref = op[2]
                w.written.add(op[1])
                setattr(w.z, op[1], op[2])
                return 'ok', exp
            if name == 'del':
                exp = 'ok' if w.ref != DELETED else 'error'
                w.ref = DELETED
                delattr(w.z, op[1])
                return 'ok', exp
        except (AttributeError, KeyError) as e:
            return 'error', exp
        raise ValueError(op)

    def apply(self, ctx, w, op, hist):
        case = self.case(hist, op)

        def bad(kind, msg, exp=None, got=None):
            ctx.violation('c10:palette:%s' % kind, case, '[attribute declared %r] history %s, then %s: %s' %
                          (self.decl, hist, op, msg), exp, got, unit_test=self.unit_test(hist, op))
        ctx.count('traces')
        ctx.count('palette_traces')
        if op[0] == 'new':
            return self.apply_new(ctx, w, op, bad)
        got, exp = self.step(w, op)
        ctx.distinct('outcomes', (op[0], got))
        if got != exp and not (op[0] == 'del' and exp == 'error'):
            bad('%s:outcome' % op[0], 'outcome %s, expected %s' % (got, exp), exp, got)
            return False
        if not self.check_reads(ctx, w, w.z, w.ref, bad, op[0]):
            return False
        if op[0] == 'set' and self.grown(w):
            # The write left one more entry in the instance than it had when it was created. That alone is no verdict (the
            # entry is not part of the statement), it is the occasion for one more observation, made in a world of its own:
            # after a deletion under the declared spelling every spelling must read unset -- a spelling that still reads
            # a value was given a second stored value by the write (which happened to equal the first one). Such a state
            # is not expanded (every further spelling written would double the state space).
            w2 = self.build(hist + [op])
            try:
                delattr(w2.z, self.decl)
            except (AttributeError, KeyError):
                pass
            seen = [getattr(w2.z, s, DELETED) for s in self.sp]
            ctx.count('reads', len(seen))
            if any(g not in (None, DELETED) for g in seen):
                bad('set:second-value', 'after this write and a deletion under the declared spelling %r the spellings %s '
                    'read %s: the write did not address the one stored value' % (self.decl, self.sp, seen),
                    'all unset', seen)
                return False
        return True

    def grown(self, w):
        try:
            return len(w.z.__dict__) > w.slots0
        except Exception:
            return False

    def apply_new(self, ctx, w, op, bad):
        route, ks, kw = op[1], op[2], op[3]
        try:
            inst = w.mc(**kw) if route == 'metaclass' else w.m.new(ks, **kw)
        except Exception as e:
            bad('new:exception', 'creation raised %s: %s' % (type(e).__name__, e), 'instance', type(e).__name__)
            return False
        self.check_reads(ctx, w, inst, list(kw.values())[0], bad, 'new', related=False, queries=w.ref != DELETED)
        return False        # terminal

    def check_reads(self, ctx, w, inst, exp, bad, opname, related=True, queries=True):
        import xtuml
        seen = []
        for s in self.sp:
            ctx.count('reads')
            try:
                got = getattr(inst, s)
            except AttributeError:
                got = DELETED
            seen.append(got)
            if exp != DELETED and got != exp:
                bad('%s:read' % opname, 'reading %r gives %r, expected %r (written spellings so far: %s)' %
                    (s, got, exp, sorted(w.written)), exp, got)
                return False
        if exp == DELETED:
            norm = [DELETED if g in (None, DELETED) else g for g in seen]
            if len(set(map(repr, norm))) != 1 or norm[0] != DELETED:
                bad('%s:read-after-delete' % opname, 'after deletion the spellings %s read %s' % (self.sp, seen),
                    'all alike and unset', seen)
                return False
        # referential attributes derived through associations that spell the key in other letter cases
        if related:
            for y, k in zip(w.ys, self.rop_keys):
                for s in self.rf:
                    ctx.count('reads')
                    got = getattr(y, s)
                    if (got != exp) if exp != DELETED else (got is not None):
                        bad('%s:referential' % opname, 'the referential attribute %s of the association whose key is spelled %r '
                            'reads %r, expected %r' % (s, k, got, exp), exp, got)
                        return False
        if exp == DELETED or not queries:      # (a selection reads the attribute of every instance of the class)
            return True
        text = xtuml.serialize_instance(inst)
        exp_text = 'INSERT INTO Zz VALUES (%s, 0);' % xtuml.serialize_value(exp, 'STRING')
        ctx.count('reads')
        if norm_text(text) != norm_text(exp_text):
            bad('%s:serialize' % opname, 'serialize_instance gives %r, expected %r' % (text, exp_text), exp_text, text)
            return False
        for n, s in enumerate(self.sp):
            for k, v in enumerate(PALETTE_VALS + ['']):
                for form in (('kw', 'dict')[(n + k) % 2],):        # (both forms under every spelling: first family)
                    ctx.count('reads')
                    q = xtuml.where_eq(**{s: v}) if form == 'kw' else {s: v}
                    hit = any(i is inst for i in w.m.select_many(spellings('Zz')[n % 4], q))
                    if hit != (exp == v):
                        bad('%s:where_eq' % opname, 'where_eq(%s=%r) %s the instance whose value is %r' %
                            (s, v, 'matches' if hit else 'misses', exp), exp == v, hit)
                        return False
        return True

    def probes(self, ctx, w, hist):
        case = self.case(hist, ['probe'])

        def bad(kind, msg, exp=None, got=None):
            ctx.violation('c10:palette:%s' % kind, case, '[attribute declared %r] state %s: %s' % (self.decl, hist, msg), exp, got,
                          unit_test=self.unit_test(hist, None))
        self.check_reads(ctx, w, w.z, w.ref, bad, 'state')
        for s in self.sp:
            ctx.count('reads')
            t = w.mc.attribute_type(s)
            if t is None or t.upper() != 'STRING':
                bad('attribute_type', 'attribute_type(%r) is %r' % (s, t), 'STRING', t)

    def unit_test(self, hist, op):
        lines = ['import xtuml', 'l = xtuml.ModelLoader()', 'l.input(%r)' % self.sql,
                 'm = l.build_metamodel(xtuml.IntegerGenerator())', "mc = m.find_metaclass('Zz'); z = mc.new(); ys = []"]
        for i in range(len(self.rop_keys)):
            lines.append("ys.append(m.new('Y%d')); xtuml.relate(ys[-1], z, %d)" % (i, i + 1))

        def stmt(o):
            if o[0] == 'set':
                return 'setattr(z, %r, %r)' % (o[1], o[2])
            if o[0] == 'del':
                return 'delattr(z, %r)' % o[1]
            return 'z = mc(**%r)' % (o[3],) if o[1] == 'metaclass' else 'z = m.new(%r, **%r)' % (o[2], o[3])
        for o in hist:
            lines.append(stmt(o))
        if op:
            lines.append(stmt(op) + '   # <- failing step')
        lines.append('print([(s, getattr(z, s, None)) for s in %r])' % (self.sp,))
        lines.append('print([y.R_f for y in ys])')
        return '\n'.join(lines)


# ---------------------------------------------------------------------------------------------------------------------
# definition family: a metamodel in which the class is NOT defined yet; lookups / selections / creations under some
# spellings are rejected first, then the class is defined under one spelling, then every spelling must address it
# ---------------------------------------------------------------------------------------------------------------------
# (DEF_* constants: top of the module)


class DefModel(explorer.Model):
    def __init__(self, tier, layout='empty', seed=0):
        self.tier = tier
        self.layout = layout
        self.kinds = spellings(DEF_KIND)

    def case(self, hist, op):
        return dict(family='def', layout=self.layout, hist=hist, op=op, tier=self.tier)

    def build(self, hist):
        import xtuml
        w = World()
        w.m = xtuml.MetaModel(xtuml.IntegerGenerator())
        w.others = {}
        w.mc = None
        w.defined = None
        w.probed = []
        w.insts = []
        for op in hist:
            self.step(w, op)
        return w

    def other(self, w, ks):
        """An instance of a class spelled *ks* in another metamodel (what clone() is given)."""
        import xtuml
        if ks not in w.others:
            o = xtuml.MetaModel(xtuml.IntegerGenerator())
            o.define_class(ks, DEF_ATTRS)
            w.others[ks] = o.new(ks, Id=5, Nm='o')
        return w.others[ks]

    def canon(self, w):
        proxy = []
        try:
            for k, v in sorted(w.m.__dict__.items()):
                if isinstance(v, (set, frozenset, dict, list, tuple)):
                    proxy.append([k, len(v)])
        except Exception:
            proxy = None
        return json.dumps([w.defined, sorted(set(map(tuple, w.probed))), len(w.insts), proxy], default=repr)

    def enabled(self, w):
        ops = []
        if w.defined is None:
            if len(w.probed) < DEF_MAX_PROBES:
                for route in DEF_PROBE_ROUTES:
                    for ks in self.kinds:
                        ops.append(['probe', route, ks])
            for route in DEF_DEFINE_ROUTES:
                for ks in self.kinds:
                    ops.append(['define', route, ks])
        elif not w.insts:
            for route in DEF_CREATE_ROUTES:
                for ks in self.kinds:
                    ops.append(['create', route, ks])
        return ops

    def use(self, w, route, ks):
        import xtuml
        m = w.m
        if route == 'find_metaclass':
            return m.find_metaclass(ks)
        if route == 'find_class':
            return m.find_class(ks)
        if route == 'select_many':
            return list(m.select_many(ks))
        if route == 'select_one':
            return m.select_one(ks)
        if route == 'select_any':
            return m.select_any(ks)
        if route == 'new':
            return m.new(ks, Nm='q')
        if route == 'clone':
            return m.clone(self.other(w, ks))
        raise ValueError(route)

    def step(self, w, op):
        import xtuml
        name, route, ks = op
        exp = None
        try:
            if name == 'probe':
                exp = 'UnknownClassException' if w.defined is None else 'ok'
                if w.defined is None:
                    w.probed.append([route, ks])
                self.use(w, route, ks)
                return 'ok', exp
            if name == 'define':
                exp = 'ok' if w.defined is None else 'MetaModelException'
                if w.defined is None:
                    w.defined = ks
                if route == 'define_class':
                    w.mc = w.m.define_class(ks, DEF_ATTRS)
                else:
                    l = xtuml.ModelLoader()
                    l.input('CREATE TABLE %s (%s);' % (ks, ', '.join('%s %s' % a for a in DEF_ATTRS)))
                    l.populate(w.m)
                    w.mc = list(w.m.metaclasses.values())[0]
                return 'ok', exp
            if name == 'create':
                exp = 'ok' if w.defined is not None else 'UnknownClassException'
                inst = self.use(w, route, ks)
                w.insts.append(inst)
                return 'ok', exp
        except xtuml.MetaException as e:
            return type(e).__name__, exp
        raise ValueError(op)

    def apply(self, ctx, w, op, hist):
        case = self.case(hist, op)

        def bad(kind, msg, exp=None, got=None):
            ctx.violation('c10:def:%s' % kind, case, '[class defined after rejected uses] history %s, then %s: %s' %
                          (hist, op, msg), exp, got, unit_test=def_unit_test(hist, op))
        ctx.count('traces')
        ctx.count('def_traces')
        got, exp = self.step(w, op)
        ctx.distinct('outcomes', (op[0], got))
        ctx.distinct('def_outcomes', (op[0], got))
        if got != exp:
            bad('%s:outcome' % op[0], '%s(%r) %s, expected %s' % (op[1], op[2], got, exp), exp, got)
            return False
        return self.observe(ctx, w, bad, op[0])

    def observe(self, ctx, w, bad, opname):
        """Every spelling of the class name through every route addresses the one class (not evaluated before the
        definition: an observation there is a rejected use, i.e. an operation of the history)."""
        import xtuml
        if w.defined is None:
            return True
        first = w.insts[0] if w.insts else None
        for ks in self.kinds:
            for route in ('find_metaclass', 'find_class', 'select_many', 'select_one', 'select_any'):
                ctx.count('reads')
                want = {'find_metaclass': w.mc, 'find_class': w.mc.clazz, 'select_many': w.insts}.get(route, first)
                try:
                    got = self.use(w, route, ks)
                except xtuml.MetaException as e:
                    bad('%s:%s' % (opname, route), '%s(%r) raises %s although the class was defined as %r (rejected uses before '
                        'the definition: %s)' % (route, ks, type(e).__name__, w.defined, w.probed), 'the class', type(e).__name__)
                    return False
                same = (len(got) == len(want) and all(x is y for x, y in zip(got, want))) if route == 'select_many' else got is want
                if not same:
                    bad('%s:%s:other' % (opname, route), '%s(%r) gives %r, expected %r' % (route, ks, got, want), repr(want), repr(got))
                    return False
            ctx.count('reads')
            try:
                w.m.define_class(ks, [('Zz', 'INTEGER')])
                redefined = True
            except xtuml.MetaException:
                redefined = False
            if redefined or w.m.find_metaclass(w.defined) is not w.mc:
                bad('%s:define_class' % opname, 'define_class(%r) replaced the class defined as %r' % (ks, w.defined),
                    'MetaModelException', 'accepted')
                return False
        for inst in w.insts:
            ctx.count('reads')
            if xtuml.get_metaclass(inst) is not w.mc:
                bad('%s:metaclass' % opname, 'the created instance belongs to another class than the one defined')
                return False
            text = xtuml.serialize_instance(inst)
            if not norm_text(text).startswith('INSERTINTO%sVALUES(' % w.defined):
                bad('%s:serialize' % opname, 'serialize_instance gives %r, expected the class name %r' % (text, w.defined),
                    w.defined, text)
                return False
        return True

    def probes(self, ctx, w, hist):
        case = self.case(hist, ['probe'])

        def bad(kind, msg, exp=None, got=None):
            ctx.violation('c10:def:%s' % kind, case, '[class defined after rejected uses] state %s: %s' % (hist, msg), exp, got,
                          unit_test=def_unit_test(hist, None))
        self.observe(ctx, w, bad, 'state')


def def_unit_test(hist, op):
    lines = ['import xtuml', 'm = xtuml.MetaModel(xtuml.IntegerGenerator())', 'attrs = %r' % (DEF_ATTRS,), '',
             'def other(ks):', '    o = xtuml.MetaModel(xtuml.IntegerGenerator()); o.define_class(ks, attrs)',
             "    return o.new(ks, Id=5, Nm='o')", '', 'def use(route, ks):',
             "    if route == 'new': return m.new(ks, Nm='q')", "    if route == 'clone': return m.clone(other(ks))",
             '    r = getattr(m, route)(ks)', '    return list(r) if route == "select_many" else r', '',
             'def probe(route, ks):', '    try: print(route, ks, use(route, ks))',
             '    except xtuml.MetaException as e: print(route, ks, repr(e))', '']

    def stmt(o):
        if o[0] in ('probe', 'create'):
            return 'probe(%r, %r)' % (o[1], o[2])
        if o[1] == 'define_class':
            return 'm.define_class(%r, attrs)' % o[2]
        return "l = xtuml.ModelLoader(); l.input('CREATE TABLE %s (%s);'); l.populate(m)" % (
            o[2], ', '.join('%s %s' % a for a in DEF_ATTRS))
    for o in hist:
        lines.append(stmt(o))
    if op:
        lines.append(stmt(op) + '   # <- failing step')
    lines.append('for ks in %r:' % (spellings(DEF_KIND),))
    lines.append("    for route in ('find_metaclass', 'find_class', 'select_many', 'select_one', 'select_any'): probe(route, ks)")
    return '\n'.join(lines)


# ---------------------------------------------------------------------------------------------------------------------
# null family: attributes that really hold None, or one of the other null-ish values (0, '', 0.0, False), on attributes of
# every core type -- identifying, plain, and the referential attributes derived from the identifying one through two
# associations (one spells the key as declared, one in another letter case). The values are written / constructed /
# loaded under every spelling and read / filtered / serialised under every spelling; reads are compared by type AND
# value (None is not 0 is not False is not 0.0 is not ''), filters by the whole selection over three or four instances.
# ---------------------------------------------------------------------------------------------------------------------
NULL_TYPES = ['UNIQUE_ID', 'STRING', 'INTEGER', 'REAL', 'BOOLEAN']
NULL_ORIGINS = ['api', 'loaded']     # the observed instance: created with positional None values / loaded from a named
                                     # INSERT that leaves the identifying column out
NULL_OF = {'UNIQUE_ID': 0, 'STRING': '', 'INTEGER': 0, 'REAL': 0.0, 'BOOLEAN': False}
NULL_NONNULL = {'UNIQUE_ID': [7, 8], 'STRING': ['p', 'q'], 'INTEGER': [5, 6], 'REAL': [1.5, 2.5], 'BOOLEAN': [True, True]}
# null-ish values of OTHER types that the serializer of the type accepts as well (thorough tier)
NULL_CROSS = {'quick': {}, 'thorough': {'INTEGER': [False], 'REAL': [0], 'BOOLEAN': [0], 'UNIQUE_ID': [False]}}
NULL_NAMES = {'quick': ('Ky', 'Pl'), 'thorough': ('Kyx', 'P_l')}
NULL_NULLISH = [None, 0, '', 0.0, False]
# (NULL_FORMS: top of the module)
NULL_NEW_ROUTES = ['model', 'metaclass', 'call']
NULL_SLICE = 16
NULL_MAX_DEPTH = 8


def null_layouts(tier):
    return ['%s/%s' % (t, o) for t in NULL_TYPES for o in NULL_ORIGINS]


def same(a, b):
    """Type-and-value equality: None, 0, 0.0, False and '' are five different values."""
    if a is None or b is None:
        return a is b
    return type(a) is type(b) and a == b


class NullModel(explorer.Model):
    def __init__(self, tier, layout, seed=0):
        self.tier = tier
        self.layout = layout
        self.ty, self.origin = layout.split('/')
        self.decl = NULL_NAMES[tier if tier in NULL_NAMES else 'quick']
        self.us = [d.upper() for d in self.decl]
        self.sp = dict((d.upper(), spellings(d)) for d in self.decl)
        self.rsp = spellings('R_k')
        self.kinds = spellings('Nv')
        self.rkey = self.decl[0].swapcase()             # the key of the second association, not spelled as declared
        self.null = NULL_OF[self.ty]
        self.nonnull = NULL_NONNULL[self.ty]
        self.vals = [None, self.null, self.nonnull[0]] + NULL_CROSS.get(tier, {}).get(self.ty, [])
        self.qvals = list(NULL_NULLISH)
        for v in self.nonnull + self.vals:
            if not any(same(v, q) for q in self.qvals):
                self.qvals.append(v)
        ky, pl = self.decl
        self.sql = ('CREATE TABLE Nv (%s %s, %s %s);\nCREATE TABLE Ra (Id UNIQUE_ID, R_k %s);\n'
                    'CREATE TABLE Rb (Id UNIQUE_ID, R_k %s);\n'
                    'CREATE ROP REF_ID R1 FROM MC Ra (R_k) TO 1C Nv (%s);\n'
                    'CREATE ROP REF_ID R2 FROM MC Rb (R_k) TO 1C Nv (%s);\n'
                    'CREATE UNIQUE INDEX I1 ON Nv (%s);\n' % (ky, self.ty, pl, self.ty, self.ty, self.ty, ky, self.rkey, ky))

    def case(self, hist, op):
        return dict(family='null', layout=self.layout, hist=hist, op=op, tier=self.tier)

    def insert_text(self):
        import xtuml
        return 'INSERT INTO Nv (%s) VALUES (%s);\n' % (self.decl[1].swapcase(), xtuml.serialize_value(self.null, self.ty))

    def build(self, hist):
        import xtuml
        w = World()
        ky, pl = self.decl
        KY, PL = self.us
        if self.origin == 'loaded':
            l = xtuml.ModelLoader()
            l.input(self.sql)
            l.input(self.insert_text())
            w.m = l.build_metamodel(xtuml.IntegerGenerator())
            w.mc = w.m.find_metaclass('Nv')
            w.x = w.m.select_any('Nv')
            xref = {KY: None, PL: self.null}
        else:
            w.m = xtuml.MetaModel(xtuml.IntegerGenerator())
            w.m.define_class('Nv', [(ky, self.ty), (pl, self.ty)])
            for k, key in (('Ra', ky), ('Rb', self.rkey)):
                w.m.define_class(k, [('Id', 'UNIQUE_ID'), ('R_k', self.ty)])
                w.m.define_association('R1' if k == 'Ra' else 'R2', k, ['R_k'], True, True, '', 'Nv', [key], False, True, '').formalize()
            w.m.define_unique_identifier('Nv', 'I1', ky)
            w.mc = w.m.find_metaclass('Nv')
            w.x = w.m.new('Nv', None, None)
            xref = {KY: None, PL: None}
        w.y = w.m.new('Nv', self.nonnull[-1], None)
        w.z = w.m.new('Nv', None, self.null)
        w.ra = w.m.new('Ra')
        w.rb = w.m.new('Rb')
        xtuml.relate(w.ra, w.x, 1)
        xtuml.relate(w.rb, w.x, 2)
        w.insts = [('x', w.x), ('y', w.y), ('z', w.z)]
        w.ref = {'x': xref, 'y': {KY: self.nonnull[-1], PL: None}, 'z': {KY: None, PL: self.null}}
        w.written = set()
        for op in hist:
            self.step(w, op)
        return w

    def canon(self, w):
        try:
            proxy = sorted(w.x.__dict__.keys())
        except Exception:
            proxy = None
        return json.dumps([[u, repr(w.ref['x'][u])] for u in self.us] + [proxy])

    def enabled(self, w):
        ops = []
        for u in self.us:
            for s in self.sp[u]:
                for v in self.vals:
                    ops.append(['set', s, v])
                ops.append(['del', s])
        # constructor forms: terminal transitions (checked, not expanded); routes and class spellings cycled
        n = 0
        for u in self.us:
            for s in self.sp[u]:
                for v in (None, self.null):
                    ops.append(['new', NULL_NEW_ROUTES[n % 3], self.kinds[n % 4], {s: v}])
                    n += 1
        ky, pl = self.decl
        ops.append(['new', 'model', 'nV', {ky.swapcase(): None, pl.swapcase(): None}])
        for pos in ([None, None], [self.null, None], [None, self.null], [None]):
            ops.append(['newpos', NULL_NEW_ROUTES[n % 3], self.kinds[n % 4], pos])
            n += 1
        if DELETED not in w.ref['x'].values():
            ops.append(['clone', 'model'])
            ops.append(['clone', 'metaclass'])
        return ops

    def step(self, w, op):
        name = op[0]
        u = op[1].upper()
        try:
            if name == 'set':
                exp = 'ok'
                w.ref['x'][u] = op[2]
                w.written.add(op[1])
                setattr(w.x, op[1], op[2])
                return 'ok', exp
            if name == 'del':
                exp = 'ok' if w.ref['x'][u] != DELETED else 'error'
                w.ref['x'][u] = DELETED
                delattr(w.x, op[1])
                return 'ok', exp
        except (AttributeError, KeyError) as e:
            return 'error', exp
        raise ValueError(op)

    def apply(self, ctx, w, op, hist):
        case = self.case(hist, op)

        def bad(kind, msg, exp=None, got=None):
            ctx.violation('c10:null:%s' % kind, case, '[null values, %s] history %s, then %s: %s' % (self.layout, hist, op, msg),
                          repr(exp), repr(got), unit_test=self.unit_test(hist, op))
        ctx.count('traces')
        ctx.count('null_traces')
        if op[0] in ('new', 'newpos', 'clone'):
            return self.apply_new(ctx, w, op, bad)
        got, exp = self.step(w, op)
        ctx.distinct('outcomes', (op[0], got))
        if got != exp and not (op[0] == 'del' and exp == 'error'):
            bad('%s:outcome' % op[0], 'outcome %s, expected %s' % (got, exp), exp, got)
            return False
        return self.check_reads(ctx, w, bad, op[0])

    def apply_new(self, ctx, w, op, bad):
        KY, PL = self.us
        try:
            if op[0] == 'clone':
                inst = w.m.clone(w.x) if op[1] == 'model' else w.mc.clone(w.x)
                exp = dict(w.ref['x'])
            else:
                args, kw = (op[3], {}) if op[0] == 'newpos' else ([], op[3])
                if op[1] == 'model':
                    inst = w.m.new(op[2], *args, **kw)
                elif op[1] == 'metaclass':
                    inst = w.mc.new(*args, **kw)
                else:
                    inst = w.mc(*args, **kw)
                exp = {KY: DELETED, PL: DELETED}        # DELETED = not given: the default of the type
                for u, v in zip(self.us, args):
                    exp[u] = v
                for k, v in kw.items():
                    exp[k.upper()] = v
        except Exception as e:
            bad('%s:exception' % op[0], 'creation raised %s: %s' % (type(e).__name__, e), 'instance', type(e).__name__)
            return False
        ctx.distinct('outcomes', (op[0], 'ok'))
        for u, d in zip(self.us, self.decl):
            if exp[u] == DELETED:
                exp[u] = self.null
                if self.ty == 'UNIQUE_ID':
                    exp[u] = getattr(inst, d)      # defaulted id: any fresh value
                    if exp[u] in (None, 0) or isinstance(exp[u], bool):
                        bad('%s:default' % op[0], 'the defaulted unique_id attribute %s of the created instance reads %r' % (d, exp[u]),
                            'a fresh id', exp[u])
                        return False
        w.insts = w.insts + [('n', inst)]
        w.ref['n'] = exp
        self.check_reads(ctx, w, bad, op[0])
        return False       # terminal

    def check_reads(self, ctx, w, bad, opname):
        import xtuml
        KY, PL = self.us
        xdel = [u for u in self.us if w.ref['x'][u] == DELETED]
        for who, inst in w.insts:
            for u, d in zip(self.us, self.decl):
                exp = w.ref[who][u]
                seen = []
                for s in self.sp[u]:
                    ctx.count('reads')
                    try:
                        got = getattr(inst, s)
                    except AttributeError:
                        got = DELETED
                    seen.append(got)
                    if exp is None and s != d:
                        ctx.count('null_none_reads')
                    if exp != DELETED and not same(got, exp):
                        bad('%s:read' % opname, 'reading %s.%s gives %r, expected %r (the declared spelling %s reads %r)' %
                            (who, s, got, exp, d, getattr(inst, d, DELETED)), exp, got)
                        return False
                if exp == DELETED:
                    if any(g is not None and g != DELETED for g in seen) or len(set(map(repr, seen))) != 1:
                        bad('%s:read-after-delete' % opname, 'after deletion the spellings %s of %s read %s' %
                            (self.sp[u], who, seen), 'all alike and unset', seen)
                        return False
        # the referential attributes derived from x's identifying attribute, through the association that spells the key as
        # declared (Ra) and the one that spells it in another letter case (Rb)
        exp = w.ref['x'][KY]
        for rname, rinst in (('ra', w.ra), ('rb', w.rb)):
            for s in self.rsp:
                ctx.count('reads')
                got = getattr(rinst, s)
                if (got is not None) if exp == DELETED else (not same(got, exp)):
                    bad('%s:referential' % opname, 'the referential attribute %s.%s (key spelled %r) reads %r, expected %r' %
                        (rname, s, self.decl[0] if rname == 'ra' else self.rkey, got, None if exp == DELETED else exp),
                        None if exp == DELETED else exp, got)
                    return False
        # the value serialised
        for who, inst in w.insts:
            if who == 'x' and xdel:
                continue
            ctx.count('reads')
            text = xtuml.serialize_instance(inst)
            exp_text = 'INSERT INTO Nv VALUES (%s);' % ', '.join(xtuml.serialize_value(w.ref[who][u], self.ty) for u in self.us)
            if norm_text(text) != norm_text(exp_text):
                bad('%s:serialize' % opname, 'serialize_instance(%s) gives %r, expected %r' % (who, text, exp_text), exp_text, text)
                return False
        # the value matched by queries: whole selections, every spelling, every null-ish value and the values of the type
        for u in self.us:
            if u in xdel:
                continue         # (a selection reads the attribute of every instance of the class)
            for n, s in enumerate(self.sp[u]):
                for v in self.qvals:
                    want = [inst for who, inst in w.insts if w.ref[who][u] == v]
                    if v is None and want:
                        ctx.count('null_none_filters')
                    for form in NULL_FORMS:
                        ctx.count('reads')
                        ctx.count('null_filters')
                        got, exp = self.select(w, form, self.kinds[n % 4], s, v), want
                        if form in ('any', 'one'):
                            exp = want[:1]
                        elif form == 'nav':
                            exp = [i for i in want if i is w.x]
                        if len(got) != len(exp) or any(g is not e for g, e in zip(got, exp)):
                            name = dict((id(i), k) for k, i in w.insts)
                            bad('%s:where_eq' % opname, 'the filter %s=%r (form %s) selects %s, expected %s; stored values of the '
                                'attribute: %s' % (s, v, form, [name.get(id(i), '?') for i in got], [name[id(i)] for i in exp],
                                                   [(k, w.ref[k][u]) for k, _ in w.insts]),
                                [name[id(i)] for i in exp], [name.get(id(i), '?') for i in got])
                            return False
        return True

    def select(self, w, form, ks, s, v):
        import xtuml
        d = {s: v}
        if form == 'kw':
            return list(w.m.select_many(ks, xtuml.where_eq(**d)))
        if form == 'dict':
            return list(w.m.select_many(ks, d))
        if form == 'query':
            return list(w.mc.query(d))
        if form == 'any':
            got = w.m.select_any(ks, xtuml.where_eq(**d))
        elif form == 'one':
            got = w.mc.select_one(d)
        else:
            return list(xtuml.navigate_many(w.ra).nav(ks, 1)(d))
        return [] if got is None else [got]

    def probes(self, ctx, w, hist):
        case = self.case(hist, ['probe'])

        def bad(kind, msg, exp=None, got=None):
            ctx.violation('c10:null:%s' % kind, case, '[null values, %s] state %s: %s' % (self.layout, hist, msg),
                          repr(exp), repr(got), unit_test=self.unit_test(hist, None))
        self.check_reads(ctx, w, bad, 'state')
        for u in self.us:
            for s in self.sp[u]:
                ctx.count('reads')
                t = w.mc.attribute_type(s)
                if t is None or t.upper() != self.ty:
                    bad('attribute_type', 'attribute_type(%r) is %r' % (s, t), self.ty, t)

    def unit_test(self, hist, op):
        ky, pl = self.decl
        lines = ['import xtuml', 'l = xtuml.ModelLoader()', 'l.input(%r)' % self.sql]
        if self.origin == 'loaded':
            lines += ['l.input(%r)' % self.insert_text(), 'm = l.build_metamodel(xtuml.IntegerGenerator())', "x = m.select_any('Nv')"]
        else:
            lines += ['m = l.build_metamodel(xtuml.IntegerGenerator())', "x = m.new('Nv', None, None)"]
        lines += ["mc = m.find_metaclass('Nv')", "y = m.new('Nv', %r, None); z = m.new('Nv', None, %r)" % (self.nonnull[-1], self.null),
                  "ra = m.new('Ra'); rb = m.new('Rb'); xtuml.relate(ra, x, 1); xtuml.relate(rb, x, 2)"]

        def stmt(o):
            if o[0] == 'set':
                return 'setattr(x, %r, %r)' % (o[1], o[2])
            if o[0] == 'del':
                return 'delattr(x, %r)' % o[1]
            if o[0] == 'clone':
                return 'n = m.clone(x)' if o[1] == 'model' else 'n = mc.clone(x)'
            args = ', '.join(map(repr, o[3])) if o[0] == 'newpos' else '**%r' % (o[3],)
            return 'n = %s%s)' % ({'model': 'm.new(%r, ' % o[2], 'metaclass': 'mc.new(', 'call': 'mc('}[o[1]], args)
        for o in hist:
            lines.append(stmt(o))
        who = 'x'
        if op:
            lines.append(stmt(op) + '   # <- failing step')
            who = 'n' if op[0] in ('new', 'newpos', 'clone') else 'x'
        lines.append('print([(s, getattr(%s, s, None)) for s in %r])' % (who, self.sp[self.us[0]] + self.sp[self.us[1]]))
        lines.append('print([(s, getattr(ra, s), getattr(rb, s)) for s in %r])' % (self.rsp,))
        lines.append('print([(s, v, [str(i) for i in m.select_many("Nv", xtuml.where_eq(**{s: v}))]) for s in %r for v in %r])' %
                     (self.sp[self.us[0]] + self.sp[self.us[1]], self.qvals))
        return '\n'.join(lines)


# ---------------------------------------------------------------------------------------------------------------------
# search to closure over several families at once
# ---------------------------------------------------------------------------------------------------------------------
FAMILIES = {
    'twin': dict(model=TwinModel, slice=TWIN_SLICE, max_depth=TWIN_MAX_DEPTH, label='twins'),
    'ref': dict(model=RefModel, slice=REF_SLICE, max_depth=REF_MAX_DEPTH, label='referential chain'),
    'palette': dict(model=PaletteModel, slice=PALETTE_SLICE, max_depth=PALETTE_MAX_DEPTH, label='palette'),
    'def': dict(model=DefModel, slice=DEF_SLICE, max_depth=DEF_MAX_DEPTH, label='definition'),
    'null': dict(model=NullModel, slice=NULL_SLICE, max_depth=NULL_MAX_DEPTH, label='null values'),
}


def make_model(family, layout, tier, seed=0):
    return FAMILIES[family]['model'](tier, layout, seed)


def _family_expand(sub, args):
    """One slice of the operations enabled in one state (explorer._expand, sliced)."""
    family, layout, hist, lo = args
    model = make_model(family, layout, sub.tier, sub.seed)
    ok, world = explorer.guarded(sub, model, hist, None, lambda: model.build(hist))
    if not ok:
        return []
    if lo == 0:
        sub.count('states_expanded')
        ok, _ = explorer.guarded(sub, model, hist, None, lambda: model.probes(sub, world, hist))
        if not ok:
            return []
    ops = explorer.rotate(model.enabled(world), sub.seed)[lo:lo + FAMILIES[family]['slice']]
    out = []
    for op in ops:
        sub.count('transitions')

        def one():
            w = model.build(hist)
            if model.apply(sub, w, op, hist):
                return model.canon(w), len(model.enabled(w))
            return None
        ok, res = explorer.guarded(sub, model, hist, op, one)
        if ok and res is not None:
            out.append((res[0], res[1], op))
    return out


def family_bfs(ctx, specs):
    """Search to closure over all (family, layout) pairs at once; a task is (family, layout, state, slice of the
    operations enabled in that state)."""
    seen, frontier = {}, []
    for family, layout in specs:
        model = make_model(family, layout, ctx.tier, ctx.seed)
        ok, w = explorer.guarded(ctx, model, [], None, lambda: model.build([]))
        if not ok:
            continue
        seen[(family, layout, model.canon(w))] = []
        frontier.append((family, layout, [], len(model.enabled(w))))
    depth = 0
    open_families = set()
    last_depth = {}
    while frontier:
        keep = []
        for f in frontier:
            if depth >= FAMILIES[f[0]]['max_depth']:
                if f[0] not in open_families:
                    open_families.add(f[0])
                    ctx.cap('%s: depth bound %d reached with unexpanded states' % (FAMILIES[f[0]]['label'], depth))
            else:
                keep.append(f)
                last_depth[f[0]] = depth + 1
        frontier = keep
        if not frontier:
            break
        tasks = [(family, layout, h, lo) for family, layout, h, n in frontier
                 for lo in range(0, max(n, 1), FAMILIES[family]['slice'])]
        results = ctx.pmap(_family_expand, tasks, chunk=1)
        nxt = []
        for (family, layout, h, lo), succ in zip(tasks, results):
            for k, n_ops, op in succ:
                if (family, layout, k) not in seen:
                    seen[(family, layout, k)] = h + [op]
                    nxt.append((family, layout, h + [op], n_ops))
        frontier = nxt
        depth += 1
        if os.environ.get('VERIF_TRACE'):
            print('    families: depth %d, %d tasks, frontier %d, t=%.1fs' % (depth, len(tasks), len(frontier), ctx.elapsed()))
        if ctx.time_left() < 0 and frontier:
            for f in frontier:
                open_families.add(f[0])
            ctx.cap('families %s: time budget reached at depth %d' % (sorted(set(f[0] for f in frontier)), depth))
            break
    out = {}
    for family in sorted(set(f for f, _ in specs)):
        per = {}
        for f, layout, _ in seen:
            if f == family:
                per[layout] = per.get(layout, 0) + 1
        n = sum(per.values())
        ctx.count('states', n)
        ctx.count('%s_states' % family, n)
        closed = family not in open_families
        ctx.notes.setdefault(FAMILIES[family]['label'], {}).update(states=n, depth=last_depth.get(family, 0), closed=closed)
        out[family] = dict(states=n, depth=last_depth.get(family, 0), closed=closed, per_layout=per)
    out['seen'] = seen
    return out


def norm_text(text):
    import re
    text = re.sub(r'--[^\n]*', '', text)
    return re.sub(r'\s+', '', text)


def unit_test(hist, op):
    lines = ['import xtuml', 'l = xtuml.ModelLoader()', 'l.input(%r)' % SQL,
             'm = l.build_metamodel(xtuml.IntegerGenerator())', "a = m.new('Ab'); c = m.new('Cd')"]

    def stmt(o):
        if o[0] == 'set':
            return 'a.%s = %r' % (o[1], o[2])
        if o[0] == 'del':
            return 'del a.%s' % o[1]
        if o[0] in ('relate', 'unrelate'):
            return 'xtuml.%s(a, c, 1)' % o[0]
        if o[0] == 'new':
            return 'b = m.new(%r, **%r)' % (o[1], o[2])
        if o[0] == 'newmix':
            call = {'model': "m.new('Ab', *pos, **{s: v})", 'metaclass': "m.find_metaclass('Ab').new(*pos, **{s: v})",
                    'call': "m.find_metaclass('Ab')(*pos, **{s: v})"}[o[1]]
            return ('for u, forms in %r.items():\n    for pos, v in forms:\n        for s in %r[u]:\n'
                    '            try: b = %s; print(pos, s, v, [b.Id, b.Xy, b.R_a])\n'
                    '            except Exception as e: print(pos, s, v, repr(e))' %
                    (MIX_FORMS, dict((n.upper(), spellings(n)) for n in DECL), call))
        return 'b = m.new(%r, *%r)' % (o[1], o[2])
    for o in hist:
        lines.append(stmt(o))
    lines.append(stmt(op) + '   # <- failing step')
    lines.append('print([(s, getattr(a, s, None)) for s in %r])' % (spellings('Xy') + spellings('Id') + spellings('R_a'),))
    return '\n'.join(lines)


def run(ctx):
    m = NameModel(ctx.tier, ctx.seed)
    res = explorer.bfs(ctx, m, chunk=4, label='names')
    print('  states=%d depth=%d closed=%s t=%.1fs' % (res['states'], res['depth'], res['closed'], ctx.elapsed()))
    hs = sorted(res['seen'].values(), key=lambda h: (len(h), repr(h)))
    for h in hs[-3:]:
        ctx.sample(dict(history=h))
    ctx.require(res['states'] >= 100, 'too few states (%d)' % res['states'])
    specs = [('twin', layout) for layout in TWIN_LAYOUTS] + [('ref', layout) for layout in REF_LAYOUTS] + [('def', 'empty')] + \
            [('null', layout) for layout in null_layouts(ctx.tier)] + \
            [('palette', layout) for layout in palette_layouts(ctx.tier)]
    t1 = ctx.elapsed()
    r = family_bfs(ctx, specs)
    print('  phases: names %.1fs, families %.1fs' % (t1, ctx.elapsed() - t1))
    r2, r3, r4, r5, r6 = r['twin'], r['ref'], r['palette'], r['def'], r['null']
    print('  null values: states=%s depth=%d closed=%s' % (r6['per_layout'], r6['depth'], r6['closed']))
    for layout in null_layouts(ctx.tier):
        ctx.require(r6['per_layout'].get(layout, 0) >= 12, 'null family, layout %s: too few states (%s)' % (layout, r6['per_layout']))
    ctx.require(ctx.n('null_traces') >= 5000, 'null family: too few transitions (%d)' % ctx.n('null_traces'))
    ctx.require(ctx.n('null_none_reads') >= 20000, 'null family: too few reads of a stored None under a non-declared spelling (%d)' %
                ctx.n('null_none_reads'))
    ctx.require(ctx.n('null_none_filters') >= 10000, 'null family: too few non-empty selections of a filter <spelling>=None (%d)' %
                ctx.n('null_none_filters'))
    print('  definition: states=%d depth=%d closed=%s' % (r5['states'], r5['depth'], r5['closed']))
    ctx.require(r5['states'] >= 1000, 'definition family: too few states (%d)' % r5['states'])
    ctx.require(h_has(ctx, 'def_outcomes', ('probe', 'UnknownClassException')), 'definition family: no rejected use before the definition')
    for o in ('define', 'create'):
        ctx.require(h_has(ctx, 'def_outcomes', (o, 'ok')), 'definition family: no successful %s' % o)
    ctx.require(ctx.n('mix_forms') >= 1000, 'too few constructor forms with a positional and a keyword value (%d)' % ctx.n('mix_forms'))
    print('  twins: states=%s depth=%d closed=%s' % (r2['per_layout'], r2['depth'], r2['closed']))
    print('  referential chain: states=%d depth=%d closed=%s' % (r3['states'], r3['depth'], r3['closed']))
    print('  palette: %d declared names, states=%d depth=%d closed=%s t=%.1fs' %
          (len(r4['per_layout']), r4['states'], r4['depth'], r4['closed'], ctx.elapsed()))
    for layout in TWIN_LAYOUTS:
        ctx.require(r2['per_layout'].get(layout, 0) >= 30, 'twin family %s: too few states (%s)' % (layout, r2['per_layout']))
    ctx.require(ctx.n('twin_traces') >= 3000, 'twin family: too few transitions (%d)' % ctx.n('twin_traces'))
    ctx.require(r3['states'] >= 60, 'referential family: too few states (%d)' % r3['states'])
    for layout in REF_LAYOUTS:
        ctx.require(r3['per_layout'].get(layout, 0) >= 20, 'referential family, layout %s: too few states (%s)' % (layout, r3['per_layout']))
    ctx.require(ctx.n('ref_traces') >= 2000, 'referential family: too few transitions (%d)' % ctx.n('ref_traces'))
    for o in ('relate', 'unrelate', 'delete'):
        ctx.require(h_has(ctx, 'ref_outcomes', (o, 'True' if o.endswith('relate') else 'ok')),
                    'referential family: no successful %s' % o)
    ctx.require(h_has(ctx, 'ref_outcomes', ('set', 'MetaException')), 'referential family: no rejected write')
    hs = sorted((h for (f, _, _), h in r['seen'].items() if f == 'ref'), key=lambda h: (len(h), repr(h)))
    for h in hs[-1:]:
        ctx.sample(dict(family='ref', history=h))
    want = len(palette_layouts(ctx.tier))
    ctx.require(len(r4['per_layout']) == want and min(list(r4['per_layout'].values()) or [0]) >= 4,
                'palette family: %d of %d declared names explored, fewest states %s' %
                (len(r4['per_layout']), want, min(list(r4['per_layout'].values()) or [0])))
    ctx.require(ctx.n('palette_traces') >= 3000, 'palette family: too few transitions (%d)' % ctx.n('palette_traces'))
    ctx.require(ctx.n('reads') >= 10000, 'too few reads compared')
    ctx.require(ctx.n('twice_filters') >= 5000, 'too few filters naming one attribute under two spellings (%d)' % ctx.n('twice_filters'))
    for name in FOLD_NAMES[ctx.tier]:
        ctx.require(r4['per_layout'].get(name, 0) >= 4 and any(not sp.isascii() for sp in fold_patterns(name, name.upper())),
                    'palette family: %r not explored' % name)
    ctx.require(ctx.nd('outcomes') >= 6, 'too few distinct outcomes (%d)' % ctx.nd('outcomes'))


def h_has(ctx, setname, obj):
    from mc import core
    return core.h64(obj) in ctx.sets.get(setname, ())


def replay(ctx, case):
    if case.get('family') in FAMILIES:
        m = make_model(case['family'], case['layout'], case.get('tier', 'quick'))
        return explorer.replay_case(ctx, m, case['hist'], case.get('op'))
    m = NameModel(case.get('tier', 'quick'))
    explorer.replay_case(ctx, m, case['hist'], case.get('op'))


def coverage(ctx):
    closed = all(v['closed'] for v in ctx.notes.values() if isinstance(v, dict) and 'closed' in v)
    return dict(
        states=ctx.n('states'), transitions=ctx.n('transitions'),
        traces_validated_against_impl=ctx.n('traces'),
        evaluations=ctx.n('transitions') + ctx.n('reads'),
        reads_compared=ctx.n('reads'),
        distinct_nontrivial=ctx.n('states'),
        distinct_outcomes=ctx.nd('outcomes'),
        rule='closure over (reference values, relate flag, set of spellings written, keys of the instance dict); in every '
             'state every write/delete under every case pattern, relate/unrelate and every constructor form is executed and '
             'every read route compared; distinct_nontrivial = number of distinct canonical states; twin family: the same '
             'closure over two instances of two classes whose attribute names differ only in letter case (leading '
             'underscores included), every operation followed by every read route on both instances; referential family: '
             'closure over (instances alive, links, root identifier, keys of the four instance dicts); palette family: closure over '
             '(value, keys of the instance dict) per declared spelling; definition family: closure over (spelling of the definition, '
             'set of (route, spelling) rejected before it, instances created, sizes of the containers the metamodel object holds); '
             'null family: closure over (type-tagged values of the two attributes, keys of the instance dict) per attribute type and origin',
        bounds=dict(names=DECL, case_patterns='all 2^n', values=VALS,
                    twin_family=dict(classes=TWIN_DECL, layouts=TWIN_LAYOUTS, values=TWIN_VALS, states=ctx.n('twin_states'),
                                     transitions=ctx.n('twin_traces')),
                    referential_family=dict(schema=REF_SQL, instances=dict(Ab=1, Cd=2, Ef=1), root_identifier_values=REF_EID,
                                            rejected_write_value=REF_WRITE, filter_values=REF_QUERY,
                                            states=ctx.n('ref_states'), transitions=ctx.n('ref_traces')),
                    positional_and_keyword_forms=dict(routes=MIX_ROUTES, forms=MIX_FORMS, calls=ctx.n('mix_forms')),
                    filters_naming_one_attribute_twice=dict(routes=TWICE_FORMS, spelling_pairs='all ordered pairs of the 2^n '
                                                            'spellings of Id and of Xy', selections=ctx.n('twice_filters')),
                    definition_family=dict(class_name=DEF_KIND, probe_routes=DEF_PROBE_ROUTES, define_routes=DEF_DEFINE_ROUTES,
                                           create_routes=DEF_CREATE_ROUTES, rejected_uses_before_definition=DEF_MAX_PROBES,
                                           states=ctx.n('def_states'), transitions=ctx.n('def_traces')),
                    null_family=dict(types=NULL_TYPES, origins=NULL_ORIGINS, attribute_names=NULL_NAMES.get(ctx.tier, NULL_NAMES['quick']),
                                     written_values=dict((t, [None, NULL_OF[t], NULL_NONNULL[t][0]] + NULL_CROSS.get(ctx.tier, {}).get(t, []))
                                                         for t in NULL_TYPES),
                                     filter_values=repr(NULL_NULLISH) + ' and the non-null values of the type', filter_routes=NULL_FORMS,
                                     states=ctx.n('null_states'), transitions=ctx.n('null_traces'),
                                     reads_of_a_stored_None_under_a_non_declared_spelling=ctx.n('null_none_reads'),
                                     filters=ctx.n('null_filters'), nonempty_selections_of_None=ctx.n('null_none_filters')),
                    palette_family=dict(names=PALETTE[ctx.tier] + FOLD_NAMES[ctx.tier],
                                        names_whose_case_mapping_does_not_round_trip=FOLD_NAMES[ctx.tier],
                                        declared_spellings=palette_layouts(ctx.tier),
                                        accessed='all 2^n case patterns up to %d letters, six patterns beyond' % PALETTE_ALL_PATTERNS,
                                        values=PALETTE_VALS, states=ctx.n('palette_states'),
                                        transitions=ctx.n('palette_traces'),
                                        python_parameter_names_as_constructor_keywords=PALETTE_PARAMETER_NAMES_CHECKED)),
        exhaustive=bool(closed) and not ctx.caps_hit,
    )
