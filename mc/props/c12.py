'''
C12 -- loading fails only in documented ways and never half-applies input.

E2: bounded exhaustive input families, every input on a fresh xtuml.ModelLoader:

 (a) every string up to length N over a 30-character alphabet;
 (b) every token sequence up to length K over the token kinds of the dialect
     (one representative lexeme each, joined by single spaces);
 (c) every single-edit mutation of generated valid files: token deletion,
     token duplication, adjacent swap, lexical-class flip of every value,
     every truncation;
 (d) pumped inputs prefix + unit^n (bounded-time oracle);
 (e) every sequence of up to S well-formed statements over a pool whose members
     refer to known and unknown classes, attributes, types and arities (token
     sequences of the dialect that are accepted by `input`, so that the
     `build_metamodel` half of the statement is exercised exhaustively too);

plus E1-style loader histories: every sequence of up to H `input` calls over a
pool of three accepted and three rejected texts, with every placement of builds,
and the same over a second pool of multi-line texts (errors on lines 5-6, build
messages that name a line).  Every step is compared with a fresh loader that was
fed the accepted texts only: outcome, message of the ParsingException, all
fields of the accumulated statements (line numbers included), and the outcome
(text or exception message) of every build.

Everything the code under test executes runs in a disposable child process that
announces each input before it starts; a child that stays silent longer than the
budget is killed (SIGKILL -- regex matching in C cannot be interrupted by a
signal) and the input it was working on is re-run twice, alone, in fresh
children before it is reported.
'''
import itertools
import os
import pickle
import re
import select
import signal
import struct
import traceback

from mc import core, explorer

NEEDS_BRIDGEPOINT = False
BUDGET_S = {'quick': 3600, 'thorough': 14400}
ASSUMPTIONS = [
    'one fresh xtuml.ModelLoader per enumerated input; build_metamodel is called with xtuml.IntegerGenerator()',
    'texts are python str objects fed to ModelLoader.input (the file routes add only open()/read())',
    '"loader content" is ModelLoader.statements: number, classes and all fields of the statement objects (deep snapshot); '
    'identity of the list object is not part of the statement',
    'bounded time: no input may keep its process busy for more than 2 s of CPU time (siblings take about 1 ms) after 2 s '
    'of silence, confirmed twice alone in a fresh process (CPU time, so that a loaded machine cannot produce an alarm); '
    'applied to every input of every family, the pumped family (d) is where super-linear scanning shows',
    'what a successful build contains is C01/C03; here only the class of the outcome and, for histories, equality with '
    'the build of a fresh loader fed the accepted texts only',
    '"later inputs and builds behave as if the rejected call had not happened" is read as: after any history, an input is '
    'accepted / rejected with the same ParsingException message (it names file and line), leaves statements with the same '
    'fields (lineno, filename included) and a build gives the same serialized text or the same exception class and message as '
    'on a fresh loader that was fed the accepted texts of the history only',
    'boolean literals are spelled TRUE / false / True / fALSE (flip alternatives, undeclared-class base file, statement pool)',
]

TIME_BUDGET = 2.0          # CPU seconds one input may keep its process busy (its siblings take about 1 ms)
WALL_LIMIT = 90.0          # seconds of silence without CPU consumption (a blocked child) after which it is killed too
MAX_RESTARTS = 4           # per batch


# ---------------------------------------------------------------------------
# palettes (VERIF_SEED only picks spellings)
# ---------------------------------------------------------------------------

FIXED_CHARS = ['R', 'C', 'M', '1', '0', "'", '"', '-', '(', ')', ',', ';', '.', '\n', '\x00', ' ', '\t', '\r',
               '\\', '_', '*', '/', '\x0c', '%', '\xa0', '\x0b']
PAL_CHARS = [
    ['a', 'E', 'x', '\xe9', '7', '$', '\u0663'],
    ['b', 'T', 'q', '\xdf', '5', '#', '\u3000'],
    ['z', 'F', 'e', '\u03bb', '9', '&', '\u2028'],
    ['k', 'N', 'o', '\xe5', '3', '@', '\u0661'],
]
PAL_NAMES = [
    dict(A='Ab', B='Cd', N='Nd', E='Em', Z='Zz', Y='Yy', attrs=['Id', 'Nm', 'Cnt', 'Rt', 'Fl', 'Cd_Id'], ident='x'),
    dict(A='O_OBJ', B='S_DT', N='ACT_SMT', E='E_E', Z='Z_Z', Y='Y_Y', attrs=['Obj_ID', 'Name', 'Numb', 'Ratio', 'IsX', 'DT_ID'], ident='Key_Lett'),
    dict(A='pa', B='pb', N='pn', E='pe', Z='pz', Y='py', attrs=['id', 'nm', 'cnt', 'rt', 'fl', 'b_id'], ident='q'),
    dict(A='K1', B='K2', N='K3', E='K4', Z='K5', Y='K6', attrs=['I_d', 'N_m', 'C_1', 'R_2', 'F_3', 'B_I_d'], ident='k_1'),
]
RESERVED_NAMES = dict(A='Insert', B='Rop', N='Index', E='On', Z='Values', Y='Into',
                      attrs=['Create', 'Phrase', 'Unique', 'True', 'False', 'Ref_Id'], ident='table')

KEYWORDS = ['CREATE', 'TABLE', 'INSERT', 'INTO', 'VALUES', 'ROP', 'REF_ID', 'FROM', 'TO', 'PHRASE', 'UNIQUE',
            'INDEX', 'ON', 'TRUE', 'FALSE']
TOKEN_TYPES = KEYWORDS + ['CARDINALITY', 'COMMA', 'FRACTION', 'GUID', 'ID', 'LPAREN', 'MINUS', 'NUMBER', 'RPAREN',
                          'RELID', 'SEMICOLON', 'STRING']
UUID = '"00000000-0000-0000-0000-%012d"'


def alphabet(seed):
    return FIXED_CHARS + PAL_CHARS[seed % len(PAL_CHARS)]


def lexemes(seed):
    '''One representative lexeme per token kind of the dialect.'''
    ident = PAL_NAMES[seed % len(PAL_NAMES)]['ident']
    other = [('CARDINALITY', '1C'), ('COMMA', ','), ('FRACTION', '1.5'), ('GUID', UUID % 1), ('ID', ident),
             ('LPAREN', '('), ('MINUS', '-'), ('NUMBER', '1'), ('RPAREN', ')'), ('RELID', 'R1'),
             ('SEMICOLON', ';'), ('STRING', "'%s'")]      # (a string that is a format directive)
    return [(k, k) for k in KEYWORDS] + other


# kinds that cannot matter within the first five tokens of any statement are left out at the deepest length
DEEP_DROP = {4: ('TO', 'PHRASE', 'TRUE', 'FALSE', 'CARDINALITY'),
             # no value can be legal within the first five tokens of a statement: NUMBER and STRING stand for all of them
             5: ('TO', 'PHRASE', 'TRUE', 'FALSE', 'CARDINALITY', 'FRACTION', 'GUID', 'MINUS')}


# ---------------------------------------------------------------------------
# the oracle for one input on a fresh loader
# ---------------------------------------------------------------------------

def outcome_key(stage, exc):
    msg = str(exc)
    words = msg.split()
    if 'illegal token' in msg:
        key = 'illegal token ' + (words[2] if len(words) > 2 else '')
    elif 'unable to deserialize' in msg:
        key = 'unable to deserialize to ' + words[-1]
    elif 'illegal character' in msg:
        key = 'illegal character'
    else:
        key = ' '.join(re.sub(r'[^A-Za-z ]', ' ', msg).split()[:3])
    return (stage, type(exc).__name__, key)


def snap(loader):
    '''Deep, comparable snapshot of the loader's accumulated content.'''
    out = []
    for s in loader.statements:
        fields = dict(vars(type(s)))
        fields = dict((k, v) for k, v in fields.items() if not k.startswith('__') and not callable(v))
        fields.update(vars(s))
        out.append((type(s).__name__, tuple(sorted((k, repr(v)) for k, v in fields.items()))))
    return out


def unit_test_text(text, stage):
    lines = ['import xtuml',
             'l = xtuml.ModelLoader()',
             'try:',
             '    l.input(%r)' % text,
             'except xtuml.ParsingException:',
             '    assert l.statements == [], l.statements   # a rejected text leaves the loader as it was',
             'else:',
             '    try:',
             '        l.build_metamodel(xtuml.IntegerGenerator())',
             '    except (xtuml.ParsingException, xtuml.MetaException):',
             '        pass',
             '# any other exception escaping from the calls above is the violation (%s)' % stage]
    return '\n'.join(lines)


def short(text, n=120):
    r = repr(text)
    return r if len(r) <= n else r[:n - 20] + '...' + r[-17:]


def exec_text(ctx, fam, text, after_stmt=False):
    '''Run one text through a fresh loader and apply the oracle.'''
    import xtuml
    case = dict(kind='text', family=fam, text=text)
    ctx.count('inputs')
    ctx.count('inputs_' + fam)
    loader = xtuml.ModelLoader()
    ctx.count('input_calls')
    try:
        loader.input(text)
    except xtuml.ParsingException as e:
        ctx.count('rejected')
        ctx.distinct('outcomes', outcome_key('input', e))
        ctx.count('rejections_compared')
        if snap(loader) != []:
            ctx.violation('c12:statements-changed-after-rejection', case,
                          'input(%s) raised ParsingException but left %d statement(s) in a fresh loader' %
                          (short(text), len(loader.statements)), [], [s[0] for s in snap(loader)],
                          unit_test=unit_test_text(text, 'statements after rejection'))
            return 'rejected'
        if after_stmt:
            ctx.count('rejected_after_statement')
        return 'rejected'
    except core.Timeout:
        raise
    except BaseException as e:
        ctx.violation('c12:input:%s' % type(e).__name__, case,
                      'input(%s) raised %s: %s' % (short(text), type(e).__name__, str(e)[:200]),
                      'returns or raises xtuml.ParsingException', type(e).__name__,
                      unit_test=unit_test_text(text, 'input'))
        return 'input-error'
    ctx.count('accepted')
    nstmt = len(loader.statements)
    if nstmt:
        ctx.count('accepted_with_statements')
    ctx.count('build_calls')
    try:
        loader.build_metamodel(xtuml.IntegerGenerator())
    except xtuml.ParsingException as e:
        ctx.count('build_parsing_exception')
        ctx.distinct('outcomes', outcome_key('build', e))
        return 'build-parsing'
    except xtuml.MetaException as e:
        ctx.count('build_meta_exception')
        ctx.distinct('outcomes', outcome_key('build', e))
        return 'build-meta'
    except core.Timeout:
        raise
    except BaseException as e:
        ctx.violation('c12:build:%s' % type(e).__name__, case,
                      'build_metamodel after input(%s) raised %s: %s' % (short(text), type(e).__name__, str(e)[:200]),
                      'returns or raises xtuml.ParsingException / xtuml.MetaException', type(e).__name__,
                      unit_test=unit_test_text(text, 'build_metamodel'))
        return 'build-error'
    ctx.count('build_ok')
    ctx.distinct('outcomes', ('build', 'ok', min(nstmt, 1)))
    return 'ok'


# ---------------------------------------------------------------------------
# loader histories
# ---------------------------------------------------------------------------

def history_pool(seed):
    '''Three accepted and three rejected texts. The rejected ones fail after complete
    statements whose presence would be visible in a later build.'''
    p = PAL_NAMES[seed % len(PAL_NAMES)]
    A, B, Z = p['A'], p['B'], p['Z']
    good = [
        'CREATE TABLE %s (Id UNIQUE_ID, Nm STRING, B_Id UNIQUE_ID);\n'
        'CREATE TABLE %s (Id UNIQUE_ID, Cnt INTEGER);\n'
        "CREATE ROP REF_ID R1 FROM MC %s (B_Id) PHRASE 'of' TO 1 %s (Id) PHRASE 'has';\n"
        'CREATE UNIQUE INDEX I1 ON %s (Id);\n' % (A, B, A, B, B),
        "INSERT INTO %s VALUES (1, 'first', 11);\n"
        'INSERT INTO %s VALUES (11, 5);\n'
        "INSERT INTO %s (Nm, Id, B_Id) VALUES ('second', 2, 11);\n" % (A, B, A),
        "-- more\nINSERT INTO %s VALUES (12, -7); INSERT INTO %s VALUES (3, 'it''s', 12);" % (B, A),
    ]
    bad = [
        # syntax error after two complete statements
        "INSERT INTO %s VALUES (91, 'leak', 11);\nCREATE TABLE %s (Id INTEGER);\nINSERT INTO %s VALUES (92, 'x' ;\n" % (A, Z, A),
        # illegal character after one complete statement
        "INSERT INTO %s VALUES (93, 4);\n$" % B,
        # exception raised by a grammar action (cardinality) after two complete statements
        "INSERT INTO %s VALUES (94, 'leak2', 12);\nCREATE UNIQUE INDEX I2 ON %s (Nm);\n"
        "CREATE ROP REF_ID R7 FROM 2 %s (B_Id) TO 1 %s (Id);\n" % (A, A, A, B),
    ]
    return good + bad


def position_pool(seed):
    '''Three accepted and three rejected texts in which line structure matters: every rejected text fails after one or more
    line breaks, the accepted ones carry their statements on later lines and -- depending on what else the loader holds --
    make build_metamodel raise messages that name a line.'''
    p = PAL_NAMES[seed % len(PAL_NAMES)]
    A, B, Z = p['A'], p['B'], p['Z']
    good = [
        '-- schema\n\nCREATE TABLE %s (Id UNIQUE_ID, Nm STRING, B_Id UNIQUE_ID);\n'
        'CREATE TABLE %s (Id UNIQUE_ID,\n  Cnt INTEGER);\n'
        "CREATE ROP REF_ID R1 FROM MC %s (B_Id) PHRASE 'of' TO 1 %s (Id) PHRASE 'has';\n" % (A, B, A, B),
        # with the declaration of B: '<string>:4:unable to deserialize ...'; without it the types are guessed and it builds
        "\n\n-- late rows\nINSERT INTO %s VALUES (21, 'many');\n" % B,
        # with the declarations: '<string>:4:R2 refers to an unknown attribute'; without them an unknown class
        "INSERT INTO %s VALUES (5, 'five', 21)\n;\n\nCREATE ROP REF_ID R2 FROM 1C %s (Nope)\n TO 1 %s (Id);\n" % (A, A, B),
    ]
    bad = [
        # illegal character on line 6, after a complete statement
        "-- c\n\n\nINSERT INTO %s VALUES (1, 'x', 2);\n\n  $\n" % A,
        # illegal token on line 5, after a complete statement that spans two lines
        'INSERT INTO %s VALUES (1,\n2);\nINSERT INTO %s VALUES (\n\n;' % (B, B),
        # illegal cardinality (raised by a grammar action) on line 6
        # (it spells the names the accepted texts use -- classes, attributes, types -- in another letter case: nothing of a
        # rejected text may show in what is accepted later)
        '\nCREATE TABLE %s (id integer, nm string, cnt Integer, b_id unique_id);\n\n\nCREATE ROP REF_ID R7 FROM\n 2 %s (b_id) TO 1 %s (id);\n' %
        (Z, A.swapcase(), B.swapcase()),
    ]
    return good + bad


_REF_CACHE = {}


def build_outcome(ctx, loader, case, what):
    '''Outcome of one build: ('ok', text) or (exception class, message); applies the exception oracle.'''
    import xtuml
    ctx.count('build_calls')
    try:
        m = loader.build_metamodel(xtuml.IntegerGenerator())
    except (xtuml.ParsingException, xtuml.MetaException) as e:
        ctx.distinct('outcomes', outcome_key('build', e))
        return (type(e).__name__, str(e))
    except core.Timeout:
        raise
    except BaseException as e:
        ctx.violation('c12:build:%s' % type(e).__name__, case,
                      '%s: build_metamodel raised %s: %s' % (what, type(e).__name__, str(e)[:200]),
                      'returns or raises xtuml.ParsingException / xtuml.MetaException', type(e).__name__,
                      unit_test=unit_test_history(case))
        return None
    return ('ok', xtuml.serialize(m))


def reference_input(pool, accepted, idx):
    '''What a fresh loader that was fed the accepted texts only (no rejected call ever) does with pool[idx]:
    (accepted?, message of its ParsingException, snapshot of its statements afterwards); None if it fails otherwise.'''
    import xtuml
    key = ('input', tuple(pool), tuple(accepted), idx)
    if key not in _REF_CACHE:
        ref = xtuml.ModelLoader()
        try:
            for i in accepted:
                ref.input(pool[i])
            try:
                ref.input(pool[idx])
                res = (True, None, snap(ref))
            except xtuml.ParsingException as e:
                res = (False, str(e), None)
        except core.Timeout:
            raise
        except BaseException:
            res = None                     # reported where it happens in the history itself
        _REF_CACHE[key] = res
    return _REF_CACHE[key]


def first_snap_diff(exp, got):
    '''Where two statement snapshots differ: (index, statement class, field, expected, observed).'''
    for i in range(max(len(exp), len(got))):
        if i >= len(exp) or i >= len(got):
            return 'statement %d: %s vs %s' % (i, exp[i][0] if i < len(exp) else '<none>', got[i][0] if i < len(got) else '<none>')
        if exp[i] != got[i]:
            if exp[i][0] != got[i][0]:
                return 'statement %d: %s vs %s' % (i, exp[i][0], got[i][0])
            de, dg = dict(exp[i][1]), dict(got[i][1])
            for k in sorted(set(de) | set(dg)):
                if de.get(k) != dg.get(k):
                    return 'statement %d (%s): %s = %s, but %s in the fresh loader' % (i, exp[i][0], k, dg.get(k), de.get(k))
    return None


def exec_history(ctx, pool, hist, seed=0):
    '''hist: list of [text index, build afterwards (0/1)].'''
    import xtuml
    case = dict(kind='history', hist=hist, pool=pool)
    ctx.count('histories')
    loader = xtuml.ModelLoader()
    accepted = []
    saw_reject = False
    nontrivial = False
    before = snap(loader)
    for step, (idx, build) in enumerate(hist):
        text = pool[idx]
        exp_in = reference_input(pool, accepted, idx)
        ctx.count('input_calls')
        msg = None
        try:
            loader.input(text)
            ok = True
        except xtuml.ParsingException as e:
            ok = False
            msg = str(e)
        except core.Timeout:
            raise
        except BaseException as e:
            ctx.violation('c12:input:%s' % type(e).__name__, case,
                          'history %s: input #%d raised %s: %s' % (hist, step, type(e).__name__, str(e)[:200]),
                          'returns or raises xtuml.ParsingException', type(e).__name__,
                          unit_test=unit_test_history(case))
            return
        if exp_in is not None and ok != exp_in[0]:
            ctx.violation('c12:history:input-outcome-differs', case,
                          'history %s: input #%d (pool text %d) was %s here but %s by a fresh loader fed only the accepted '
                          'texts %s before it' % (hist, step, idx, 'accepted' if ok else 'rejected',
                                                  'accepted' if exp_in[0] else 'rejected', accepted),
                          exp_in[0], ok, unit_test=unit_test_history(case))
            return
        ctx.count('input_outcomes_compared')
        after = snap(loader)
        if not ok:
            ctx.count('rejections_compared')
            if after != before:
                ctx.violation('c12:statements-changed-after-rejection', case,
                              'history %s: rejected input #%d changed loader.statements from %d to %d entries' %
                              (hist, step, len(before), len(after)), [s[0] for s in before], [s[0] for s in after],
                              unit_test=unit_test_history(case))
                return
            if exp_in is not None:
                # the message names the position of the error: it is what a caller sees of a later rejected input
                ctx.count('rejection_messages_compared')
                if saw_reject:
                    ctx.count('rejection_messages_compared_after_a_rejection')
                if msg != exp_in[1]:
                    ctx.violation('c12:history:later-input-differs:message', case,
                                  'history %s: input #%d (pool text %d) is rejected with %r, but with %r by a fresh loader fed only '
                                  'the accepted texts %s before it' % (hist, step, idx, msg, exp_in[1], accepted),
                                  exp_in[1], msg, unit_test=unit_test_history(case))
                    return
            saw_reject = True
        else:
            accepted.append(idx)
            if saw_reject:
                nontrivial = True
            if exp_in is not None:
                # everything the loader recorded (statement fields, line numbers and file names included) is what a loader
                # records that never saw the rejected texts
                ctx.count('accepted_statements_compared')
                if after != exp_in[2]:
                    ctx.violation('c12:history:later-input-differs:statements', case,
                                  'history %s: after input #%d (pool text %d) the loader holds other statements than a fresh loader '
                                  'fed only the accepted texts %s: %s' % (hist, step, idx, accepted, first_snap_diff(exp_in[2], after)),
                                  [s[0] for s in exp_in[2]], [s[0] for s in after], unit_test=unit_test_history(case))
                    return
        before = after
        if build:
            got = build_outcome(ctx, loader, case, 'history %s, build after input #%d' % (hist, step))
            if got is None:
                return
            key = (tuple(pool), tuple(accepted))
            if key not in _REF_CACHE:
                ref = xtuml.ModelLoader()
                for i in accepted:
                    ref.input(pool[i])
                _REF_CACHE[key] = build_outcome(ctx, ref, dict(kind='history', hist=[[i, 0] for i in accepted[:-1]] +
                                                               [[i, 1] for i in accepted[-1:]], pool=pool),
                                                'fresh loader fed %s' % (accepted,))
            exp = _REF_CACHE[key]
            ctx.count('builds_compared')
            if got[0] != 'ok' and saw_reject:
                ctx.count('build_messages_compared_after_a_rejection')
            if exp is not None and got != exp:
                what = 'message' if (got[0] == exp[0] != 'ok') else 'outcome'
                ctx.violation('c12:history:build-differs' + (':message' if what == 'message' else ''), case,
                              'history %s: the build after input #%d differs from the build of a fresh loader fed only '
                              'the accepted texts %s%s' % (hist, step, accepted,
                                                           ': it raises %r, the fresh loader %r' % (got[1], exp[1])
                                                           if what == 'message' else ''), exp, got,
                              unit_test=unit_test_history(case))
                return
            ctx.distinct('outcomes', ('history-build', got[0]))
    if nontrivial:
        ctx.count('histories_nontrivial')


def unit_test_history(case):
    lines = ['import xtuml', 'POOL = %r' % (case['pool'],), 'l = xtuml.ModelLoader(); good = []']
    for idx, build in case['hist']:
        lines.append('try:\n    l.input(POOL[%d]); good.append(%d)\nexcept xtuml.ParsingException:\n    pass' % (idx, idx))
        if build:
            lines.append('m = l.build_metamodel(xtuml.IntegerGenerator())')
    lines += ['ref = xtuml.ModelLoader()', 'for i in good: ref.input(POOL[i])',
              '# the loader behaves like one that never saw the rejected texts: same statements at the same positions,',
              '# same messages for later rejected inputs, same build',
              'assert [(type(s).__name__, s.lineno) for s in l.statements] == [(type(s).__name__, s.lineno) for s in ref.statements]',
              'def build(x):',
              '    try: return xtuml.serialize(x.build_metamodel(xtuml.IntegerGenerator()))',
              '    except (xtuml.ParsingException, xtuml.MetaException) as e: return str(e)',
              'assert build(l) == build(ref)']
    return '\n'.join(lines)


# ---------------------------------------------------------------------------
# family (c): valid base files and their single-edit mutations
# ---------------------------------------------------------------------------
# a token is (lexeme, tag, extra); tags: k keyword, i identifier, p punctuation, m minus,
# n number, f fraction, s string, g guid, b boolean, r relid, c cardinality

CARDS = ['1', '1C', 'M', 'MC']
DIMS = [
    ('card', [(s, t) for s in CARDS for t in CARDS if (s, t) != ('MC', '1')]),
    ('phrase', ['both', 'source', 'target']),
    ('insert', ['named', 'named-permuted', 'named-subset', 'mixed']),
    ('values', [1, 2]),
    ('order', ['data-first', 'rop-first', 'interleaved']),
    ('layout', [1, 2, 3]),
    ('kwcase', ['lower', 'mixed']),
    ('names', ['reserved']),
    ('index', ['none', 'composite', 'empty']),
    ('extra', ['empty-table', 'undeclared', 'reflexive', 'compound-key']),
]
DEFAULTS = dict(card=('MC', '1'), phrase='none', insert='positional', values=0, order='schema-first', layout=0,
                kwcase='upper', names='plain', index='single', extra='none')


def base_configs(tier):
    out = [dict()]
    for name, alts in DIMS:
        for a in alts:
            out.append({name: a})
    if tier == 'thorough':
        for (n1, a1), (n2, a2) in itertools.combinations(DIMS, 2):
            if n1 == 'card' and n2 != 'phrase':
                continue                   # cardinalities are paired with the phrase forms only
            for x in a1:
                for y in a2:
                    out.append({n1: x, n2: y})
    return out


def kw(word, cfg):
    case = cfg['kwcase']
    if case == 'lower':
        word = word.lower()
    elif case == 'mixed':
        word = word[0] + word[1:].lower()
    return (word, 'k', None)


def ident(name):
    return (name, 'i', None)


P = dict((c, (c, 'p', None)) for c in '(),;')


def value_tokens(text, coltype):
    '''Tokens of one value as spelled in *text*; the last one carries the column type.'''
    neg = text.startswith('-')
    body = text[1:] if neg else text
    if body.startswith("'"):
        tag = 's'
    elif body.startswith('"'):
        tag = 'g'
    elif body.upper() in ('TRUE', 'FALSE'):
        tag = 'b'
    elif '.' in body:
        tag = 'f'
    else:
        tag = 'n'
    toks = [('-', 'm', 'vm')] if neg else []
    toks.append((body, tag, ('v', coltype)))
    return toks


def seq(items, sep=','):
    out = []
    for i, it in enumerate(items):
        if i:
            out.append(P[sep])
        out.extend(it)
    return out


def table_stmt(cfg, name, attrs):
    return [kw('CREATE', cfg), kw('TABLE', cfg), ident(name), P['(']] + \
        seq([[ident(a), (t, 'i', ('t',))] for a, t in attrs]) + [P[')'], P[';']]


def index_stmt(cfg, iname, cls, attrs):
    return [kw('CREATE', cfg), kw('UNIQUE', cfg), kw('INDEX', cfg), ident(iname), kw('ON', cfg), ident(cls),
            P['(']] + seq([[ident(a)] for a in attrs]) + [P[')'], P[';']]


def card_token(c):
    return (c, {'1': 'n', '1C': 'c'}.get(c, 'i'), None)


def rop_stmt(cfg, rel, c1, cls1, keys1, ph1, c2, cls2, keys2, ph2):
    def end(c, cls, keys, ph):
        t = [card_token(c), ident(cls), P['(']] + seq([[ident(k)] for k in keys]) + [P[')']]
        if ph is not None:
            t += [kw('PHRASE', cfg), ("'%s'" % ph, 's', None)]
        return t
    return [kw('CREATE', cfg), kw('ROP', cfg), kw('REF_ID', cfg), (rel, 'r', None), kw('FROM', cfg)] + \
        end(c1, cls1, keys1, ph1) + [kw('TO', cfg)] + end(c2, cls2, keys2, ph2) + [P[';']]


def insert_stmt(cfg, cls, attrs, row, form):
    '''attrs: [(name, type)], row: list of value spellings in declared order.'''
    cols = list(range(len(attrs)))
    if form == 'named-permuted':
        cols = cols[1:] + cols[:1]
        cols.reverse()
    elif form == 'named-subset':
        cols = cols[:1] + cols[2:]
    head = [kw('INSERT', cfg), kw('INTO', cfg), ident(cls)]
    if form != 'positional':
        names = [attrs[c][0] for c in cols]
        if form == 'named-permuted':
            names = [n.upper() if i % 2 else n.lower() for i, n in enumerate(names)]
        head += [P['(']] + seq([[ident(n)] for n in names]) + [P[')']]
    vals = [value_tokens(row[c], attrs[c][1]) for c in cols]
    return head + [kw('VALUES', cfg), P['(']] + seq(vals) + [P[')'], P[';']]


def base_tokens(cfg_dev, seed):
    '''Statements (token lists) of one valid base file.'''
    cfg = dict(DEFAULTS)
    cfg.update(cfg_dev)
    pal = RESERVED_NAMES if cfg['names'] == 'reserved' else PAL_NAMES[seed % len(PAL_NAMES)]
    A, B = pal['A'], pal['B']
    a_id, a_nm, a_cnt, a_rt, a_fl, a_ref = pal['attrs']
    types = ['UNIQUE_ID', 'STRING', 'INTEGER', 'REAL', 'BOOLEAN', 'UNIQUE_ID']
    if cfg['kwcase'] == 'lower':
        types = [t.lower() for t in types]
    a_attrs = list(zip([a_id, a_nm, a_cnt, a_rt, a_fl, a_ref], types))
    b_attrs = [(a_id, types[0]), (a_nm, types[1])]

    vs = cfg['values']
    if vs == 0:
        ids = [UUID % i for i in range(1, 6)]
        a_rows = [[ids[2], "'x'", '5', '1.5', 'TRUE', ids[0]],
                  [ids[3], "'it''s'", '-5', '-2.25', 'FALSE', ids[1]],
                  [ids[4], "''", '0', '3.0', 'TRUE', ids[0]]]
        b_rows = [[ids[0], "'first'"], [ids[1], "'second'"]]
    elif vs == 1:
        ids = ['1', '2', '3', '4', '5']
        a_rows = [[ids[2], "'two\nlines -- no comment'", '12345678901234567890', '2', 'true', ids[0]],
                  [ids[3], "'say \"hi\"; ('", '-0', '-7', 'false', ids[1]],
                  [ids[4], "'\xe9\t'", UUID % 9, '0.0', 'True', ids[0]]]
        b_rows = [[ids[0], "'CREATE TABLE'"], [ids[1], "'--'"]]
    else:
        ids = [UUID % 1, '2', UUID % 3, '4', UUID % 5]
        a_rows = [[ids[2], "''''", '007', '10.25', '1', ids[0]],
                  [ids[3], "'a'", '-12', '-0.5', '0', ids[1]],
                  [ids[4], "'b'", '1', '1.0', 'FALSE', '"00000000-0000-0000-0000-000000000000"']]
        b_rows = [[ids[0], "'p'"], [ids[1], "''"]]

    tables = [table_stmt(cfg, A, a_attrs), table_stmt(cfg, B, b_attrs)]
    c1, c2 = cfg['card']
    ph = cfg['phrase']
    rops = [rop_stmt(cfg, 'R1', c1, A, [a_ref], 'is of' if ph in ('both', 'source') else None,
                     c2, B, [a_id], 'has' if ph in ('both', 'target') else None)]
    idx = cfg['index']
    indices = []
    if idx == 'single':
        indices = [index_stmt(cfg, 'I1', A, [a_id]), index_stmt(cfg, 'I1', B, [a_id])]
    elif idx == 'composite':
        indices = [index_stmt(cfg, 'I1', A, [a_id]), index_stmt(cfg, 'I2', A, [a_nm, a_cnt]), index_stmt(cfg, 'I1', B, [a_id])]
    elif idx == 'empty':
        indices = [index_stmt(cfg, 'I1', A, [])]
    form = cfg['insert']
    forms_a = [form] * 3 if form != 'mixed' else ['named', 'positional', 'named-subset']
    forms_b = [form if form != 'named-subset' else 'named'] * 2 if form != 'mixed' else ['positional', 'named-permuted']
    inserts = [insert_stmt(cfg, B, b_attrs, r, f) for r, f in zip(b_rows, forms_b)] + \
              [insert_stmt(cfg, A, a_attrs, r, f) for r, f in zip(a_rows, forms_a)]

    ex = cfg['extra']
    if ex == 'empty-table':
        tables.append(table_stmt(cfg, pal['E'], []))
        inserts.append(insert_stmt(cfg, pal['E'], [], [], 'positional'))
        inserts.append(insert_stmt(cfg, pal['E'], [], [], 'named'))
    elif ex == 'undeclared':
        z_attrs = [('a', 'INTEGER'), ('b', 'STRING'), ('c', 'REAL'), ('d', 'BOOLEAN'), ('e', 'UNIQUE_ID')]
        inserts.append(insert_stmt(cfg, pal['Z'], z_attrs, ['1', "'a'", '2.5', 'TRUE', UUID % 7], 'positional'))
        inserts.append(insert_stmt(cfg, pal['Y'], z_attrs, ['-1', "'b'", '-2.5', 'False', UUID % 8], 'named'))
    elif ex == 'reflexive':
        n_attrs = [(a_id, types[0]), ('Next_' + a_id, types[0])]
        tables.append(table_stmt(cfg, pal['N'], n_attrs))
        rops.append(rop_stmt(cfg, 'R2', '1C', pal['N'], ['Next_' + a_id], 'precedes', '1C', pal['N'], [a_id], 'succeeds'))
        inserts.append(insert_stmt(cfg, pal['N'], n_attrs, ['1', '2'], 'positional'))
        inserts.append(insert_stmt(cfg, pal['N'], n_attrs, ['2', '0'], 'positional'))
    elif ex == 'compound-key':
        n_attrs = [(a_id, types[0]), ('R_' + a_id, types[0]), ('R_' + a_nm, types[1])]
        tables.append(table_stmt(cfg, pal['N'], n_attrs))
        rops.append(rop_stmt(cfg, 'R3', 'M', pal['N'], ['R_' + a_id, 'R_' + a_nm], None, '1', B, [a_id, a_nm], None))
        inserts.append(insert_stmt(cfg, pal['N'], n_attrs, ['1', ids[0], b_rows[0][1]], 'positional'))
        inserts.append(insert_stmt(cfg, pal['N'], n_attrs, ['2', ids[1], b_rows[1][1]], 'named'))

    order = cfg['order']
    if order == 'schema-first':
        stmts = tables + indices + rops + inserts
    elif order == 'data-first':
        stmts = inserts + rops + indices + tables
    elif order == 'rop-first':
        stmts = rops + indices + tables + inserts
    else:
        groups = [tables, inserts, rops, indices]
        stmts = []
        for i in range(max(map(len, groups))):
            for g in groups:
                if i < len(g):
                    stmts.append(g[i])
    toks = []
    for s in stmts:
        toks.extend(s)
    return toks, cfg['layout']


def render(toks, layout, trailer=True):
    '''Text of a token list under a layout; never merges two tokens by juxtaposition.'''
    out = []
    if layout == 1:
        out.append("-- leading comment: it's \"quoted\" CREATE TABLE x (;\n")
    nstmt = 0
    for i, t in enumerate(toks):
        out.append(t[0])
        if i + 1 == len(toks):
            break
        nxt = toks[i + 1]
        if t[0] == ';' and t[1] == 'p':
            nstmt += 1
            if layout == 0:
                out.append('\n')
            elif layout == 1:
                out.append(' -- statement %d done;\n--\n' % nstmt if nstmt % 2 else '\n  -- indented\n')
            elif layout == 3:
                out.append('\r\n\r\n' if nstmt % 2 else '\n\x0c\n\t')
            continue
        if t[1] == 'm' and nxt[1] in ('n', 'f'):
            continue                       # -5
        if layout == 2 and (t[1] == 'p' or nxt[1] == 'p'):
            continue
        if layout == 0 and ((t[0] == '(' and t[1] == 'p') or (nxt[1] == 'p' and nxt[0] != '(')):
            continue                       # natural spelling: f (a, b);
        if layout == 3:
            out.append(('\t', '  ', '\r\n', ' \x0c ')[i % 4])
        elif layout == 1 and i % 11 == 5:
            out.append(' -- mid-statement comment\n ')
        else:
            out.append(' ')
    if not trailer:
        return ''.join(out)
    if layout == 0:
        out.append('\n')
    elif layout == 1:
        out.append('\n-- trailing comment without a line end')
    elif layout == 3:
        out.append('\r\n\t ')
    return ''.join(out)


RETYPE_NAMES = ['STRING', 'integer', 'Real', 'BOOLEAN', 'unique_id', 'SOME_TYPE', 'inst_ref', 'date', 'int', 'void']


def flip_alternatives(tag, negative):
    '''Replacement token lists, one per other lexical class.'''
    alts = [('s', [("'s'", 's')]), ('n', [('7', 'n')]), ('f', [('2.5', 'f')]), ('g', [(UUID % 77, 'g')]),
            ('g2', [('"zz"', 'g')]), ('b', [('TRUE', 'b')]), ('b2', [('false', 'b')]),
            # the reserved words are recognised in any letter case: the mixed-case spellings are values too
            ('b3', [('True', 'b')]), ('b4', [('fALSE', 'b')]),
            ('-n', [('-', 'm'), ('7', 'n')]), ('-f', [('-', 'm'), ('2.5', 'f')]),
            # (round 12, C12-21) strings whose content looks like a value of another lexical class, or like nothing
            ('s2', [("'a.b'", 's')]), ('s3', [("'1.5'", 's')]), ('s4', [("'7'", 's')]), ('s5', [("''", 's')]),
            ('s6', [("'TRUE'", 's')]), ('s7', [("'1e5'", 's')]), ('s8', [("'-'", 's')]), ('s9', [("'.'", 's')])]
    own = ('-' if negative else '') + tag
    return [(name, toks) for name, toks in alts if name != own]


def mutations(toks, layout):
    '''Yield (spec, text, after_first_statement) for every single edit of a base file.'''
    first_semi = next(i for i, t in enumerate(toks) if t[0] == ';' and t[1] == 'p')
    base = render(toks, layout)
    yield ('base',), base, False
    n = len(toks)
    for i in range(n):
        yield ('del', i), render(toks[:i] + toks[i + 1:], layout), i > first_semi
    for i in range(n):
        yield ('dup', i), render(toks[:i + 1] + toks[i:], layout), i >= first_semi
    for i in range(n - 1):
        yield ('swap', i), render(toks[:i] + [toks[i + 1], toks[i]] + toks[i + 2:], layout), i > first_semi
    for i, t in enumerate(toks):
        if isinstance(t[2], tuple) and t[2][0] == 'v':
            neg = i > 0 and toks[i - 1][2] == 'vm'
            start = i - 1 if neg else i
            for name, alt in flip_alternatives(t[1], neg):
                new = [(lx, tg, None) for lx, tg in alt]
                yield ('flip', i, name), render(toks[:start] + new + toks[i + 1:], layout), start > first_semi
    # every declared type replaced by every other core type (the values then do not fit) and by names outside the core types
    # (on plain, identifying and referential attributes alike)
    for i, t in enumerate(toks):
        if isinstance(t[2], tuple) and t[2][0] == 't':
            for name in RETYPE_NAMES:
                if name.upper() != t[0].upper():
                    yield ('retype', i, name), render(toks[:i] + [(name, 'i', None)] + toks[i + 1:], layout), i > first_semi
    # every truncation; "after the first statement" = cut behind the first ';' of the text proper
    first_end = len(render(toks[:first_semi + 1], layout, trailer=False))
    for k in range(len(base)):
        yield ('trunc', k), base[:k], k >= first_end


# ---------------------------------------------------------------------------
# family (d): pumped inputs
# ---------------------------------------------------------------------------

PUMP_PREFIXES = ['', "'", '"', '--', '-', '1', '1.', 'R', 'a', '"\\', 'INSERT INTO x VALUES (', 'CREATE TABLE x (']
PUMP_N = [16, 24, 32, 48]


def pump_tasks(tier, seed):
    '''Task descriptors ('d', prefix index, first char index, unit lengths, ns).'''
    chars = alphabet(seed)
    tasks = []
    for pi in range(len(PUMP_PREFIXES)):
        for ci in range(len(chars)):
            if tier == 'thorough':
                tasks.append(('d', pi, ci, (1, 2), tuple(PUMP_N)))
                tasks.append(('d', pi, ci, (3,), (16, 32)))
            else:
                tasks.append(('d', pi, ci, (1, 2), (16, 48)))
                if pi < 4:
                    tasks.append(('d', pi, ci, (3,), (32,)))
    return tasks


def pump_items(task, seed):
    _, pi, ci, ulens, ns = task
    chars = alphabet(seed)
    prefix = PUMP_PREFIXES[pi]
    for ul in ulens:
        for rest in itertools.product(chars, repeat=ul - 1):
            unit = chars[ci] + ''.join(rest)
            for n in ns:
                yield prefix + unit * n


# ---------------------------------------------------------------------------
# family (e): sequences of well-formed statements (the first unit declares both tables, so that three units
# suffice for schema + association + instance)
# ---------------------------------------------------------------------------

def statement_pool(seed):
    p = PAL_NAMES[seed % len(PAL_NAMES)]
    A, B, Z = p['A'], p['B'], p['Z']
    return [
        'CREATE TABLE %s (x INTEGER, s STRING); CREATE TABLE %s (y INTEGER);' % (A, B),
        'CREATE TABLE %s (x FOO);' % A,
        "INSERT INTO %s VALUES (1, 'a');" % A,
        'INSERT INTO %s VALUES (1);' % A,
        'INSERT INTO %s (X) VALUES (2);' % A,
        'INSERT INTO %s (x, s) VALUES (1);' % A,
        'INSERT INTO %s (q) VALUES (1);' % A,
        'INSERT INTO %s VALUES (1);' % B,
        "INSERT INTO %s VALUES ('a');" % B,
        'CREATE ROP REF_ID R1 FROM MC %s (x) TO 1 %s (y);' % (A, B),
        'CREATE ROP REF_ID R2 FROM 1C %s (q) TO 1 %s (w);' % (A, B),
        'CREATE ROP REF_ID R3 FROM M %s (x, s) TO 1 %s (y);' % (A, B),
        'CREATE ROP REF_ID R4 FROM 1 %s (x) TO 1 %s (y);' % (Z, B),
        'CREATE UNIQUE INDEX I1 ON %s (x);' % A,
        'CREATE UNIQUE INDEX I2 ON %s (q);' % B,
        'INSERT INTO %s (x, x) VALUES (1, 2);' % A,
        'INSERT INTO %s () VALUES (1);' % A,
        # rows of classes that are never declared (types guessed from the first row of the class), booleans in mixed case
        'INSERT INTO %s (x, f) VALUES (1, True);' % Z,
        "INSERT INTO %s VALUES (fAlSe, 'a');" % p['Y'],
        # a class declared without attributes, as either end of an association and as the class of a row / an identifier
        'CREATE TABLE %s ();' % p['E'],
        'CREATE ROP REF_ID R5 FROM MC %s (x) TO 1 %s (y);' % (A, p['E']),
        'CREATE ROP REF_ID R6 FROM 1C %s (q) TO 1C %s (y);' % (p['E'], B),
        'INSERT INTO %s VALUES (); CREATE UNIQUE INDEX I3 ON %s (x);' % (p['E'], p['E']),
    ]


# ---------------------------------------------------------------------------
# tasks -> items
# ---------------------------------------------------------------------------

def bounds_for(tier):
    if tier == 'thorough':
        return dict(string_len=4, token_len=4, token_len_deep=5, stmt_len=4, hist_len=4, hist_len_uniform=5, hist_len_pos=4)
    return dict(string_len=3, token_len=3, token_len_deep=4, stmt_len=3, hist_len=4, hist_len_uniform=None, hist_len_pos=3)


class Space(object):
    '''Everything that defines the enumerated space for one (tier, seed).'''

    def __init__(self, tier, seed):
        self.tier, self.seed = tier, seed
        self.b = bounds_for(tier)
        self.chars = alphabet(seed)
        self.charset = set(self.chars)
        self.lex = lexemes(seed)
        self.lexset = set(l for _, l in self.lex)
        self.deep_drop = DEEP_DROP[self.b['token_len_deep']]
        self.deep = [l for k, l in self.lex if k not in self.deep_drop]
        self.deepset = set(self.deep)
        self.stmts = statement_pool(seed)
        self.pool = history_pool(seed)
        self.pool2 = position_pool(seed)
        self.configs = base_configs(tier)
        self._bases = {}

    def in_a(self, text):
        return len(text) <= self.b['string_len'] and all(ch in self.charset for ch in text)

    def in_b(self, text):
        parts = text.split(' ')
        n = len(parts)
        if n <= self.b['token_len']:
            return all(p in self.lexset for p in parts)
        if self.b['token_len_deep'] and n <= self.b['token_len_deep']:
            return all(p in self.deepset for p in parts)
        return False

    def base(self, i):
        if i not in self._bases:
            self._bases[i] = base_tokens(self.configs[i], self.seed)
        return self._bases[i]

    def tasks(self):
        t = [('selftest',)]
        t += [('a0',)] + [('a', ci) for ci in range(len(self.chars))]
        lx = [l for _, l in self.lex]
        t += [('b0',)] + [('b', i, j) for i in range(len(lx)) for j in range(len(lx))]
        if self.b['token_len_deep']:
            t += [('bd', i, j) for i in range(len(self.deep)) for j in range(len(self.deep))]
        t += [('c', i) for i in range(len(self.configs))]
        t += pump_tasks(self.tier, self.seed)
        t += [('e0',)] + [('e', i) for i in range(len(self.stmts))]
        t += [('h', op) for op in range(12)] + [('h2', o1, o2) for o1 in range(12) for o2 in range(12)]
        t += [('p', op) for op in range(12)]
        return t

    def items(self, task):
        '''Yield the items of a task, deterministically: ('t', family, text, after_stmt) or ('h', hist) or ('sleep',).'''
        kind = task[0]
        if kind == 'selftest':
            yield ('sleep',)
        elif kind == 'a0':
            yield ('t', 'a', '', False)
            for ch in self.chars:
                yield ('t', 'a', ch, False)
        elif kind == 'a':
            first = self.chars[task[1]]
            for n in range(2, self.b['string_len'] + 1):
                for rest in itertools.product(self.chars, repeat=n - 1):
                    yield ('t', 'a', first + ''.join(rest), False)
        elif kind == 'b0':
            lx = [l for _, l in self.lex]
            for a in lx:
                if not self.in_a(a):
                    yield ('t', 'b', a, False)
        elif kind in ('b', 'bd'):
            if kind == 'b':
                lx = [l for _, l in self.lex]
                lens = range(2, self.b['token_len'] + 1)
            else:
                lx = self.deep
                lens = [self.b['token_len_deep']]
            head = [lx[task[1]], lx[task[2]]]
            for n in lens:
                for rest in itertools.product(lx, repeat=n - 2):
                    text = ' '.join(head + list(rest))
                    if not self.in_a(text):
                        yield ('t', 'b', text, False)
        elif kind == 'c':
            toks, layout = self.base(task[1])
            for spec, text, after in mutations(toks, layout):
                yield ('t', 'c0' if spec[0] == 'base' else 'c', text, after)
        elif kind == 'd':
            for text in pump_items(task, self.seed):
                yield ('t', 'd', text, False)
        elif kind == 'e0':
            for s in self.stmts:
                yield ('t', 'e', s, False)
        elif kind == 'e':
            for n in range(2, self.b['stmt_len'] + 1):
                for rest in itertools.product(self.stmts, repeat=n - 1):
                    yield ('t', 'e', '\n'.join((self.stmts[task[1]],) + rest), False)
        elif kind == 'h':
            yield ('h', [[task[1] // 2, task[1] % 2]])
        elif kind == 'h2':
            head = [[task[1] // 2, task[1] % 2], [task[2] // 2, task[2] % 2]]
            for n in range(2, self.b['hist_len'] + 1):
                for rest in itertools.product(range(12), repeat=n - 2):
                    yield ('h', head + [[o // 2, o % 2] for o in rest])
            n = self.b['hist_len_uniform']
            if n and head[0][1] == head[1][1]:
                # one level deeper with the two uniform build placements: after every input / after the last only
                every = head[0][1]
                for rest in itertools.product(range(6), repeat=n - 2):
                    h = [[head[0][0], every], [head[1][0], every]] + [[i, every] for i in rest]
                    h[-1][1] = 1
                    yield ('h', h)
        elif kind == 'p':
            # histories over the position pool (texts with line structure), every placement of builds
            for n in range(1, self.b['hist_len_pos'] + 1):
                for rest in itertools.product(range(12), repeat=n - 1):
                    yield ('hp', [[o // 2, o % 2] for o in (task[1],) + rest])
        else:
            raise ValueError(task)


# ---------------------------------------------------------------------------
# disposable children with a hard kill
# ---------------------------------------------------------------------------

def exec_item(c, space, item):
    if item[0] == 't':
        res = exec_text(c, item[1], item[2], item[3])
        if item[1] == 'c0' and res == 'ok':
            c.count('base_ok')
    elif item[0] == 'h':
        exec_history(c, space.pool, item[1], space.seed)
    elif item[0] == 'hp':
        c.count('histories_position_pool')
        exec_history(c, space.pool2, item[1], space.seed)
    elif item[0] == 'sleep':
        # watchdog self-test: a deliberately silent child must be killed and confirmed
        n = 0
        while n < 10 ** 10:
            n += 1
        c.count('selftest_not_killed')


_TICK = float(os.sysconf('SC_CLK_TCK'))


def child_cpu(pid):
    '''CPU seconds (user + system) consumed so far by a live child, None if it is gone.'''
    try:
        with open('/proc/%d/stat' % pid, 'rb') as f:
            rest = f.read().rsplit(b')', 1)[1].split()
        return (int(rest[11]) + int(rest[12])) / _TICK
    except (OSError, IndexError, ValueError):
        return None


def _send(fd, code, payload=b''):
    data = struct.pack('<iq', code, len(payload)) + payload
    while data:
        n = os.write(fd, data)
        data = data[n:]


def child_run(ctx, space, items, skip=()):
    '''
    Execute items[i] (i not in skip) in a forked child. Returns ('done', export), ('stuck', i),
    ('died', i) or raises HarnessError.
    '''
    r, w = os.pipe()
    pid = os.fork()
    if pid == 0:
        code = 0
        try:
            os.close(r)
            signal.signal(signal.SIGTERM, signal.SIG_DFL)
            signal.signal(signal.SIGALRM, signal.SIG_DFL)
            c = core.Ctx(ctx.prop, ctx.tier, ctx.seed)
            for i, item in enumerate(items):
                if i in skip:
                    continue
                _send(w, i)
                exec_item(c, space, item)
            _send(w, -1, pickle.dumps(c.export(), protocol=pickle.HIGHEST_PROTOCOL))
        except BaseException:
            try:
                _send(w, -2, traceback.format_exc().encode('utf-8', 'replace'))
            except BaseException:
                code = 3
        finally:
            os._exit(code)
    os.close(w)
    buf = b''
    current = None
    result = None
    mark, waited = None, 0.0
    try:
        while True:
            ready, _, _ = select.select([r], [], [], TIME_BUDGET)
            if not ready:
                # silent for TIME_BUDGET seconds of wall time. On a loaded machine that may be starvation, so the
                # verdict is taken on the CPU time the child burns from here on without announcing another input.
                cpu = child_cpu(pid)
                if cpu is None:
                    result = ('died', current)
                    break
                if mark is None:
                    mark, waited = cpu, 0.0
                waited += TIME_BUDGET
                if cpu - mark >= TIME_BUDGET or waited >= WALL_LIMIT:
                    result = ('stuck', current)
                    break
                continue
            mark = None
            chunk = os.read(r, 1 << 16)
            if not chunk:
                result = ('died', current)
                break
            buf += chunk
            done = False
            while len(buf) >= 12:
                code, ln = struct.unpack('<iq', buf[:12])
                if len(buf) < 12 + ln:
                    break
                payload, buf = buf[12:12 + ln], buf[12 + ln:]
                if code >= 0:
                    current = code
                elif code == -1:
                    result = ('done', pickle.loads(payload))
                    done = True
                else:
                    raise core.HarnessError('C12 child failed:\n' + payload.decode('utf-8', 'replace'))
            if done:
                break
    finally:
        os.close(r)
        try:
            os.kill(pid, signal.SIGKILL)
        except OSError:
            pass
        try:
            os.waitpid(pid, 0)
        except OSError:
            pass
    return result


def item_case(item, why):
    if item[0] == 't':
        return dict(kind=why, family=item[1], text=item[2])
    if item[0] in ('h', 'hp'):
        return dict(kind=why, hist=item[1], pool2=item[0] == 'hp')
    return dict(kind=why, item=list(item))


def confirm_alone(ctx, space, item):
    '''Run one item twice, alone, in fresh children. Returns (n_slow, last export or None).'''
    slow, export, died = 0, None, 0
    for _ in range(2):
        res = child_run(ctx, space, [item])
        if res[0] == 'stuck':
            slow += 1
        elif res[0] == 'died':
            died += 1
        else:
            export = res[1]
    return slow, died, export


def report_slow(ctx, space, item):
    '''Confirm and report an item that kept a child silent beyond the budget (or killed it).'''
    slow, died, export = confirm_alone(ctx, space, item)
    if item[0] == 'sleep':
        if slow == 2:
            ctx.count('watchdog_selftest')
        return
    if slow == 2:
        what = short(item[2]) if item[0] == 't' else repr(item[1:])
        ctx.violation('c12:time', item_case(item, 'time'),
                      'loading %s kept the process busy for more than %.0f s of CPU time (twice, alone, in a fresh process)' %
                      (what, TIME_BUDGET), 'finishes within %.0f s' % TIME_BUDGET, 'killed after more than %.0f s, twice' % TIME_BUDGET,
                      unit_test=('import xtuml\nxtuml.ModelLoader().input(%r)   # does not return in bounded time' % item[2])
                      if item[0] == 't' else None)
    elif died == 2:
        ctx.violation('c12:process-died', item_case(item, 'died'),
                      'the process loading %r died without reporting (twice, alone)' % (item[1:],))
    else:
        ctx.count('slow_unconfirmed')
        if export is not None:
            ctx.merge(export)


def run_items(ctx, space, items):
    skip = set()
    restarts = 0
    while True:
        res = child_run(ctx, space, items, skip)
        if res[0] == 'done':
            ctx.merge(res[1])
            return
        i = res[1]
        if i is None:
            # the child did not even announce its first input (fork starved on a loaded machine): try again
            restarts += 1
            if restarts >= MAX_RESTARTS:
                raise core.HarnessError('C12 child made no progress at all')
            continue
        report_slow(ctx, space, items[i])
        skip.add(i)
        restarts += 1
        if restarts >= MAX_RESTARTS:
            ctx.cap('a batch of %d inputs was abandoned after %d inputs exceeded the time budget' % (len(items), restarts))
            return


_SPACES = {}


def space_for(tier, seed):
    key = (tier, seed)
    if key not in _SPACES:
        _SPACES[key] = Space(tier, seed)
    return _SPACES[key]


BATCH = 4000


def hash_task(sub, task):
    '''64-bit hashes of the texts of a task, 0 for texts that belong to family a or b.'''
    space = space_for(sub.tier, sub.seed)
    out = []
    for item in space.items(task):
        text = item[2]
        out.append(0 if space.in_a(text) or space.in_b(text) else (core.h64(text) or 1))
    return out


def work(sub, args):
    task, skip = args
    space = space_for(sub.tier, sub.seed)
    if sub.time_left() < 0:
        sub.cap('time budget of %d s reached; some tasks were not executed' % sub.budget_s)
        return None
    batch = []
    for n, item in enumerate(space.items(task)):
        if n in skip:
            continue
        batch.append(item)
        if len(batch) >= BATCH:
            run_items(sub, space, batch)
            batch = []
    if batch:
        run_items(sub, space, batch)
    return None


# ---------------------------------------------------------------------------
# run / replay / coverage
# ---------------------------------------------------------------------------

def grammar_guard(ctx):
    '''The token kinds and statement forms the generators cover are those of the real grammar.'''
    import xtuml
    real = set(xtuml.ModelLoader.tokens)
    ctx.require(real == set(TOKEN_TYPES), 'token kinds of the dialect changed: %s' % sorted(real ^ set(TOKEN_TYPES)))
    doc = xtuml.ModelLoader.p_statement.__doc__
    forms = set(re.findall(r'(\w+_statement) SEMICOLON', doc))
    ctx.require(forms == set(['create_table_statement', 'insert_into_statement', 'create_rop_statement',
                              'create_index_statement']), 'statement forms of the dialect changed: %s' % sorted(forms))


def run(ctx):
    space = space_for(ctx.tier, ctx.seed)
    grammar_guard(ctx)
    # calibration of the history pool on fresh loaders (in a child, like everything else)
    import xtuml
    for i, text in enumerate(space.pool + space.pool2):
        i = i % len(space.pool)
        l = xtuml.ModelLoader()
        with core.time_limit(10):
            try:
                l.input(text)
                ok = True
            except xtuml.ParsingException:
                ok = False
            except Exception:
                ok = None          # reported by the enumeration below
        ctx.require(ok is None or ok == (i < 3), 'history pool text %d is %s by a fresh loader' %
                    (i, 'accepted' if ok else 'rejected'))

    # pre-pass (parallel): hash every input of families c, d, e; the parent then makes them distinct from each
    # other (first occurrence in task order wins; base files before their mutations) and from families a, b
    tasks = space.tasks()
    hashed = [t for t in tasks if t[0] in ('c', 'd', 'e0', 'e')]
    hashes = dict(zip(hashed, ctx.pmap(hash_task, hashed, chunk=4)))
    seen = set()
    for t in hashed:
        if t[0] == 'c':
            seen.add(hashes[t][0])          # item 0 of a 'c' task is the base file itself
    jobs = []
    dups = 0
    for task in tasks:
        skip = set()
        for n, h in enumerate(hashes.get(task, ())):
            if h == 0:
                skip.add(n)                 # member of family a or b
            elif task[0] == 'c' and n == 0:
                continue
            elif h in seen:
                skip.add(n)
            else:
                seen.add(h)
        dups += len(skip)
        jobs.append((task, frozenset(skip)))
    ctx.count('duplicates_skipped', dups)
    del seen, hashes
    # heavy tasks first, order otherwise rotated by the seed
    weight = {'bd': 0, 'h2': 1, 'a': 2, 'c': 3, 'b': 4, 'selftest': -1}
    jobs = explorer.rotate(jobs, ctx.seed)
    jobs.sort(key=lambda j: weight.get(j[0][0], 5))
    ctx.pmap(work, jobs, chunk=1)

    toks, layout = space.base(0)
    ctx.sample(dict(family='c', base_file=render(toks, layout)[:600]))
    ctx.sample(dict(family='a', alphabet=space.chars))
    ctx.sample(dict(family='b', lexemes=[l for _, l in space.lex]))
    ctx.sample(dict(family='e', statements=space.stmts))
    ctx.sample(dict(family='history', pool=space.pool))
    ctx.sample(dict(family='history (position pool)', pool=space.pool2))

    q = ctx.quick
    ctx.require(ctx.n('watchdog_selftest') == 1, 'the watchdog did not kill and confirm the deliberately silent child')
    ctx.require(ctx.n('selftest_not_killed') == 0, 'the deliberately silent child was not killed')
    ctx.require(ctx.n('inputs_c0') == len(space.configs) and ctx.n('inputs_c0') >= 30,
                'base files: %d of %d distinct' % (ctx.n('inputs_c0'), len(space.configs)))
    ctx.require(ctx.n('base_ok') == len(space.configs),
                'only %d of the %d base files are accepted and build' % (ctx.n('base_ok'), len(space.configs)))
    ctx.require(ctx.n('inputs') >= (450000 if q else 5000000), 'too few inputs (%d)' % ctx.n('inputs'))
    ctx.require(ctx.n('inputs_c') >= (30000 if q else 300000), 'too few mutations (%d)' % ctx.n('inputs_c'))
    ctx.require(ctx.n('inputs_d') >= (100000 if q else 650000), 'too few pumped inputs (%d)' % ctx.n('inputs_d'))
    ctx.require(ctx.n('accepted_with_statements') >= (8000 if q else 100000),
                'too few accepted inputs (%d)' % ctx.n('accepted_with_statements'))
    ctx.require(ctx.n('rejected') >= (400000 if q else 4700000), 'too few rejected inputs (%d)' % ctx.n('rejected'))
    ctx.require(ctx.n('rejected_after_statement') >= (20000 if q else 200000),
                'too few inputs rejected after a complete statement (%d)' % ctx.n('rejected_after_statement'))
    ctx.require(ctx.n('build_ok') >= (3000 if q else 30000), 'too few successful builds (%d)' % ctx.n('build_ok'))
    ctx.require(ctx.n('build_parsing_exception') >= (2000 if q else 20000),
                'too few builds raising ParsingException (%d)' % ctx.n('build_parsing_exception'))
    ctx.require(ctx.n('build_meta_exception') >= (1500 if q else 15000),
                'too few builds raising a MetaException (%d)' % ctx.n('build_meta_exception'))
    ctx.require(ctx.n('histories') >= (22000 if q else 38000), 'too few histories (%d)' % ctx.n('histories'))
    ctx.require(ctx.n('histories_nontrivial') >= (10000 if q else 27000),
                'too few histories with an accepted input after a rejected one (%d)' % ctx.n('histories_nontrivial'))
    ctx.require(ctx.n('builds_compared') >= (40000 if q else 70000), 'too few history builds compared')
    ctx.require(ctx.n('histories_position_pool') >= (1800 if q else 22000),
                'too few histories over the position pool (%d)' % ctx.n('histories_position_pool'))
    ctx.require(ctx.n('rejection_messages_compared_after_a_rejection') >= 10000,
                'too few rejection messages compared after an earlier rejection (%d)' % ctx.n('rejection_messages_compared_after_a_rejection'))
    ctx.require(ctx.n('accepted_statements_compared') >= 20000,
                'too few accepted inputs whose statements were compared (%d)' % ctx.n('accepted_statements_compared'))
    ctx.require(ctx.n('build_messages_compared_after_a_rejection') >= 200,
                'too few failing builds after a rejection whose message was compared (%d)' % ctx.n('build_messages_compared_after_a_rejection'))
    ctx.require(ctx.nd('outcomes') >= 40, 'too few distinct outcomes (%d)' % ctx.nd('outcomes'))


def replay(ctx, case):
    space = space_for(ctx.tier, ctx.seed)
    kind = case.get('kind')
    if kind == 'time' or kind == 'died':
        if 'text' in case:
            item = ('t', case.get('family', 'd'), case['text'], False)
        else:
            item = ('hp' if case.get('pool2') else 'h', case['hist'])
        report_slow(ctx, space, item)
    elif kind == 'history':
        _REF_CACHE.clear()
        with core.time_limit(30):
            exec_history(ctx, case['pool'], case['hist'], ctx.seed)
    else:
        with core.time_limit(30):
            exec_text(ctx, case.get('family', 'a'), case['text'], False)


def coverage(ctx):
    b = bounds_for(ctx.tier)
    space = space_for(ctx.tier, ctx.seed)
    fam = dict((k[len('inputs_'):], v) for k, v in ctx.counts.items() if k.startswith('inputs_'))
    nontrivial = ctx.n('accepted_with_statements') + ctx.n('rejected_after_statement')
    return dict(
        states=ctx.n('inputs'),
        transitions=ctx.n('input_calls') + ctx.n('build_calls'),
        traces_validated_against_impl=ctx.n('input_calls') + ctx.n('build_calls'),
        evaluations=ctx.n('input_calls') + ctx.n('build_calls') + ctx.n('rejections_compared') + ctx.n('builds_compared') +
        ctx.n('input_outcomes_compared'),
        distinct_nontrivial=nontrivial,
        distinct_outcomes=ctx.nd('outcomes'),
        rule='states = distinct input texts (distinct by construction inside families a and b, by hash across c, d, e and '
             'against a, b); an input is non-trivial when input() accepted it with at least one statement and it went on '
             'to build_metamodel (%d) or when it was rejected although its first divergence from a valid file lies behind '
             'at least one complete statement (%d); every input()/build_metamodel() call executed had its outcome class '
             'checked; histories are counted separately' % (ctx.n('accepted_with_statements'), ctx.n('rejected_after_statement')),
        inputs_per_family=fam,
        accepted=ctx.n('accepted'), rejected=ctx.n('rejected'),
        builds=dict(ok=ctx.n('build_ok'), parsing_exception=ctx.n('build_parsing_exception'),
                    meta_exception=ctx.n('build_meta_exception')),
        histories=dict(total=ctx.n('histories'), with_accept_after_reject=ctx.n('histories_nontrivial'),
                       rejections_snapshot_compared=ctx.n('rejections_compared') - ctx.n('rejected'),
                       builds_compared_with_fresh_loader=ctx.n('builds_compared'),
                       over_the_position_pool=ctx.n('histories_position_pool'),
                       rejection_messages_compared_with_fresh_loader=ctx.n('rejection_messages_compared'),
                       of_which_after_an_earlier_rejection=ctx.n('rejection_messages_compared_after_a_rejection'),
                       accepted_inputs_with_statements_compared=ctx.n('accepted_statements_compared'),
                       failing_builds_after_a_rejection_message_compared=ctx.n('build_messages_compared_after_a_rejection')),
        time_oracle=dict(budget_s=TIME_BUDGET, slow_but_not_confirmed=ctx.n('slow_unconfirmed'),
                         watchdog_selftest=ctx.n('watchdog_selftest')),
        duplicates_skipped=ctx.n('duplicates_skipped'),
        bounds=dict(
            a='all strings of length 0..%d over %d characters' % (b['string_len'], len(space.chars)),
            b='all token sequences of length 1..%d over %d token kinds (one lexeme each)' % (b['token_len'], len(space.lex)) +
              ('; length %d over %d kinds (without %s)' % (b['token_len_deep'], len(space.deep), ', '.join(space.deep_drop))
               if b['token_len_deep'] else ''),
            c='%d valid base files (default + %s of the dimensions %s); per file every token deletion, duplication, adjacent '
              'swap, 10 lexical-class flips of every value (booleans in upper, lower and mixed case), every truncation' %
              (len(space.configs), 'one or two departures (cardinality pairs are combined with the phrase forms only)'
               if ctx.thorough else 'one departure', [d for d, _ in DIMS]),
            d='prefix + unit^n: %d prefixes %r, units over the alphabet of %s' %
              (len(PUMP_PREFIXES), PUMP_PREFIXES, '1..2 characters (n in 16, 24, 32, 48) and of 3 characters (n in 16, 32)'
               if ctx.thorough else '1..2 characters (n in 16, 48) and of 3 characters (first 4 prefixes, n = 32)'),
            e='all sequences of 1..%d statements over a pool of %d well-formed statements' % (b['stmt_len'], len(space.stmts)),
            histories='all sequences of 1..%d input calls over 3 accepted + 3 rejected texts, every placement of builds' % b['hist_len'] +
                      ('; all sequences of %d input calls with a build after every input / after the last input only' %
                       b['hist_len_uniform'] if b['hist_len_uniform'] else '') +
                      '; all sequences of 1..%d input calls over the position pool (3 accepted + 3 rejected multi-line texts whose '
                      'errors lie on lines 5-6), every placement of builds' % b['hist_len_pos'],
        ),
        exhaustive=not ctx.caps_hit,
    )
