'''
C19 -- new instances get typed defaults and fresh non-null identifiers.

Three exhaustive families on the real code, each with a plain-python reference:

 A  creation calls (E2): every attribute-type list of length <= 3 over the five
    core types, in several spellings, x every split of the attributes into
    positional prefix / keyword / omitted (keyword AND positional for the same
    attribute included) x generator kind x creation route; the same with one
    referential attribute inserted at every position; the same with one
    attribute of an unknown type at every position (must be rejected).
    Family "names": the attribute is named like something the library or python
    itself uses -- every identifier found, at run time, in the code objects of
    xtuml.meta (arguments, locals, attribute and global names, identifier-like
    string constants) and in dir() of Class / MetaClass / object -- declared as
    found and in another case form, of every core type, before and after a
    companion id attribute, x every split x creation route, each instance cloned.
 B  generator histories (E1, search to closure under a counter cap): peek,
    next(), next(gen), new of classes with 0 / 1 / 2 id attributes, new with
    explicit ids, all on one metamodel; for IntegerGenerator, UUIDGenerator,
    the metamodel's own default generator and two user-supplied subclasses.
    A second search per generator adds the iteration protocols: it = iter(g) /
    next(it), for v in g: ... break, itertools.islice(g, n), zip(range(n), g).
 C  two live generators: every interleaving of peek / next / next(iter(g)) on
    two generators.

Reference: defaults False / 0 / 0.0 / '' compared by value AND type; positional
arguments land on the attributes in declaration order, keyword arguments are
applied afterwards; the i-th value handed out by a generator is the i-th value
its readfunc produced (1, 2, 3, ... for IntegerGenerator); peek returns the
value the following next returns and changes nothing; defaulted ids are
values handed out by the metamodel's generator during that call, never null,
never seen before in the metamodel.
'''
import gc
import itertools

from mc import core, explorer

NEEDS_BRIDGEPOINT = False
NONE_GENS = ['int']          # generator kinds of the creation cases that get explicit None values (see call_args)
RESEED_VALUE = 20240924
RESEED_MAX = 2
BUDGET_S = {'quick': 3600, 'thorough': 14400}
# generator kinds whose class overrides next() (not only readfunc)
NEXT_KINDS = ['nonnull', 'audited']
NEXT_ROUTES = {'audited': ['m.new'], 'count': ['m.new', 'mc()']}   # creation family: routes of a next()-overriding kind (default: every route)
# plain iterators handed to MetaModel() as its generator (round 7, C19-14): the library draws ids with next(generator)
ITER_KINDS = ['count']
# creation after the last strong reference to the MetaModel object was dropped
ORPHAN_K = {'quick': 2, 'thorough': 3}
ORPHAN_GENS = ['int', 'recuuid', 'nonnull']
ORPHAN_ROUTES = ['mc.new', 'mc()', 'inst.new']      # inst.new: xtuml.get_metaclass(<previous instance>).new(...)
DROP_KINDS = ['int', 'default', 'audited']
DROP_NEW = ['new K1', 'new K2', 'new K2 x Id2=y']
# family "names": attribute names that coincide with names the library itself (or python) uses
NAME_FLOOR = ['self', 'cls', 'kind', 'inst', 'instance', 'referentials', 'args', 'kwargs', 'name', 'value', 'values',
              'metaclass', 'metamodel']
NAME_MODULES = {'quick': ['xtuml.meta'], 'thorough': ['xtuml.meta', 'xtuml.tools', 'xtuml.load', 'xtuml.persist']}
NAME_GENS = {'quick': ['int'], 'thorough': ['int', 'user', 'recuuid']}
NAME_COMPANION = ['Cq', 'unique_id']
ASSUMPTIONS = [
    'the first sentence of the statement is read literally: every non-referential attribute is given its default before the '
    'arguments are applied, so one generator value is consumed per non-referential unique_id attribute even when an explicit '
    'id overrides it; which of the consumed values lands on which defaulted id attribute is left open',
    'explicit ids supplied by the caller are chosen outside the range of every generator (collisions between caller-supplied '
    'and generated ids are the caller\'s business and outside the statement)',
    'user-supplied generators are IdGenerator subclasses that never hand out a null value: two that only define readfunc (Tens, '
    'RecUUID) and two that override next() (and peek() where needed) on top of the inherited read-ahead slot: NonNull (readfunc '
    'counts 0, 1, 2, ...; next() steps over the null id, so it hands out 1, 2, 3, ...) and Audited (a UUIDGenerator whose next() '
    'records every value it hands out). "Comes from the metamodel\'s generator" is read as: is a value the generator\'s own '
    'next() handed out, whatever the calling form (g.next(), next(g), iteration, creation); for Audited the value of a peek is only '
    'compared with the following hand-out. The next()-overriding kinds run in the creation family with the first spelling only '
    '(Audited: route m.new only) and in the plain and iteration history menus',
    'dropping the metamodel: a program may keep only a metaclass or an instance (and the generator object) and no reference to the '
    'MetaModel object (del + gc.collect()); creation through mc.new(...), mc(...) or xtuml.get_metaclass(inst).new(...) is then '
    'still creation in that metamodel with that generator (creation family: attribute lists of length <= %d quick / %d thorough, '
    'first spelling, generators %s; history menu drop: one drop per history, generators %s, the program calls g.next() after the '
    'drop and next(g) before); the collection at the drop is a full gc.collect() over everything allocated since the metamodel '
    'under test was built (older objects are exempted with gc.freeze() for speed)' %
    (ORPHAN_K['quick'], ORPHAN_K['thorough'], ORPHAN_GENS, DROP_KINDS),
    'for the plain UUIDGenerator and the metamodel\'s default generator the sequence is unknown: ids are checked for being '
    'non-null, pairwise distinct, fresh, and consistent with a preceding peek; a recording subclass of UUIDGenerator makes '
    'the produced sequence observable and is checked exactly',
    'an attribute of unknown type must be rejected with a MetaException (or subclass) either when the class is defined or when '
    'an instance is created without a value for it; creation calls that pass a value for that attribute are not generated',
    '"the metamodel\'s generator" is the object m.id_generator holds when the instance is created (family D replaces it '
    'between creations) and "attribute order"/"every non-referential attribute" refer to the class as it is at that moment '
    '(family D appends, inserts and deletes attributes between creations); ids of different generators may coincide by design',
    'a generator is its own supply of ids whatever the calling form: iter(g) hands nothing out, and every value obtained through '
    'next(it) with it = iter(g), a for loop left with break, itertools.islice or zip(range(n), g) counts as handed out '
    '(consumed exactly once, in sequence), exactly like g.next() and next(g); iteration forms that pull a value and drop it '
    '(zip(g, range(n))) are not generated',
    'an explicit None is a supplied value like any other (applied in its turn; the attribute, unique ids included, then reads None; '
    'a keyword None overrides a positional value): per creation case two more instances (all positional values None / all keyword '
    'values None), generator kinds %s, first spelling of the type names only; each of the two is cloned through MetaModel.clone / '
    'MetaClass.clone, which is read as a creation that supplies every value of the original (unset ones included) positionally' % NONE_GENS,
    'generator histories, menu reseed: the program calls random.seed(%d) up to %d times between peek / next / creations (every '
    'generator kind); the operation seeds explicitly, nothing else in the check depends on the state of the random module; canonical '
    'state includes the numbers of values handed out at each re-seed' % (RESEED_VALUE, RESEED_MAX),
    '"all schemas" includes schemas whose attribute names coincide with names the library or python uses (family names): the '
    'pool is computed from the tree under test -- co_varnames, co_names, co_freevars, co_cellvars and identifier-like string '
    'constants of every code object (nested ones included) of the functions, methods and properties defined in %s (thorough: %s), '
    'dir() of xtuml.meta.Class, MetaClass and object, plus the fixed names %s -- filtered to xtuml identifiers ([A-Za-z_][A-Za-z0-9_]*); '
    'excluded by rule: names of the form __x__, which python reserves for its object protocol (an instance attribute __class__, '
    '__dict__ or __weakref__ cannot hold a plain value in any python class) and where the library keeps the __metaclass__ slot of '
    'its instance classes. Every pool name is declared as found and in one other case form (quick; thorough: upper, lower, '
    'capitalised, swapped), with each core type, before and after a companion attribute %s, for every split into positional prefix '
    '/ keyword / omitted, every creation route, generators %s (thorough %s); every instance is read back under the declared '
    'spelling and cloned (MetaModel.clone for route m.new, MetaClass.clone otherwise), keywords are spelled as declared' %
    (NAME_MODULES['quick'], NAME_MODULES['thorough'], NAME_FLOOR, NAME_COMPANION, NAME_GENS['quick'], NAME_GENS['thorough']),
    'keyword arguments are spelled as declared (other spellings: C10); the value read back for a referential attribute is '
    'compared only when the call supplied the id of an existing instance',
]

TYPES = ['BOOLEAN', 'INTEGER', 'REAL', 'STRING', 'UNIQUE_ID']
DEFAULTS = {'BOOLEAN': False, 'INTEGER': 0, 'REAL': 0.0, 'STRING': ''}
# explicit values: [first instance, second instance]; positional and keyword values differ so that the order of application shows
POS = {'BOOLEAN': [True, False], 'INTEGER': [7, -3], 'REAL': [1.5, -0.25], 'STRING': ['p', 'pos'], 'UNIQUE_ID': [100001, 100003]}
KW = {'BOOLEAN': [False, True], 'INTEGER': [9, 12], 'REAL': [2.5, 8.0], 'STRING': ['k', 'kw'], 'UNIQUE_ID': [200001, 200003]}
UNKNOWN_TYPES = ['bogus', 'void', 'inst_ref<K>', 'date', 'UNIQUEID', 'int']
NAME_PALETTES = [['a0', 'a1', 'a2', 'a3'], ['Alpha', 'Beta', 'Gamma', 'Delta'], ['X', 'Y', 'Z', 'W'],
                 ['first_attr', 'Second_Attr', 'THIRD', 'fourth']]
ROUTES = ['m.new', 'mc.new', 'mc()']
GEN_KINDS_A = ['int', 'user', 'recuuid']
GEN_KINDS_B = ['int', 'user', 'recuuid', 'uuid', 'default']
LIMIT_S = 3.0
MISSING = '<nothing produced>'


def limited(fn):
    '''Run fn() under the time limit; a limit exceeded three times in a row is a hang (the machine may stall a process
    for seconds under load, a real hang repeats).  -> (finished, result)'''
    for attempt in range(3):
        try:
            with core.time_limit(LIMIT_S):
                return True, fn()
        except core.Timeout:
            continue
    return False, None


# Dropping the metamodel is followed by a full garbage collection.  A full collection of a process that holds the whole check
# costs milliseconds; gc.freeze() exempts everything allocated before the metamodel under test was built, so that the
# collection at the drop only has to look at what was allocated since (the metamodel and everything hanging off it).
_GC = {'marks': 0}


def gc_mark():
    gc.unfreeze()
    _GC['marks'] += 1
    if _GC['marks'] % 64 == 0:
        gc.collect()           # (what earlier worlds left behind)
    gc.freeze()


def gc_drop():
    gc.collect()
    gc.unfreeze()


def spell(ty, style):
    if style == 0:
        return ty.lower()
    if style == 1:
        return ty.upper()
    return '_'.join(p.capitalize() for p in ty.split('_'))


def is_null_id(v):
    return v is None or (isinstance(v, int) and not isinstance(v, bool) and v == 0) or v == ''


# ---------------------------------------------------------------------------
# family "names": the pool of names the tree under test itself uses
# ---------------------------------------------------------------------------

import re
import types as _types

XTUML_ID = re.compile(r'^[A-Za-z_][A-Za-z0-9_]*$')          # t_ID of xtuml/load.py
DUNDER = re.compile(r'^__.*__$')


def code_objects(mod):
    '''Every code object of the functions, methods and properties defined in module *mod*, nested ones included.'''
    seen, out = set(), []

    def walk_code(co):
        if id(co) in seen:
            return
        seen.add(id(co))
        out.append(co)
        for c in co.co_consts:
            if isinstance(c, _types.CodeType):
                walk_code(c)

    def walk(o):
        if isinstance(o, (staticmethod, classmethod)):
            o = o.__func__
        if isinstance(o, property):
            for f in (o.fget, o.fset, o.fdel):
                if f is not None:
                    walk(f)
        elif isinstance(o, _types.FunctionType):
            if o.__module__ == mod.__name__:
                walk_code(o.__code__)
        elif isinstance(o, type):
            if o.__module__ == mod.__name__ and id(o) not in seen:
                seen.add(id(o))
                for v in list(vars(o).values()):
                    walk(v)
    for v in list(vars(mod).values()):
        walk(v)
    return out


def name_pool(tier):
    '''Sorted list of the names of the family (see ASSUMPTIONS), computed from the tree under test.'''
    import importlib
    import xtuml.meta
    names = set(NAME_FLOOR)
    for modname in NAME_MODULES[tier]:
        try:
            mod = importlib.import_module(modname)
        except ImportError:
            continue
        for co in code_objects(mod):
            for group in (co.co_varnames, co.co_names, co.co_freevars, co.co_cellvars):
                names.update(group)
            names.update(c for c in co.co_consts if isinstance(c, str))
    for o in (xtuml.meta.Class, xtuml.meta.MetaClass, object):
        names.update(dir(o))
    return sorted(n for n in names if XTUML_ID.match(n) and not DUNDER.match(n))


def case_forms(name, tier):
    '''The declared spellings of one pool name: as found, then other case forms (quick: the first that differs).'''
    forms = [name]
    for f in (name.upper(), name.lower(), name.capitalize(), name.swapcase()):
        if f not in forms:
            forms.append(f)
    return forms[:2] if tier == 'quick' else forms


def run_names(sub, task):
    '''Every creation case of one pool name.'''
    _, name, _ = task
    tier = sub.tier
    for form in case_forms(name, tier):
        companion = NAME_COMPANION[0] if form.upper() != NAME_COMPANION[0].upper() else NAME_COMPANION[0] + '2'
        for ty in TYPES:
            for pos in (0, 1):
                attr_names = [companion]
                attr_types = [NAME_COMPANION[1]]
                attr_names.insert(pos, form)
                attr_types.insert(pos, spell(ty, 0))
                sub.count('schemas')
                sub.count('name_schemas')
                for npos, kw in shapes(2):
                    for gen in NAME_GENS[tier]:
                        for route in ROUTES:
                            run_creation(sub, dict(part='create', fam='names', types=attr_types, attr_names=attr_names,
                                                   pool_name=name, at=pos, special=None, unknown=None, npos=npos, kw=kw,
                                                   gen=gen, route=route, names=0, nones=False))
    return None


# ---------------------------------------------------------------------------
# generators and their reference
# ---------------------------------------------------------------------------

_USER = {}


def user_classes():
    import xtuml
    if _USER.get('mod') is not xtuml:
        class Tens(xtuml.IdGenerator):
            '''user-supplied: 10, 20, 30, ...'''
            _n = 0

            def readfunc(self):
                self._n += 10
                return self._n

        class RecUUID(xtuml.UUIDGenerator):
            '''user-supplied: uuid generator that records what its readfunc produced'''
            def __init__(self):
                self.log = []
                xtuml.UUIDGenerator.__init__(self)

            def readfunc(self):
                v = xtuml.UUIDGenerator.readfunc(self)
                self.log.append(v)
                return v
        class ZeroBased(xtuml.IdGenerator):
            '''user-supplied: 0, 1, 2, ... (the first value is falsy; used for peek/next only, never for creation)'''
            _n = 0

            def readfunc(self):
                v = self._n
                self._n += 1
                return v

        class NonNull(xtuml.IdGenerator):
            '''user-supplied: readfunc counts 0, 1, 2, ...; next() steps over the null id, so 1, 2, 3, ... are handed out'''
            def __init__(self):
                self._n = -1
                xtuml.IdGenerator.__init__(self)

            def readfunc(self):
                self._n += 1
                return self._n

            def peek(self):
                v = xtuml.IdGenerator.peek(self)
                return v if v else self._n + 1

            def next(self):
                v = xtuml.IdGenerator.next(self)
                while not v:
                    v = xtuml.IdGenerator.next(self)
                return v

        class Audited(xtuml.UUIDGenerator):
            '''user-supplied: uuid generator whose next() records every value it hands out'''
            def __init__(self):
                self.issued = []
                xtuml.UUIDGenerator.__init__(self)

            def next(self):
                v = xtuml.UUIDGenerator.next(self)
                self.issued.append(v)
                return v
        _USER.update(mod=xtuml, Tens=Tens, RecUUID=RecUUID, ZeroBased=ZeroBased, NonNull=NonNull, Audited=Audited)
    return _USER


def make_metamodel(kind):
    '''-> (metamodel, its generator)'''
    import xtuml
    if kind == 'default':
        m = xtuml.MetaModel()
    elif kind == 'int':
        m = xtuml.MetaModel(xtuml.IntegerGenerator())
    elif kind == 'uuid':
        m = xtuml.MetaModel(xtuml.UUIDGenerator())
    elif kind == 'user':
        m = xtuml.MetaModel(user_classes()['Tens']())
    elif kind == 'zerobased':
        m = xtuml.MetaModel(user_classes()['ZeroBased']())
    elif kind == 'recuuid':
        m = xtuml.MetaModel(user_classes()['RecUUID']())
    elif kind == 'nonnull':
        m = xtuml.MetaModel(user_classes()['NonNull']())
    elif kind == 'audited':
        m = xtuml.MetaModel(user_classes()['Audited']())
    elif kind == 'count':
        m = xtuml.MetaModel(itertools.count(100))
    else:
        raise ValueError(kind)
    return m, m.id_generator


class GenRef(object):
    '''Reference state of one generator: how many values were handed out, what a peek showed, what was handed out.'''

    def __init__(self, kind, gen):
        self.kind = kind
        self.gen = gen
        self.pos = 0
        self.slack = 0
        self.pending = None     # value shown by peek since the last consumption
        self.seen = set()       # values handed out so far (next results, values consumed by new)

    @property
    def exact(self):
        return self.kind in ('int', 'user', 'recuuid', 'zerobased', 'nonnull', 'audited', 'count')

    def value_at(self, i):
        if self.kind in ('int', 'nonnull'):
            return i + 1
        if self.kind == 'audited':
            # what the generator's own next() handed out; known only once it was handed out
            log = self.gen.issued
            return log[i] if i < len(log) else MISSING
        if self.kind == 'user':
            return 10 * (i + 1)
        if self.kind == 'count':
            return 100 + i
        if self.kind == 'zerobased':
            return i
        if self.kind == 'recuuid':
            log = self.gen.log
            return log[i] if i < len(log) else MISSING
        return None

    # The number of generator values a creation call consumes is only fixed for the ids it defaults: whether an id
    # attribute that receives an explicit value also draws (and discards) a generator value is not part of the
    # statement.  The reference therefore keeps a lower bound *pos* and a *slack* of values that may or may not have
    # been consumed, and collapses it at the next observation.
    def _candidates(self):
        return [(k, self.value_at(self.pos + k)) for k in range(getattr(self, 'slack', 0) + 1)]

    def _collapse(self, v):
        for k, exp in self._candidates():
            if exp is not None and v == exp:
                self.pos += k
                self.slack = 0
                return True
        return False

    def peek(self, v):
        '''Judge the value a peek returned; -> list of (kind, message, expected)'''
        out = []
        exp = self.value_at(self.pos) if self.kind != 'audited' else None    # (audited: not handed out yet, unknown)
        if is_null_id(v) and self.kind != 'zerobased':
            out.append(('peek:null', 'peek returned the null id %r' % (v,), 'a non-null id'))
        elif self.pending is not None and v != self.pending:
            out.append(('peek:advanced', 'two peeks with nothing handed out in between returned %r and then %r' %
                        (self.pending, v), self.pending))
        elif exp is not None and not self._collapse(v):
            out.append(('peek:value', 'peek returned %r, the generator\'s value number %d is %r' % (v, self.pos + 1, exp), exp))
        elif v in self.seen:
            out.append(('peek:stale', 'peek returned %r which was already handed out' % (v,), 'a fresh value'))
        self.pending = v
        return out

    def next(self, v):
        out = []
        exp = self.value_at(self.pos)
        if is_null_id(v) and self.kind != 'zerobased':
            out.append(('next:null', 'next returned the null id %r' % (v,), 'a non-null id'))
        elif self.pending is not None and v != self.pending:
            out.append(('next:differs-from-peek', 'peek showed %r but the following next returned %r' % (self.pending, v),
                        self.pending))
        elif exp is not None and not self._collapse(v):
            out.append(('next:value', 'value number %d handed out is %r, expected %r%s' %
                        (self.pos + 1, v, exp, ' (the integer generator yields 1, 2, 3, ...)' if self.kind == 'int' else ''), exp))
        elif v in self.seen:
            out.append(('next:repeated', 'next returned %r a second time' % (v,), 'a fresh value'))
        self.seen.add(v)
        self.pos += 1
        self.slack = 0
        self.pending = None
        return out

    def consumed_by_new(self, n_id_attrs, defaulted):
        '''A creation call with n non-referential id attributes of which *defaulted* (list of values read back) were not
        overridden.  -> problems; advances the reference.'''
        out = []
        slack = getattr(self, 'slack', 0)
        window = [self.value_at(self.pos + j) for j in range(slack + n_id_attrs)]
        for d in defaulted:
            if is_null_id(d):
                out.append(('new:null-id', 'a defaulted unique id is the null id %r' % (d,), 'a non-null id'))
        if not out and len(set(defaulted)) != len(defaulted):
            out.append(('new:repeated-id', 'two defaulted ids of one instance are equal: %r' % (defaulted,), 'distinct ids'))
        if not out:
            for d in defaulted:
                if d in self.seen and d != self.pending:
                    out.append(('new:repeated-id', 'defaulted id %r was already handed out in this metamodel' % (d,),
                                'a fresh id'))
                    break
        last = -1
        if not out and self.exact:
            for d in defaulted:
                if d not in window:
                    out.append(('new:id-not-from-generator',
                                'defaulted id %r is not among the values %r the metamodel\'s generator hands out next '
                                '(values number %d..%d)' % (d, window, self.pos + 1, self.pos + len(window)), window))
                    break
                last = max(last, window.index(d))
        if not out and (not self.exact or self.kind == 'audited') and self.pending is not None and n_id_attrs and len(defaulted) == n_id_attrs \
           and self.pending not in defaulted:
            out.append(('new:id-differs-from-peek', 'peek showed %r but the ids defaulted next are %r' %
                        (self.pending, defaulted), self.pending))
        self.seen.update(defaulted)
        hi = self.pos + slack + n_id_attrs
        lo = max(self.pos + len(defaulted), self.pos + last + 1)
        if self.exact:
            self.seen.update(v for v in window[:max(0, lo - self.pos)] if v is not None and v != MISSING)
        self.pos = lo
        self.slack = max(0, hi - lo)
        if defaulted:
            self.pending = None
        elif n_id_attrs and self.slack:
            self.pending = None      # a peeked value may or may not have been drawn by an overridden id attribute
        return out


# ---------------------------------------------------------------------------
# judging one created instance
# ---------------------------------------------------------------------------

def judge_instance(inst, attrs, explicit, gref):
    '''
    attrs: [(name, TYPE upper-cased, role)] role in plain / ref; explicit: {index: value finally expected}.
    -> problems [(kind, message, expected, observed)]
    '''
    out = []
    defaulted = []
    n_ids = 0
    for i, (name, ty, role) in enumerate(attrs):
        try:
            got = getattr(inst, name)
        except Exception as e:
            out.append(('new:unreadable', 'reading %s raised %s' % (name, type(e).__name__), None, type(e).__name__))
            continue
        if role == 'ref':
            if i in explicit and explicit[i] is not None and got != explicit[i]:
                out.append(('new:referential-argument', 'referential attribute %s reads %r, the call supplied the id %r of '
                            'an existing instance' % (name, got, explicit[i]), explicit[i], got))
            continue
        if ty == 'UNIQUE_ID':
            n_ids += 1
        if i in explicit:
            exp = explicit[i]
            if type(got) is not type(exp) or got != exp:
                out.append(('new:argument', 'attribute %s (%s, position %d) reads %r, expected the supplied value %r' %
                            (name, ty, i, got, exp), repr(exp), repr(got)))
        elif ty == 'UNIQUE_ID':
            defaulted.append(got)
        else:
            exp = DEFAULTS[ty]
            if type(got) is not type(exp) or got != exp:
                out.append(('new:default:%s' % ty.lower(), 'attribute %s of type %s defaults to %r (%s), expected %r (%s)' %
                            (name, ty, got, type(got).__name__, exp, type(exp).__name__), repr(exp), repr(got)))
    for k, msg, exp in gref.consumed_by_new(n_ids, defaulted):
        out.append((k, msg, exp, defaulted))
    return out


# ---------------------------------------------------------------------------
# family A: creation calls
# ---------------------------------------------------------------------------

def style_sets(k, tier):
    if tier == 'thorough':
        return list(itertools.product(range(3), repeat=k))
    out = []
    for s in [(0,) * k, (1,) * k, (2,) * k, tuple((i + 1) % 3 for i in range(k)), tuple((2 * i + 2) % 3 for i in range(k))]:
        if s not in out:
            out.append(s)
    return out


def schema_tasks(tier):
    '''(fam, types (upper), special position or None)'''
    tasks = []
    kmax = 3
    for k in range(1, kmax + 1):
        for types in itertools.product(TYPES, repeat=k):
            tasks.append(('plain', list(types), None))
    if tier == 'thorough':
        for types in itertools.product(TYPES, repeat=4):
            tasks.append(('plain4', list(types), None))
    for k in range(1, ORPHAN_K[tier] + 1):
        for types in itertools.product(TYPES, repeat=k):
            tasks.append(('orphan', list(types), None))
    kspecial = 2 if tier == 'quick' else 3
    for k in range(0, kspecial + 1):
        for types in itertools.product(TYPES, repeat=k):
            for j in range(k + 1):
                tasks.append(('ref', list(types), j))
                tasks.append(('unknown', list(types), j))
    for name in name_pool(tier):
        tasks.append(('names', name, None))
    return tasks


def shapes(n):
    '''Every (positional prefix length, keyword index set) over n attributes.'''
    for npos in range(n + 1):
        for mask in range(1 << n):
            yield npos, [i for i in range(n) if mask >> i & 1]


def run_schema(sub, task):
    fam, types, special = task
    if fam == 'names':
        return run_names(sub, task)
    names = sub.seed % len(NAME_PALETTES)
    k = len(types)
    drop = False
    if fam == 'plain4':
        styles = [(0,) * k, tuple((i + sub.seed) % 3 for i in range(k))]
        fam = 'plain'
        gens, routes = ['int', 'recuuid'], ROUTES[:1]
    elif fam == 'orphan':
        styles = [(0,) * k]
        fam = 'plain'
        drop = True
        gens, routes = ORPHAN_GENS, ORPHAN_ROUTES
    elif fam == 'plain':
        styles = style_sets(k, sub.tier)
        gens, routes = GEN_KINDS_A, ROUTES
    elif fam == 'ref':
        styles = [(0,) * k, tuple((i + 1) % 3 for i in range(k))] if k else [()]
        gens, routes = ['int', 'user'], ROUTES
    else:
        styles = [(0,) * k]
        gens, routes = ['int'], ROUTES
    for style in styles:
        spelled = [spell(t, s) for t, s in zip(types, style)]
        n = k + (0 if special is None else 1)
        unknowns = UNKNOWN_TYPES if fam == 'unknown' else [None]
        for unknown in unknowns:
            sub.count('schemas')
            for npos, kw in shapes(n):
                # (the attribute of unknown type is omitted from the call, given positionally, or given by keyword:
                #  creation must be rejected in every case)
                # (generators whose class overrides next(): first spelling only)
                more = NEXT_KINDS + ITER_KINDS if task[0] == 'plain' and style == styles[0] else []
                for gen in list(gens) + more:
                    for route in routes:
                        if gen in NEXT_ROUTES and route not in NEXT_ROUTES[gen]:
                            continue
                        case = dict(part='create', fam=fam, types=spelled, special=special, unknown=unknown,
                                    special_style=(k + len(kw)) % 3, npos=npos, kw=kw, gen=gen, route=route, names=names,
                                    nones=bool(gen in NONE_GENS and style == styles[0]))
                        if drop:
                            case['drop'] = True
                        run_creation(sub, case)
    gc.unfreeze()
    return None


def layout(case):
    '''[(name, declared type, TYPE or None, role)] for class K of a creation case.'''
    names = case['attr_names'] if case['fam'] == 'names' else NAME_PALETTES[case['names']]
    attrs = [(names[i], t, t.upper(), 'plain') for i, t in enumerate(case['types'])]
    if case['fam'] == 'ref':
        attrs.insert(case['special'], ('Ref', spell('UNIQUE_ID', case.get('special_style', 0)), 'UNIQUE_ID', 'ref'))
    elif case['fam'] == 'unknown':
        attrs.insert(case['special'], ('Odd', case['unknown'], None, 'odd'))
    return attrs


# An explicit None is a value like any other: it is applied (the attribute then reads None) and a keyword None overrides a
# positional value.  Instances 2 and 3 of a creation case (generators NONE_GENS): 2 = every positional value None, keywords
# non-None; 3 = positional values non-None, every keyword value None; with the first (lower-case) spelling of the type names only.  Each of them is then cloned (clone() hands every value,
# unset ones included, to the constructor positionally).


def instance_numbers(case):
    return (0, 1, 2, 3) if case.get('nones') and case['fam'] != 'unknown' else (0, 1)


def call_args(case, attrs, inst_no, ref_id):
    '''-> (args, kwargs, explicit {index: finally expected value})'''
    args, kwargs, explicit = [], {}, {}
    for i, (name, _, ty, role) in enumerate(attrs):
        if i < case['npos']:
            # (second instance: a null positional value for the referential attribute, overridden by a keyword if given)
            if inst_no == 2:
                v = None
            elif role == 'ref':
                v = ref_id if inst_no in (0, 3) else None
            else:
                v = POS[ty][inst_no % 2] if ty in POS else 'odd-value'
            args.append(v)
            explicit[i] = v
    for i in case['kw']:
        name, _, ty, role = attrs[i]
        if inst_no == 3:
            v = None
        else:
            v = ref_id if role == 'ref' else (KW[ty][inst_no % 2] if ty in KW else 'odd-value')
        kwargs[name] = v
        explicit[i] = v
    return args, kwargs, explicit


def create(m, mc, route, args, kwargs, prev=None):
    if route == 'm.new':
        return m.new('K', *args, **kwargs)
    if route == 'mc.new':
        return mc.new(*args, **kwargs)
    if route == 'inst.new':
        # a sibling of the instance created before (the first one: through the metaclass)
        import xtuml
        return (mc if prev is None else xtuml.get_metaclass(prev)).new(*args, **kwargs)
    return mc(*args, **kwargs)


def run_creation(sub, case):
    sub.count('creation_cases')
    ok, problems = limited(lambda: _creation(sub, case))
    if not ok:
        problems = [('hang', 'creation did not finish within %.0f s (three attempts)' % LIMIT_S, None, None)]
    for kind, msg, exp, obs in problems[:1]:
        sub.violation('c19:' + ('names:' if case['fam'] == 'names' else '') + kind, case, 'class K(%s), %s%s, generator %s, positional prefix %d, keywords %s: %s' %
                      (', '.join('%s %s' % (a[0], a[1]) for a in layout(case)), case['route'],
                       ' after the last reference to the metamodel was dropped' if case.get('drop') else '', case['gen'],
                       case['npos'], case['kw'], msg), exp, obs, unit_test=unit_test_creation(case))


def _creation(sub, case):
    import xtuml
    attrs = layout(case)
    if case.get('drop'):
        gc_mark()
    m, gen = make_metamodel(case['gen'])
    gref = GenRef(case['gen'], gen)
    problems = []
    ref_id = None
    decl = [(a[0], a[1]) for a in attrs]
    if case['fam'] == 'unknown':
        try:
            mc = m.define_class('K', decl)
        except xtuml.MetaException:
            sub.count('unknown_rejected')
            sub.distinct('outcomes', ('unknown', 'rejected-at-definition'))
            return []
        args, kwargs, _ = call_args(case, attrs, 0, None)
        sub.count('news')
        try:
            create(m, mc, case['route'], args, kwargs)
        except xtuml.MetaException as e:
            sub.count('unknown_rejected')
            sub.distinct('outcomes', ('unknown', type(e).__name__))
        except Exception as e:
            return [('unknown-type:exception-class', 'an attribute of the unknown type %r is rejected with %s, which is not a '
                     'metamodel exception' % (case['unknown'], type(e).__name__), 'MetaException', type(e).__name__)]
        else:
            return [('unknown-type:accepted', 'an instance with an attribute of the unknown type %r was created without '
                     'complaint' % case['unknown'], 'MetaException', 'instance created')]
        try:
            v = mc.default_value(case['unknown'])
        except xtuml.MetaException:
            pass
        except Exception as e:
            return [('unknown-type:exception-class', 'default_value(%r) raised %s' % (case['unknown'], type(e).__name__),
                     'MetaException', type(e).__name__)]
        else:
            return [('unknown-type:accepted', 'default_value(%r) returned %r' % (case['unknown'], v), 'MetaException', repr(v))]
        return []
    if case['fam'] == 'ref':
        m.define_class('T', [('Id', 'unique_id')])
        mc = m.define_class('K', decl)
        m.define_association(1, 'K', ['Ref'], True, True, '', 'T', ['Id'], False, True, '').formalize()
        t = m.new('T')
        sub.count('news')
        problems += judge_instance(t, [('Id', 'UNIQUE_ID', 'plain')], {}, gref)
        ref_id = t.Id
    else:
        mc = m.define_class('K', decl)
    if case.get('drop'):
        # the program keeps the metaclass (and the generator object), not the metamodel
        m = None
        gc_drop()
        sub.count('orphan_cases')
    if case['gen'] in NEXT_KINDS:
        sub.count('next_override_cases')
    if case['gen'] in ITER_KINDS:
        sub.count('plain_iterator_cases')
    if case['fam'] == 'names':
        sub.count('name_cases')
        sub.distinct('pool_names', case.get('pool_name'))
    jattrs = [(a[0], a[2], a[3]) for a in attrs]
    inst = None
    for inst_no in instance_numbers(case):
        args, kwargs, explicit = call_args(case, attrs, inst_no, ref_id)
        sub.count('news')
        try:
            inst = create(m, mc, case['route'], args, kwargs, inst)
        except Exception as e:
            # every type of class K is known: a creation call has no reason to fail
            return problems + [('create:exception:%s' % type(e).__name__, 'creation call number %d raised %s: %s' %
                                (inst_no + 1, type(e).__name__, e), 'an instance', type(e).__name__)]
        got = judge_instance(inst, jattrs, explicit, gref)
        problems += got
        sub.count('instances_judged')
        if not got:
            sub.distinct('outcomes', tuple((ty, i in explicit, type(getattr(inst, nm)).__name__)
                                           for i, (nm, ty, _) in enumerate(jattrs)))
        if case['fam'] == 'names':
            sub.count('name_instances')
            sub.count('name_keyword_values', int(case['at'] in case['kw']))
            sub.count('name_positional_values', int(case['at'] < case['npos']))
            sub.count('name_defaulted_values', int(case['at'] >= case['npos'] and case['at'] not in case['kw']))
        if (inst_no >= 2 or case['fam'] == 'names') and not got:
            if inst_no >= 2:
                nones = sum(1 for v in explicit.values() if v is None)
                sub.count('none_values', nones)
                sub.count('keyword_none_over_positional', sum(1 for i in case['kw'] if i < case['npos']) if inst_no == 3 else 0)
            # clone: every value of the original, unset ones included, arrives positionally
            values = dict((i, getattr(inst, nm)) for i, (nm, _, role) in enumerate(jattrs))
            sub.count('news')
            sub.count('clones')
            try:
                twin = (m if case['route'] == 'm.new' else mc).clone(inst)
            except Exception as e:
                return problems + [('clone:exception:%s' % type(e).__name__, 'the clone of the instance created by call number '
                                    '%d raised %s: %s' % (inst_no + 1, type(e).__name__, e), 'an instance', type(e).__name__)]
            if case['fam'] == 'names':
                sub.count('name_clones')
            if case.get('drop'):
                sub.count('orphan_clones')
            got = judge_instance(twin, jattrs, values, gref)
            problems += [('clone:' + k.split(':', 1)[1], 'clone of the instance created by call number %d: %s' % (inst_no + 1, msg), e, o)
                         for k, msg, e, o in got]
            sub.count('instances_judged')
    both = [i for i in case['kw'] if i < case['npos']]
    if both:
        sub.count('both_positional_and_keyword')
    if any(a[2] == 'UNIQUE_ID' and a[3] == 'plain' and i >= case['npos'] and i not in case['kw']
           for i, a in enumerate(attrs)):
        sub.count('cases_with_defaulted_id')
    if case['npos'] and case['kw'] and len(case['kw']) + case['npos'] < len(attrs) + len(both):
        sub.count('nontrivial_creation')       # positional, keyword and omitted arguments in one call
    return problems


GEN_SRC = {'int': 'xtuml.IntegerGenerator()', 'uuid': 'xtuml.UUIDGenerator()', 'default': '',
           'user': 'Tens()   # class Tens(xtuml.IdGenerator): _n = 0; readfunc: self._n += 10; return self._n',
           'recuuid': 'RecUUID()   # UUIDGenerator subclass recording the values of readfunc',
           'nonnull': 'NonNull()   # IdGenerator subclass: readfunc counts 0, 1, 2, ...; next() (overridden) steps over the null '
                      'id; peek() shows the value next() will hand out (see user_classes in mc/props/c19.py)',
           'count': 'itertools.count(100)   # (import itertools) a plain iterator as the generator: ids 100, 101, ...',
           'audited': 'Audited()   # UUIDGenerator subclass whose next() (overridden) appends the value it hands out to '
                      'self.issued; every defaulted id must be in g.issued'}


def unit_test_creation(case):
    attrs = layout(case)
    gen = GEN_SRC[case['gen']]
    lines = ['import gc', 'import xtuml', 'm = xtuml.MetaModel(%s)' % gen]
    if case['fam'] == 'ref':
        lines += ["m.define_class('T', [('Id', 'unique_id')])"]
    lines += ["mc = m.define_class('K', %r)" % ([(a[0], a[1]) for a in attrs],)]
    if case['fam'] == 'ref':
        lines += ["m.define_association(1, 'K', ['Ref'], True, True, '', 'T', ['Id'], False, True, '').formalize()",
                  "t = m.new('T')   # ref_id = t.Id"]
    if case.get('drop'):
        lines += ['del m; gc.collect()   # only the metaclass (and later the instances) are kept']
    for inst_no in instance_numbers(case):
        args, kwargs, _ = call_args(case, attrs, inst_no, 'ref_id' if case['fam'] == 'ref' else None)
        a = ', '.join([repr(x) for x in args] + ['%s=%r' % kv for kv in kwargs.items()]).replace("'ref_id'", 't.Id')
        call = {'m.new': "m.new('K'%s)" % (', ' + a if a else ''), 'mc.new': 'mc.new(%s)' % a, 'mc()': 'mc(%s)' % a,
                'inst.new': ('xtuml.get_metaclass(i%d).new(%s)' % (inst_no - 1, a)) if inst_no else 'mc.new(%s)' % a}[case['route']]
        lines.append('i%d = %s' % (inst_no, call))
        lines.append('print([(n, getattr(i%d, n)) for n in %r])' % (inst_no, [x[0] for x in attrs]))
        if inst_no >= 2 or case['fam'] == 'names':
            lines.append('c%d = %s.clone(i%d)' % (inst_no, 'm' if case['route'] == 'm.new' else 'mc', inst_no))
            lines.append('print([(n, getattr(c%d, n)) for n in %r])' % (inst_no, [x[0] for x in attrs]))
        if case['fam'] == 'unknown':
            break
    return '\n'.join(lines)


# ---------------------------------------------------------------------------
# family B: generator histories on one metamodel
# ---------------------------------------------------------------------------

B_CLASSES = [
    ('K0', [('S', 'string'), ('N', 'integer')]),
    ('K1', [('Id', 'unique_id'), ('R', 'real')]),
    ('K1b', [('Id', 'UNIQUE_ID')]),
    ('K2', [('Id', 'unique_id'), ('B', 'boolean'), ('Id2', 'Unique_Id')]),
]
# op -> (class, explicit {attribute index: how it is passed})
B_NEW = {
    'new K0': ('K0', {}), 'new K1': ('K1', {}), 'new K1b': ('K1b', {}), 'new K2': ('K2', {}),
    'new K1 Id=x': ('K1', {0: 'kw'}),
    'new K2 x': ('K2', {0: 'pos'}),
    'new K2 Id2=x': ('K2', {2: 'kw'}),
    'new K2 x Id2=y': ('K2', {0: 'pos', 2: 'kw'}),
}


class BWorld(object):
    pass


# menu 'iter': ids are also obtained through the iteration protocols -- it = iter(g) / next(it), for v in g: ... break,
# itertools.islice(g, n), zip(range(n), g) -- interleaved with peek / next / next(g) / creations.  Reference: iter(g) hands
# nothing out; every value obtained through any of these forms is handed out (consumed) exactly once, in sequence.
ITER_NEW = ['new K1', 'new K2', 'new K2 x Id2=y']
ITER_TAKE = ['for', 'islice', 'zip']
ITER_MAX_TAKE = 2
ITER_MAX_ITERATORS = 2


# menu 'reseed': the program re-seeds python's global random module (random.seed(RESEED_VALUE), as simulations and
# reproducible test harnesses do) between peeks / nexts / creations.  Reference: the operation is no concern of any
# generator -- what was handed out stays handed out, nothing is ever handed out twice.
RESEED_NEW = ['new K1', 'new K2']


def take(gen, how, n):
    '''n values of *gen* through an iteration protocol.'''
    if how == 'for':
        got = []
        for v in gen:
            got.append(v)
            if len(got) >= n:
                break
        return got
    if how == 'islice':
        return list(itertools.islice(gen, n))
    if how == 'zip':
        return [v for _, v in zip(range(n), gen)]
    raise ValueError(how)


class GenModel(explorer.Model):
    limit_s = 10.0

    def __init__(self, kind, cap, menu='plain'):
        self.kind = kind
        self.cap = cap
        self.menu = menu

    def case(self, hist, op):
        return dict(part='history', gen=self.kind, cap=self.cap, menu=self.menu, hist=hist, op=op)

    def build(self, hist):
        w = BWorld()
        if self.menu == 'drop':
            gc_mark()
        w.m, w.gen = make_metamodel(self.kind)
        w.mcs = dict((k, w.m.define_class(k, list(a))) for k, a in B_CLASSES)
        w.ref = GenRef(self.kind, w.gen)
        w.made = dict((k, 0) for k, _ in B_CLASSES)
        w.explicit = 0
        w.last = None
        w.peeks = 0
        w.it = None                # the live iterator obtained with iter(g) (menu 'iter')
        w.it_taken = w.iters = 0
        w.reseeds = []             # number of values handed out when random was re-seeded (menu 'reseed')
        w.dropped = False          # the reference to the MetaModel object was dropped (menu 'drop')
        w.inst = {}                # menu 'drop': the last instance of each class
        for op in hist:
            self.step(w, op)
        return w

    def enabled(self, w):
        ops = [['peek']]
        hi = w.ref.pos + getattr(w.ref, 'slack', 0)     # upper bound of values drawn so far
        if self.menu == 'reseed':
            if hi + 1 <= self.cap:
                ops.append(['next'])
            if len(w.reseeds) < RESEED_MAX:
                ops.append(['reseed', RESEED_VALUE])
            for name in RESEED_NEW:
                cls = B_NEW[name][0]
                if hi + sum(1 for _, t in dict(B_CLASSES)[cls] if t.upper() == 'UNIQUE_ID') <= self.cap:
                    ops.append([name])
            return ops
        if self.menu == 'drop':
            if hi + 1 <= self.cap:
                ops.append(['next'] if w.dropped else ['pynext'])
            if not w.dropped:
                ops.append(['drop'])
            for name in DROP_NEW:
                cls = B_NEW[name][0]
                if hi + sum(1 for _, t in dict(B_CLASSES)[cls] if t.upper() == 'UNIQUE_ID') <= self.cap:
                    ops.append([name])
            return ops
        if hi + 1 <= self.cap:
            ops += [['next'], ['pynext']]
        if self.menu == 'iter':
            if w.iters < ITER_MAX_ITERATORS and (w.it is None or w.it_taken):
                ops.append(['iter'])
            if w.it is not None and hi + 1 <= self.cap:
                ops.append(['itnext'])
            for n in range(1, ITER_MAX_TAKE + 1):
                if hi + n <= self.cap:
                    ops += [[how, n] for how in ITER_TAKE]
        for name, (cls, explicit) in B_NEW.items():
            if self.menu == 'iter' and name not in ITER_NEW:
                continue
            n_ids = sum(1 for _, t in dict(B_CLASSES)[cls] if t.upper() == 'UNIQUE_ID')
            if n_ids == 0:
                if w.made[cls] < 2:
                    ops.append([name])
            elif hi + n_ids <= self.cap:
                ops.append([name])
        return ops

    def step(self, w, op):
        '''Run op on the real generator / metamodel, judge it against the reference; -> problems.'''
        name = op[0]
        w.last = name
        if name == 'peek':
            w.peeks += 1
            return [(k, m, e, None) for k, m, e in w.ref.peek(w.gen.peek())]
        if name == 'next':
            v = w.gen.next()
            return [(k, m, e, v) for k, m, e in w.ref.next(v)]
        if name == 'pynext':
            v = next(w.gen)
            return [(k, m, e, v) for k, m, e in w.ref.next(v)]
        if name == 'reseed':
            import random
            random.seed(op[1])
            w.reseeds.append(w.ref.pos + getattr(w.ref, 'slack', 0))
            return []
        if name == 'drop':
            # the program keeps the generator object, the metaclasses and its instances, not the metamodel
            w.m = None
            gc_drop()
            w.dropped = True
            return []
        if name == 'iter':
            w.it = iter(w.gen)
            w.it_taken = 0
            w.iters += 1
            return []
        if name == 'itnext':
            v = next(w.it)
            w.it_taken += 1
            return [('iteration:' + k.split(':', 1)[1], 'next(it), it = iter(g): ' + m, e, v) for k, m, e in w.ref.next(v)]
        if name in ITER_TAKE:
            w.last = '%s%d' % (name, op[1])
            got = take(w.gen, name, op[1])
            out = []
            if len(got) != op[1]:
                out.append(('iteration:length', '%d values were asked for through %s, %d arrived' % (op[1], name, len(got)),
                            op[1], got))
            for v in got:
                out += [('iteration:' + k.split(':', 1)[1], '%s handed out %r: %s' % (name, got, m), e, got)
                        for k, m, e in w.ref.next(v)]
            return out
        cls, how = B_NEW[name]
        decl = dict(B_CLASSES)[cls]
        args, kwargs, explicit = [], {}, {}
        for i in sorted(how):
            w.explicit += 1
            v = 500000 + w.explicit
            explicit[i] = v
            if how[i] == 'pos':
                args.append(v)
            else:
                kwargs[decl[i][0]] = v
        if w.dropped:
            import xtuml
            prev = w.inst.get(cls)
            inst = (w.mcs[cls] if prev is None else xtuml.get_metaclass(prev)).new(*args, **kwargs)
        else:
            inst = w.m.new(cls, *args, **kwargs)
        if self.menu == 'drop':
            w.inst[cls] = inst
        w.made[cls] += 1
        return judge_instance(inst, [(n, t.upper(), 'plain') for n, t in decl], explicit, w.ref)

    def apply(self, ctx, w, op, hist):
        ctx.count('traces')
        problems = self.step(w, op)
        ctx.distinct('outcomes', ('history', self.kind, op[0], bool(w.ref.pending is not None)))
        if op[0] in ('next', 'pynext', 'peek'):
            ctx.count('generator_calls')
        elif op[0] in ('iter', 'itnext') or op[0] in ITER_TAKE:
            ctx.count('generator_calls')
            ctx.count('iteration_steps')
        elif op[0] == 'reseed':
            ctx.count('reseeds')
        elif op[0] == 'drop':
            ctx.count('drops')
        else:
            ctx.count('news')
            if w.dropped:
                ctx.count('creations_after_drop')
                if w.made[B_NEW[op[0]][0]] > 1:
                    ctx.count('sibling_creations_after_drop')
            if self.kind in NEXT_KINDS:
                ctx.count('next_override_history_creations')
            if w.reseeds:
                ctx.count('creations_after_reseed')
            if self.menu == 'iter' and (w.it_taken or any(h[0] in ITER_TAKE for h in hist)):
                ctx.count('creations_after_iteration')
        if op[0] != 'peek' and w.peeks:
            ctx.count('consumption_after_peek')
        for kind, msg, exp, obs in problems[:1]:
            ctx.violation('c19:' + kind, self.case(hist, op), 'generator %s, history %s, then %s: %s' %
                          (self.kind, [' '.join(str(x) for x in o) for o in hist], ' '.join(str(x) for x in op), msg), exp, obs,
                          unit_test=unit_test_history(self, hist, op))
        return not problems

    def probes(self, ctx, w, hist):
        pass

    def canon(self, w):
        mask = tuple(min(w.made[k], 2) if k == 'K0' else bool(w.made[k]) for k, _ in B_CLASSES)
        proxy = getattr(w.gen, '_current', None) if self.kind in ('int', 'user') else None
        if self.menu == 'reseed':
            return (w.ref.pos, getattr(w.ref, 'slack', 0), w.ref.pending is not None, w.last, tuple(w.reseeds), proxy)
        if self.menu == 'drop':
            return (w.ref.pos, getattr(w.ref, 'slack', 0), w.ref.pending is not None, mask, w.last, w.dropped, proxy)
        if self.menu == 'iter':
            itstate = 0 if w.it is None else 2 if w.it_taken else 1
            return (w.ref.pos, getattr(w.ref, 'slack', 0), w.ref.pending is not None, itstate, w.iters, w.last,
                    bool(w.explicit), proxy)
        return (w.ref.pos, getattr(w.ref, 'slack', 0), w.ref.pending is not None, mask, w.last, bool(w.explicit), proxy)


MENU_LABEL = {'plain': '', 'iter': 'iter-', 'reseed': 'reseed-', 'drop': 'drop-'}


def run_history(sub, task):
    kind, cap, menu = task
    res = explorer.bfs(sub, GenModel(kind, cap, menu), chunk=1 << 30, label='history-%s%s' % (MENU_LABEL[menu], kind))
    gc.unfreeze()
    deepest = max(res['seen'].values(), key=len)
    return dict(generator=kind, cap=cap, menu=menu, states=res['states'], depth=res['depth'], closed=res['closed'],
                deepest_history=[''.join(str(x) for x in o) for o in deepest])


def unit_test_history(model, hist, op):
    gen = GEN_SRC[model.kind]
    lines = ['import gc', 'import itertools', 'import xtuml', 'm = xtuml.MetaModel(%s); g = m.id_generator' % gen, 'mcs = {}; last = {}']
    for k, a in B_CLASSES:
        lines.append('mcs[%r] = m.define_class(%r, %r)' % (k, k, a))
    dropped = [False]
    n = [0]

    def stmt(o):
        if o[0] == 'peek':
            return 'print(g.peek())'
        if o[0] == 'next':
            return 'print(g.next())'
        if o[0] == 'pynext':
            return 'print(next(g))'
        if o[0] == 'reseed':
            return 'import random; random.seed(%d)' % o[1]
        if o[0] == 'drop':
            dropped[0] = True
            return 'del m; gc.collect()   # the program keeps g, the metaclasses and the last instance of each class'
        if o[0] == 'iter':
            return 'it = iter(g)'
        if o[0] == 'itnext':
            return 'print(next(it))'
        if o[0] == 'for':
            return 'got = []\nfor v in g:\n    got.append(v)\n    if len(got) >= %d:\n        break\nprint(got)' % o[1]
        if o[0] == 'islice':
            return 'print(list(itertools.islice(g, %d)))' % o[1]
        if o[0] == 'zip':
            return 'print([v for _, v in zip(range(%d), g)])' % o[1]
        cls, how = B_NEW[o[0]]
        decl = dict(B_CLASSES)[cls]
        parts = []
        for i in sorted(how):
            n[0] += 1
            parts.append(repr(500000 + n[0]) if how[i] == 'pos' else '%s=%r' % (decl[i][0], 500000 + n[0]))
        if dropped[0]:
            return ('i = (xtuml.get_metaclass(last[%r]) if %r in last else mcs[%r]).new(%s); last[%r] = i; '
                    'print([(n, getattr(i, n)) for n in %r])' % (cls, cls, cls, ', '.join(parts), cls, [x[0] for x in decl]))
        return 'i = m.new(%s); last[%r] = i; print([(n, getattr(i, n)) for n in %r])' % (', '.join([repr(cls)] + parts), cls,
                                                                                        [x[0] for x in decl])
    for o in hist:
        lines.append(stmt(o))
    lines.append(stmt(op) + '   # <- failing step')
    return '\n'.join(lines)


# ---------------------------------------------------------------------------
# family C: two live generators
# ---------------------------------------------------------------------------

# iterN: next(itN) where itN = iter(gN) is obtained at the first use and kept
C_OPS = ['peek0', 'next0', 'peek1', 'next1', 'iter0', 'iter1']
C_PAIRS = [('int', 'int'), ('int', 'user'), ('recuuid', 'uuid'), ('zerobased', 'int')]


def run_two_generators(sub, task):
    pair, prefix, depth = task
    for tail in itertools.product(range(len(C_OPS)), repeat=depth - len(prefix)):
        run_two(sub, dict(part='two-generators', pair=list(pair), ops=list(prefix) + list(tail)))
    return None


def run_two(sub, case):
    sub.count('two_generator_sequences')
    ok, problem = limited(lambda: _two(sub, case))
    if not ok:
        problem = ('hang', 'did not finish within %.0f s (three attempts)' % LIMIT_S, None, None)
    if problem:
        kind, msg, exp, obs = problem
        sub.violation('c19:two-generators:' + kind, case, 'generators %s, calls %s: %s' %
                      (case['pair'], [C_OPS[o] for o in case['ops']], msg), exp, obs,
                      unit_test='# g0, g1 = two fresh generators of kinds %r; calls in order: %r' %
                                (case['pair'], [C_OPS[o] for o in case['ops']]))


def _two(sub, case):
    gens = [make_metamodel(k)[1] for k in case['pair']]
    refs = [GenRef(k, g) for k, g in zip(case['pair'], gens)]
    its = [None, None]
    for step, o in enumerate(case['ops']):
        name = C_OPS[o]
        which, is_next = int(name[-1]), name.startswith('next')
        sub.count('generator_calls')
        if name.startswith('iter'):
            if its[which] is None:
                its[which] = iter(gens[which])
            v = next(its[which])
            sub.count('iteration_steps')
            problems = [('iteration:' + k.split(':', 1)[1], m, e) for k, m, e in refs[which].next(v)]
        elif is_next:
            v = gens[which].next() if step % 2 else next(gens[which])
            problems = refs[which].next(v)
        else:
            v = gens[which].peek()
            problems = refs[which].peek(v)
        if problems:
            k, msg, exp = problems[0]
            return (k, 'call number %d (%s): %s' % (step + 1, C_OPS[o], msg), exp, v)
    return None



# ---------------------------------------------------------------------------
# family D: creations interleaved with edits of the class and replacement of the metamodel's generator
# ---------------------------------------------------------------------------

D_BASE = [('Id', 'unique_id'), ('S', 'string')]
D_EDITS = [['append', 'N', 'integer'], ['append', 'U', 'bogus'], ['append', 'Id2', 'UNIQUE_ID'],
           ['insert', 0, 'B', 'boolean'], ['insert', 1, 'R', 'Real'], ['insert', 0, 'V', 'void'],
           ['delete', 'S'], ['delete', 'Id'], ['delete', 'U'], ['delete', 'V'], ['delete', 'B']]
D_SWAPS = ['user', 'int']          # the replacement generator (a fresh one)
D_MAX_EDITS, D_MAX_SWAPS = 3, 2


class DModel(explorer.Model):
    limit_s = 10.0

    def __init__(self, kind, max_news):
        self.kind = kind
        self.max_news = max_news

    def case(self, hist, op):
        return dict(part='live-edit', gen=self.kind, max_news=self.max_news, hist=hist, op=op)

    def build(self, hist):
        w = BWorld()
        w.m, w.gen = make_metamodel(self.kind)
        w.mc = w.m.define_class('K', list(D_BASE))
        w.other = w.m.define_class('Other', [('Id', 'unique_id')])
        w.attrs = list(D_BASE)
        w.ref = GenRef(self.kind, w.gen)
        w.old = []                 # replaced generators with the value their peek showed at replacement
        w.news = w.edits = w.swaps = 0
        w.explicit = 0
        for op in hist:
            self.step(w, op)
        return w

    def enabled(self, w):
        ops = []
        if w.news < self.max_news:
            ops += [['new', 'K', 'none'], ['new', 'K', 'pos'], ['new', 'K', 'kw'], ['new', 'Other', 'none']]
        if w.edits < D_MAX_EDITS:
            names = [n for n, _ in w.attrs]
            for e in D_EDITS:
                if e[0] == 'delete' and e[1] not in names:
                    continue
                if e[0] != 'delete' and e[-2] in names:
                    continue
                ops.append(list(e))
        if w.swaps < D_MAX_SWAPS:
            for k in D_SWAPS:
                ops.append(['swap', k])
        return ops

    def step(self, w, op):
        import xtuml
        name = op[0]
        if name == 'append':
            w.edits += 1
            w.mc.append_attribute(op[1], op[2])
            w.attrs.append((op[1], op[2]))
            return []
        if name == 'insert':
            w.edits += 1
            w.mc.insert_attribute(op[1], op[2], op[3])
            w.attrs.insert(op[1], (op[2], op[3]))
            return []
        if name == 'delete':
            w.edits += 1
            w.mc.delete_attribute(op[1])
            w.attrs = [a for a in w.attrs if a[0] != op[1]]
            return []
        if name == 'swap':
            w.swaps += 1
            old, oldref = w.gen, w.ref
            w.old.append((old, old.peek()))
            new = make_metamodel(op[1])[1]
            w.m.id_generator = new
            w.gen = new
            w.ref = GenRef(op[1], new)
            # values of different generators may coincide by design (1, 2, 3 again): no-repetition is judged per generator
            return []
        # creation
        _, cls, how = op
        w.news += 1
        attrs = w.attrs if cls == 'K' else [('Id', 'unique_id')]
        unknown = [t for _, t in attrs if t.upper() not in TYPES]
        args, kwargs, explicit = [], {}, {}
        if how == 'pos' and attrs:
            ty = attrs[0][1].upper()
            if ty in POS:
                w.explicit += 1
                v = POS[ty][0] if ty != 'UNIQUE_ID' else 700000 + w.explicit
                args.append(v)
                explicit[0] = v
        if how == 'kw' and attrs:
            i = len(attrs) - 1
            ty = attrs[i][1].upper()
            if ty in KW:
                w.explicit += 1
                v = KW[ty][0] if ty != 'UNIQUE_ID' else 800000 + w.explicit
                kwargs[attrs[i][0]] = v
                explicit[i] = v
        try:
            inst = w.m.new(cls, *args, **kwargs)
        except xtuml.MetaException as e:
            if unknown:
                # which generator values a rejected creation drew is left open
                n_ids = sum(1 for _, t in attrs if t.upper() == 'UNIQUE_ID')
                w.ref.slack = getattr(w.ref, 'slack', 0) + n_ids
                w.ref.pending = None
                return []
            return [('live-edit:rejected', 'creation raised %s: %s; the attributes are %r' % (type(e).__name__, e, attrs), None,
                     type(e).__name__)]
        if unknown:
            return [('live-edit:unknown-type-accepted', 'creation succeeded although the class has the attribute types %r' %
                     (unknown,), 'a metamodel exception', 'an instance')]
        out = judge_instance(inst, [(n, t.upper(), 'plain') for n, t in attrs], explicit, w.ref)
        # a replaced generator is no longer the metamodel's: creations must not draw from it
        for g, shown in w.old:
            if g is not w.gen and g.peek() != shown:
                out.append(('live-edit:drew-from-replaced-generator', 'the generator replaced earlier advanced from %r to %r' %
                            (shown, g.peek()), shown, g.peek()))
        return [('live-edit:' + k.replace('new:', ''), m, e, o) for k, m, e, o in out]

    def apply(self, ctx, w, op, hist):
        ctx.count('traces')
        ctx.count('live_edit_steps')
        problems = self.step(w, op)
        if op[0] == 'new':
            ctx.count('news')
            if w.edits or w.swaps:
                ctx.count('creations_after_live_edit')
            ctx.distinct('outcomes', ('live', self.kind, tuple(t.upper() for _, t in w.attrs), op[2], bool(w.swaps), bool(problems)))
        for kind, msg, exp, obs in problems[:1]:
            ctx.violation('c19:' + kind, self.case(hist, op), 'generator %s, history %s, then %s: %s' %
                          (self.kind, hist, op, msg), exp, obs, unit_test=unit_test_live(self, hist, op))
        return not problems

    def probes(self, ctx, w, hist):
        pass

    def canon(self, w):
        return (tuple(w.attrs), w.news, w.edits, w.swaps, w.ref.kind, w.ref.pos, getattr(w.ref, 'slack', 0),
                tuple(type(g).__name__ for g, _ in w.old))


def unit_test_live(model, hist, op):
    lines = ['import xtuml', '# metamodel with generator %r, class K %r and class Other (Id); steps:' % (model.kind, D_BASE)]
    for o in hist:
        lines.append('#   %r' % (o,))
    lines.append('#   %r   <- failing step' % (op,))
    lines.append("# append/insert/delete = K's append_attribute/insert_attribute/delete_attribute; swap = m.id_generator = <fresh generator>")
    lines.append("# new K pos/kw = m.new('K', <value for the first attribute>) / m.new('K', <last attribute>=<value>)")
    return '\n'.join(lines)


def run_live(sub, task):
    kind, max_news = task
    res = explorer.bfs(sub, DModel(kind, max_news), chunk=1 << 30, label='live-' + kind)
    return dict(generator=kind, live_edit=True, states=res['states'], depth=res['depth'], closed=res['closed'])

# ---------------------------------------------------------------------------
# framework entry points
# ---------------------------------------------------------------------------

def selftest():
    class G(object):
        log = [11, 12, 13]
    r = GenRef('int', None)
    assert r.peek(1) == [] and r.peek(1) == [] and r.next(1) == [] and r.next(2) == [] and r.pos == 2
    assert r.peek(4)[0][0] == 'peek:value' and r.next(2)[0][0] == 'next:differs-from-peek'
    r = GenRef('int', None)
    assert r.next(2)[0][0] == 'next:value'
    r = GenRef('int', None)
    assert r.consumed_by_new(2, [2]) == [] and r.pos == 2 and r.consumed_by_new(1, [2])[0][0] == 'new:repeated-id'
    assert r.consumed_by_new(1, [0])[0][0] == 'new:null-id' and r.consumed_by_new(1, [9])[0][0] == 'new:id-not-from-generator'
    r = GenRef('uuid', None)
    assert r.peek(5) == [] and r.peek(6)[0][0] == 'peek:advanced'
    r = GenRef('uuid', None)
    assert r.peek(5) == [] and r.consumed_by_new(1, [7])[0][0] == 'new:id-differs-from-peek'
    r = GenRef('recuuid', G())
    assert r.next(11) == [] and r.consumed_by_new(2, [13, 12]) == [] and r.next(14)[0][0] == 'next:value'

    class I(object):
        a, b, c, d = False, 0, 0.0, ''
    at = [('a', 'BOOLEAN', 'plain'), ('b', 'INTEGER', 'plain'), ('c', 'REAL', 'plain'), ('d', 'STRING', 'plain')]
    assert judge_instance(I(), at, {}, GenRef('int', None)) == []
    I.c = 0
    assert judge_instance(I(), at, {}, GenRef('int', None))[0][0] == 'new:default:real'
    I.c, I.b = 0.0, False
    assert judge_instance(I(), at, {}, GenRef('int', None))[0][0] == 'new:default:integer'
    assert spell('UNIQUE_ID', 2) == 'Unique_Id' and len(list(shapes(3))) == 32


def run(ctx):
    selftest()
    # -- A: creation calls
    ctx.sample(dict(part='create', example=unit_test_creation(
        dict(part='create', fam='ref', types=['integer', 'Unique_Id'], special=1, unknown=None, special_style=0, npos=2,
             kw=[2], gen='int', route='m.new', names=ctx.seed % len(NAME_PALETTES)))))
    tasks = schema_tasks(ctx.tier)
    pool = [t[1] for t in tasks if t[0] == 'names']
    ctx.notes['name_pool'] = pool
    tasks = explorer.rotate(tasks, ctx.seed)
    ctx.pmap(run_schema, tasks, chunk=max(1, len(tasks) // 256))
    print('  creation: schemas=%d cases=%d instances=%d (names family: pool=%d cases=%d) t=%.0fs' %
          (ctx.n('schemas'), ctx.n('creation_cases'), ctx.n('instances_judged'), len(pool), ctx.n('name_cases'),
           ctx.elapsed()), flush=True)
    # -- B: generator histories, search to closure under the counter cap
    cap = 6 if ctx.quick else 9
    total = 0
    # (one search per worker, each run in-process: the searches are small and independent)
    # (plus: generators whose class overrides next(), menus plain and iter; histories that drop the reference to the metamodel;
    #  the large searches first)
    cap_new = cap if ctx.quick else cap - 2          # counter cap of the searches added in round 6 (thorough: 7 instead of 9)
    htasks = [(kind, cap_new if kind in NEXT_KINDS else cap, menu) for menu in ('plain', 'iter', 'reseed')
              for kind in explorer.rotate(GEN_KINDS_B, ctx.seed) + (NEXT_KINDS if menu != 'reseed' else [])]
    htasks += [(kind, cap_new, 'drop') for kind in DROP_KINDS]
    for res in ctx.pmap(run_history, htasks, chunk=1):
        total += res['states']
        label = 'history-%s%s' % (MENU_LABEL[res['menu']], res['generator'])
        ctx.notes[label] = dict(states=res['states'], depth=res['depth'], closed=res['closed'])
        ctx.sample(res)
        print('  %-20s states=%d depth=%d closed=%s t=%.0fs' % (label, res['states'], res['depth'],
                                                                 res['closed'], ctx.elapsed()), flush=True)
    # -- C: two live generators
    depth = 6 if ctx.quick else 8
    ctasks = []
    for pair in C_PAIRS:
        for d in range(1, depth + 1):
            plen = min(d, 2)
            for prefix in itertools.product(range(len(C_OPS)), repeat=plen):
                ctasks.append((pair, prefix, d))
    ctx.pmap(run_two_generators, ctasks, chunk=4)
    # -- D: creations interleaved with live edits of the class and replacement of the generator
    for res in ctx.pmap(run_live, [(kind, 3 if ctx.quick else 4) for kind in ('int', 'user', 'recuuid')], chunk=1):
        ctx.notes['live-' + res['generator']] = dict(states=res['states'], depth=res['depth'], closed=res['closed'])
        print('  live-edit %-8s states=%d depth=%d closed=%s t=%.0fs' % (res['generator'], res['states'], res['depth'],
                                                                         res['closed'], ctx.elapsed()), flush=True)
    ctx.require(ctx.n('creations_after_live_edit') >= 1000, 'too few creations after a live edit (%d)' % ctx.n('creations_after_live_edit'))
    # vacuity guards
    ctx.require(len(pool) >= 100 and 'self' in pool and ctx.nd('pool_names') == len(pool),
                'family names: the pool computed from the tree under test holds %d names, %d of them were explored' %
                (len(pool), ctx.nd('pool_names')))
    ctx.require(ctx.n('name_cases') >= 600 * len(pool) and
                min(ctx.n('name_keyword_values'), ctx.n('name_positional_values'), ctx.n('name_defaulted_values')) >= 200 * len(pool)
                and ctx.n('name_clones') >= 1000 * len(pool),
                'family names: too few creation cases (%d; %d keyword, %d positional, %d defaulted values for the named attribute; '
                '%d clones)' % (ctx.n('name_cases'), ctx.n('name_keyword_values'), ctx.n('name_positional_values'),
                                ctx.n('name_defaulted_values'), ctx.n('name_clones')))
    ctx.require(ctx.n('creation_cases') >= (100000 if ctx.quick else 500000),
                'too few creation cases (%d)' % ctx.n('creation_cases'))
    ctx.require(ctx.n('both_positional_and_keyword') >= 10000, 'too few calls giving an attribute positionally and by keyword')
    ctx.require(ctx.n('cases_with_defaulted_id') >= 10000, 'too few calls with a defaulted unique id')
    ctx.require(ctx.n('nontrivial_creation') >= 10000, 'too few calls mixing positional, keyword and omitted arguments')
    ctx.require(ctx.n('unknown_rejected') >= 500, 'too few rejected unknown types (%d)' % ctx.n('unknown_rejected'))
    ctx.require(total >= 5 * 100, 'too few generator-history states (%d)' % total)
    ctx.require(ctx.n('consumption_after_peek') >= 1000, 'too few consuming operations after a peek')
    ctx.require(ctx.n('two_generator_sequences') >= len(C_PAIRS) * len(C_OPS) ** depth, 'two-generator family incomplete')
    ctx.require(ctx.n('iteration_steps') >= 10000, 'too few values obtained through iteration (%d)' % ctx.n('iteration_steps'))
    ctx.require(ctx.n('creations_after_iteration') >= 1000, 'too few creations after an iteration (%d)' %
                ctx.n('creations_after_iteration'))
    ctx.require(ctx.nd('outcomes') >= 100, 'too few distinct outcomes (%d)' % ctx.nd('outcomes'))
    ctx.require(ctx.n("reseeds") >= 500 and ctx.n('creations_after_reseed') >= 1000,
                'too few histories that re-seed the random module (%d re-seeds, %d creations after one)' %
                (ctx.n('reseeds'), ctx.n('creations_after_reseed')))
    ctx.require(ctx.n('plain_iterator_cases') >= 1000, 'too few creations on a metamodel whose generator is a plain iterator (%d)'
                % ctx.n('plain_iterator_cases'))
    ctx.require(ctx.n('next_override_cases') >= 10000 and ctx.n('next_override_history_creations') >= 1000,
                'too few creations with a generator whose class overrides next() (%d creation cases, %d in histories)' %
                (ctx.n('next_override_cases'), ctx.n('next_override_history_creations')))
    ctx.require(ctx.n('orphan_cases') >= 1000 and ctx.n('creations_after_drop') >= 500 and
                ctx.n('sibling_creations_after_drop') >= 100,
                'too few creations after the metamodel reference was dropped (%d creation cases, %d / %d in histories)' %
                (ctx.n('orphan_cases'), ctx.n('creations_after_drop'), ctx.n('sibling_creations_after_drop')))
    ctx.require(ctx.n('none_values') >= 10000 and ctx.n('keyword_none_over_positional') >= 5000 and ctx.n('clones') >= 10000,
                'too few explicit None values (%d; %d keyword None over a positional value; %d clones)' %
                (ctx.n('none_values'), ctx.n('keyword_none_over_positional'), ctx.n('clones')))


def replay(ctx, case):
    part = case.get('part')
    if part == 'create':
        run_creation(ctx, case)
    elif part == 'history':
        explorer.replay_case(ctx, GenModel(case['gen'], case['cap'], case.get('menu', 'plain')), case['hist'], case.get('op'))
    elif part == 'two-generators':
        run_two(ctx, case)
    elif part == 'live-edit':
        explorer.replay_case(ctx, DModel(case['gen'], case['max_news']), case['hist'], case.get('op'))
    else:
        raise core.HarnessError('C19: unknown replay case %r' % (case,))


def coverage(ctx):
    closed = all(v.get('closed') for v in ctx.notes.values() if isinstance(v, dict))
    return dict(
        states=ctx.n('states') + ctx.n('creation_cases') + ctx.n('two_generator_sequences'),
        transitions=ctx.n('transitions') + ctx.n('news') + ctx.n('generator_calls'),
        traces_validated_against_impl=ctx.n('traces') + ctx.n('instances_judged') + ctx.n('unknown_rejected') +
        ctx.n('two_generator_sequences'),
        evaluations=ctx.n('creation_cases') + ctx.n('transitions') + ctx.n('two_generator_sequences'),
        distinct_nontrivial=ctx.n('nontrivial_creation') + ctx.n('consumption_after_peek'),
        distinct_outcomes=ctx.nd('outcomes'),
        rule='non-trivial = a creation call that mixes positional, keyword and omitted arguments (each a distinct (schema, '
             'spelling, split, generator, route) tuple by construction), or a history transition that hands out a value after '
             'at least one peek',
        creation=dict(schemas=ctx.n('schemas'), cases=ctx.n('creation_cases'), instances_judged=ctx.n('instances_judged'),
                      positional_and_keyword_for_one_attribute=ctx.n('both_positional_and_keyword'),
                      with_defaulted_id=ctx.n('cases_with_defaulted_id'), unknown_type_rejected=ctx.n('unknown_rejected')),
        histories=dict((k, v) for k, v in ctx.notes.items() if isinstance(v, dict)),
        names_family=dict(pool_size=len(ctx.notes.get('name_pool', [])), pool=ctx.notes.get('name_pool', []),
                          modules=NAME_MODULES[ctx.tier], fixed_names=NAME_FLOOR, excluded_by_rule='__x__',
                          case_forms='as found + one other' if ctx.quick else 'as found, upper, lower, capitalised, swapped',
                          schemas=ctx.n('name_schemas'), cases=ctx.n('name_cases'), instances=ctx.n('name_instances'),
                          clones=ctx.n('name_clones'), keyword_values_for_the_named_attribute=ctx.n('name_keyword_values'),
                          positional_values_for_the_named_attribute=ctx.n('name_positional_values'),
                          defaulted_named_attribute=ctx.n('name_defaulted_values'), generators=NAME_GENS[ctx.tier],
                          companion=NAME_COMPANION),
        history_states=ctx.n('states'),
        two_generator_sequences=ctx.n('two_generator_sequences'),
        iteration=dict(steps=ctx.n('iteration_steps'), creations_after_an_iteration=ctx.n('creations_after_iteration'),
                       forms=['it = iter(g); next(it)'] + ['%s (1..%d values)' % (h, ITER_MAX_TAKE) for h in
                                                           ('for v in g: ... break', 'itertools.islice(g, n)', 'zip(range(n), g)')],
                       iterators_per_history=ITER_MAX_ITERATORS, creations=ITER_NEW, two_generator_ops=C_OPS),
        explicit_none=dict(values=ctx.n('none_values'), keyword_none_over_positional_value=ctx.n('keyword_none_over_positional'),
                           clones=ctx.n('clones'), generators=NONE_GENS),
        reseed=dict(value=RESEED_VALUE, max_per_history=RESEED_MAX, reseeds=ctx.n('reseeds'),
                    creations_after_a_reseed=ctx.n('creations_after_reseed'), creations=RESEED_NEW),
        plain_iterator_generators=dict(kinds=ITER_KINDS, creation_cases=ctx.n('plain_iterator_cases'),
                                       what='itertools.count(100) handed to MetaModel(); defaulted ids must be 100, 101, ... in creation order'),
        next_overriding_generators=dict(kinds=NEXT_KINDS, creation_cases=ctx.n('next_override_cases'),
                                        creations_in_histories=ctx.n('next_override_history_creations'),
                                        history_menus=['plain', 'iter'], creation_routes_restricted=NEXT_ROUTES,
                                        counter_cap=6 if ctx.quick else 7),
        dropped_metamodel=dict(creation_cases=ctx.n('orphan_cases'), clones=ctx.n('orphan_clones'),
                               attribute_lists='length <= %d' % ORPHAN_K[ctx.tier], generators=ORPHAN_GENS, routes=ORPHAN_ROUTES,
                               history_generators=DROP_KINDS, history_creations=DROP_NEW, drops=ctx.n('drops'),
                               counter_cap=6 if ctx.quick else 7,
                               creations_after_drop=ctx.n('creations_after_drop'),
                               sibling_creations_after_drop=ctx.n('sibling_creations_after_drop')),
        live_edit=dict(steps=ctx.n('live_edit_steps'), creations_after_an_edit=ctx.n('creations_after_live_edit'),
                       edits=D_EDITS, max_edits=D_MAX_EDITS, replacement_generators=D_SWAPS, max_replacements=D_MAX_SWAPS),
        bounds=dict(attribute_lists='length <= 3 over 5 core types%s' % ('' if ctx.quick else ' (length 4 with two spellings, '
                                                                          'two generators, one route)'),
                    spellings='lower / UPPER / Capitalised' + (' (uniform and two rotations)' if ctx.quick else ' (every combination)'),
                    generators_creation=GEN_KINDS_A, generators_history=GEN_KINDS_B, routes=ROUTES,
                    counter_cap=6 if ctx.quick else 9, two_generator_depth=6 if ctx.quick else 8,
                    unknown_types=UNKNOWN_TYPES, names=NAME_PALETTES[ctx.seed % len(NAME_PALETTES)]),
        exhaustive=bool(closed) and not ctx.caps_hit,
    )
