'''
C05 -- Prebuild followed by text generation reproduces the program.

E2: every well-formed, name-resolved program of five bounded families (every
statement form; typed expression trees; statement sequences; control-flow
nesting; pairs of qualified enumerator / constant names that share their
unqualified part), printed from its tuple syntax tree, is placed in each action home of
a host model built through the xtuml API (function, bridge, instance-based
operation, derived attribute), translated with bridgepoint.prebuild_action /
prebuild_model and turned back into text with bridgepoint.gen_text_action.
Oracle: (1) the generated text parses to the tree the program was printed
from (strict comparison of oalast, positions excluded); (2) translating the
generated text in a fresh host and generating again gives the identical text.
The engine, the host and the families live in mc/refs/prebuildhost.py and are
shared with C06.
'''
from mc.refs import prebuildhost as H

NEEDS_BRIDGEPOINT = True
PROP = 'c05'
BUDGET_S = {'quick': 3600, 'thorough': 14400}
ASSUMPTIONS = [
    'the OAL parser is the one regenerated from the grammar of the working tree; that it builds the right tree for a text is C07\'s subject',
    'optional words are not part of the program: "assign"; the statement keywords "bridge" / "transform", which the grammar reduces to '
    'the same invocation node classes (an ImplicitInvocationNode whose namespace names the external entity / a class is compared as the '
    'Bridge / Class invocation node the translation resolves it to); "then", "loop", "instances of"; redundant parentheses; keyword case',
    'un-namespaced constant reads (x = TEN) are excluded: the qualified form K::TEN is the only one the model can regenerate',
    'ports, signals and events are outside the supported statement set (they need component wiring and state machines)',
    'agreement between "return <value>" / bare "return" and the return type of the home is not enforced (the translation does not depend on it)',
    'the host declares two enumeration types sharing an enumerator name (Color::Red, Mode::Red), two constant groups sharing a constant '
    'name with different types (K::TEN integer, L::TEN string) and a constant named like an enumerator (L::Red); the family "names" reads '
    'every ordered pair of these qualified names in one body; user data types defined over an enumeration are not part of the host',
    'the host declares three user data types -- Stamp over integer, Label over string, Tick over Stamp (two levels) -- and with them '
    'the attributes A.When (Stamp), A.Tag (Label), A.Beat (Tick), B.When (Tick), the last two parameters of the function, bridge and '
    'operation homes (main(x, y, w: Stamp, l: Label), EE::relay(p, q, w: Stamp, l: Label), A.run(q, r, w: Stamp, k: Tick); their first '
    'parameters are those of f, b and op, which the programs call) and the return types of ::stamp, EE::title, A::tick (class based) and '
    'A.mark (instance based).  For well-formedness a user data type stands for the core type underneath it: such a value may be an '
    'operand next to core-typed operands, a parameter value, and be assigned to a variable or attribute declared with the core type or '
    'with another user data type over the same core type',
    'programs are printed on one line with single blanks, except the programs with elif clauses, which are also printed with a '
    'line per statement and clause in equal, falling and rising columns, and in falling columns with every line ending in a // comment (layouts lines, stairs, climb, stairs-remarks); layout in general is C06\'s '
    'and C07\'s subject',
    'every translation runs on a copy-on-write snapshot (fork) of one pristine host per worker, verified consistent before use',
    'C05 only (not in the run of C06) -- names of local variables.  Family "shadow": a local variable declared by create / select (from '
    'instances, related by, with and without where clause, one / any / many) / for each -- never by an assignment -- may be spelled like '
    'a constant of the host (TEN, Red; thorough also like an enumerator, a constant group, an enumeration): the innermost declaration '
    'wins, every read of the name is a read of the variable and is regenerated as such; every program of the statement family is run '
    'once per such variable with the variable renamed (one home and one of the two names, rotating; thorough: a second time under one of the other names), and every declaration form is '
    'combined with every kind of read (right-hand side, operand, unary operand, attribute handle, operation handle, navigation start, '
    'parameter value, condition, where clause, return value, assigned again), also next to the qualified constant of that name.  '
    'A name first introduced by an assignment stays excluded (the un-namespaced constant read above)',
    'C05 only -- family "rescope": a variable declared in a nested block goes out of scope with the block; the same name may be declared '
    'again after the block or in a sibling block with another type (handle of A / of B, set of A / of B, integer, string) and is then used '
    'in a way that depends on the second type (attribute of that class only, operation, navigation, selected of a where clause into it, '
    'for each over it, arithmetic); every ordered pair of types (equal types too) x every use of the second type x eleven placements '
    '(after an if / else / elif / while / for each block, sibling clauses of one if, two containers in a row, after an inner block inside '
    'an outer one, declared two blocks deep); quick: one pair of declaration forms per pair of types (rotating through all forms), one '
    'home per program (rotating); thorough: every form of either type per pair of types, three more placements',
]

REQUIRED_FEATURES = [
    'stmt:AssignmentNode', 'stmt:BreakNode', 'stmt:ContinueNode', 'stmt:ControlNode', 'stmt:ReturnNode', 'stmt:CreateObjectNode',
    'stmt:CreateObjectNoVariableNode', 'stmt:DeleteNode', 'stmt:RelateNode', 'stmt:RelateUsingNode', 'stmt:UnrelateNode',
    'stmt:UnrelateUsingNode', 'stmt:SelectFromNode', 'stmt:SelectFromWhereNode', 'stmt:SelectRelatedNode',
    'stmt:SelectRelatedWhereNode', 'stmt:IfNode', 'stmt:WhileNode', 'stmt:ForEachNode', 'stmt:InvocationStatementNode',
    'select:from:any', 'select:from:many', 'select:from-where:any', 'select:from-where:many',
    'select:related:one', 'select:related:any', 'select:related:many',
    'select:related-where:one', 'select:related-where:any', 'select:related-where:many',
    'chain:1', 'chain:2', 'chain:phrase-at-step-1', 'chain:phrase-at-step-2',
    'invoke:expr:0', 'invoke:expr:1', 'invoke:expr:2+', 'invoke:stmt:0', 'invoke:stmt:1', 'invoke:stmt:2+',
    'invoke:expr:function', 'invoke:expr:bridge', 'invoke:expr:class-operation', 'invoke:expr:instance-operation',
    'invoke:stmt:function', 'invoke:stmt:bridge', 'invoke:stmt:class-operation', 'invoke:stmt:instance-operation',
    'params:reordered', 'assign:scalar', 'assign:attribute', 'assign:array-1', 'assign:array-2', 'array-read-1', 'array-read-2',
    'assign:migrates-instance', 'assign:migrates-set', 'param-read', 'enumerator', 'constant', 'self', 'selected', 'using',
    'relate:phrase', 'return:value', 'return:bare', 'attribute-read:base', 'attribute-read:derived', 'attribute-read:ref',
    'if:elif-0:no-else', 'if:elif-1:else', 'if:elif-2:else', 'if:elif-2:no-else',
    'same-name:enumerator-then-enumerator', 'same-name:enumerator-then-constant', 'same-name:constant-then-enumerator',
    'same-name:constant-then-constant',
    'udt:attribute-read', 'udt:param-read', 'udt:invocation:function', 'udt:invocation:bridge', 'udt:invocation:class-operation',
    'udt:invocation:instance-operation', 'udt:two-level', 'udt:declares-transient', 'udt:transient-read', 'udt:attribute-write',
    'udt:assigned-across-types', 'udt:argument:same-type', 'udt:argument:of-core-type', 'udt:argument:of-other-user-type',
    'udt:operand-next-to-core-type', 'udt:operand-next-to-user-type',
] + ['binary:' + op for op in ('+', '-', '*', '/', '%', '|', '&', '^', '<', '<=', '==', '!=', '>=', '>', 'and', 'or')] \
  + ['unary:' + op for op in ('not', 'empty', 'not_empty', 'cardinality', '+', '-')]


ELIF_LAYOUTS = ('lines', 'stairs', 'climb', 'stairs-remarks')


def has_elif(stmts):
    for st in stmts or ():
        if not isinstance(st, (list, tuple)) or not st:
            continue
        if st[0] == 'if':
            if len(st[3]) >= 1 or has_elif(st[2]) or has_elif(st[4]) or any(has_elif(b) for _, b in st[3]):
                return True
        elif st[0] == 'while' and has_elif(st[2]):
            return True
        elif st[0] == 'foreach' and has_elif(st[3]):
            return True
    return False


def layout_tasks(tasks):
    '''Round 7 (C05-13): the clauses of an if statement are found again by their source positions, so programs with
    elif clauses are also translated from texts whose clauses start on other lines in smaller / larger / equal columns.'''
    out, seen, n = [], set(), 0
    for t in tasks:
        if t['family'] != 'nesting' or not has_elif(t['stmts']):
            continue
        key = repr(H.tolist(t['stmts']))
        if key in seen:
            continue
        home = H.HOMES[n % len(H.HOMES)]
        if t['home'] != home:
            continue
        seen.add(key)
        n += 1
        for lay in ELIF_LAYOUTS:
            out.append(dict(t, layout=lay))
    return out


# ---------------------------------------------------------------------------
# Round 11: two families about the NAMES of local variables (C05 only; the run of C06 does not hold them).
#
# shadow   a local variable -- declared by create / select (every form) / for each, never by an assignment -- that is
#          spelled like a constant of the host (K::TEN, L::TEN, L::Red).  The innermost declaration wins: every read of
#          the name is a read of the variable.  (a) every program of the statement family, in one home, with one of its
#          variables of that kind renamed -- once per such variable that is read through a plain variable access, once
#          per name; (b) the product of every declaration form with every kind of read.
# rescope  a name declared inside a nested block and, after that block has ended or in a sibling block, declared AGAIN
#          with another type (handle of another class, set instead of instance, scalar of another type), followed by a
#          use that depends on the second type.  Product of block shapes x pairs of types x uses of the second type.
# ---------------------------------------------------------------------------
NAME_FAMILIES = ('shadow', 'rescope')
# constants' names (quick); thorough adds names of enumerators, of a constant group and of an enumeration
SHADOW_NAMES = {'quick': ['TEN', 'Red'], 'thorough': ['TEN', 'Red', 'Green', 'Off', 'K', 'Color']}


def rename_variable(x, old, new):
    '''The program (JSON shape) with the local variable *old* spelled *new* wherever a variable is named: variable
    accesses, the variables of create / delete / relate / select / for each.  Attribute, parameter, class, function
    names, phrases and literals are left alone.'''
    def e(v):
        if v is None:
            return None
        k = v[0]
        if k == 'var':
            return ['var', new if v[1] == old else v[1]]
        if k in ('field',):
            return ['field', e(v[1]), v[2]]
        if k == 'index':
            return ['index', e(v[1]), e(v[2])]
        if k == 'grp':
            return ['grp', e(v[1])]
        if k == 'un':
            return ['un', v[1], e(v[2])]
        if k == 'bin':
            return ['bin', v[1], e(v[2]), e(v[3])]
        if k == 'fcall':
            return ['fcall', v[1], [[p, e(a)] for p, a in v[2]]]
        if k == 'icall':
            return ['icall', e(v[1]), v[2], [[p, e(a)] for p, a in v[3]]]
        if k == 'ncall':
            return ['ncall', v[1], v[2], [[p, e(a)] for p, a in v[3]]]
        if k in ('int', 'real', 'str', 'bool', 'self', 'selected', 'param', 'enum'):
            return H.tolist(v)
        raise ValueError(v)

    def n(name):
        return new if name == old else name

    def blk(b):
        return None if b is None else [s(y) for y in b]

    def s(st):
        k = st[0]
        if k == 'assign':
            return ['assign', e(st[1]), e(st[2]), st[3]]
        if k in ('break', 'continue', 'stop', 'empty'):
            return list(st)
        if k == 'return':
            return ['return', e(st[1])]
        if k == 'create':
            return ['create', n(st[1]), st[2]]
        if k == 'delete':
            return ['delete', n(st[1])]
        if k in ('relate', 'unrelate'):
            return [k, n(st[1]), n(st[2]), st[3], H.tolist(st[4]), n(st[5])]
        if k == 'selfrom':
            return ['selfrom', st[1], n(st[2]), st[3], e(st[4]), st[5]]
        if k == 'selrel':
            return ['selrel', st[1], n(st[2]), e(st[3]), H.tolist(st[4]), e(st[5])]
        if k == 'if':
            return ['if', e(st[1]), blk(st[2]), [[e(c), blk(b)] for c, b in st[3]], blk(st[4]), list(st[5])]
        if k == 'while':
            return ['while', e(st[1]), blk(st[2]), st[3]]
        if k == 'foreach':
            return ['foreach', n(st[1]), n(st[2]), blk(st[3]), st[4]]
        if k == 'call':
            return ['call', st[1], e(st[2])]
        if k == 'callassign':
            return ['callassign', st[1], e(st[2]), e(st[3])]
        raise ValueError(st)
    return [s(st) for st in x]


def reads_variable(x, name):
    '''Whether the program holds a plain variable access of that name.'''
    if isinstance(x, (list, tuple)):
        if len(x) == 2 and x[0] == 'var' and x[1] == name:
            return True
        return any(reads_variable(y, name) for y in x)
    return False


def shadow_renamings(tasks, tier):
    '''(a): every program of the statement family (prelude included), in one of the homes it is well-formed in (rotating),
    with each of its variables that are declared by create / select / for each only and read through a variable access
    renamed to a name of SHADOW_NAMES.'''
    homes_of, order = {}, []
    for t in tasks:
        if t['family'] != 'statements':
            continue
        key = repr(t['stmts'])
        if key not in homes_of:
            homes_of[key] = []
            order.append(t)
        homes_of[key].append(t['home'])
    out, turn = [], [0]
    for n, t in enumerate(order):
        homes = homes_of[repr(t['stmts'])]
        for home in [homes[n % len(homes)]]:
            full, _, an = H.complete(t['stmts'], home)
            full = H.tolist(full)
            by_name = {}
            for v in an.vars:
                by_name.setdefault(v.name, []).append(v)
            for name in sorted(by_name):
                if any(v.first is not None or v.dims for v in by_name[name]) or not reads_variable(full, name):
                    continue
                # one name of a constant per (program, variable), the names taking turns; thorough: and one of the other names
                k = turn[0]
                turn[0] += 1
                names = [SHADOW_NAMES['quick'][(k + n // 4) % 2]]           # (not in step with the homes)
                if tier == 'thorough':
                    others = SHADOW_NAMES['thorough'][2:]
                    names.append(others[(k + n // 4) % len(others)])
                names = [x for x in names if x not in by_name]
                for new in names:
                    out.append(dict(family='shadow', stmts=rename_variable(full, name, new), home=home, entry=t['entry'],
                                    part='renamed'))
    return out


def shadow_product(tier):
    '''(b): declaration forms x kinds of read, per name.  -> core programs (the prelude declares a, b, aset, bset, i).'''
    V, I, F, BIN, UN, ASSIGN, T, SEL, STR = H.V, H.I, H.F, H.BIN, H.UN, H.ASSIGN, H.T, H.SEL, H.STR
    W0 = BIN('==', F(SEL, 'Num'), I(1))
    progs = []
    for N in SHADOW_NAMES[tier]:
        qualified = [q for q in H.qualified_names() if q[2] == N]              # K::TEN, L::TEN / Color::Red, Mode::Red, L::Red
        inst_decls = [('create', N, 'A'), ('selfrom', 'any', N, 'A', None, True), ('selfrom', 'any', N, 'A', W0, False),
                      ('selrel', 'one', N, V('b'), [('A', 'R1', None)], None),
                      ('selrel', 'any', N, V('bset'), [('A', 'R1', T('is owned by'))], None),
                      ('selrel', 'one', N, V('a'), [('A', 'R2', T('next'))], W0),
                      ('selrel', 'any', N, V('bset'), [('A', 'R1', None)], BIN('>', F(SEL, 'Num'), V('i')))]
        set_decls = [('selfrom', 'many', N, 'A', None, True), ('selfrom', 'many', N, 'A', W0, True),
                     ('selrel', 'many', N, V('bset'), [('A', 'R1', None)], None),
                     ('selrel', 'many', N, V('a'), [('B', 'R1', None), ('A', 'R1', T('is owned by'))], W0)]
        n = V(N)
        inst_uses = [
            [ASSIGN('x', n)], [ASSIGN('x', n, True)], [ASSIGN('x', F(N, 'Num'))], [ASSIGN('x', UN('not_empty', n))],
            [ASSIGN('x', UN('empty', n))], [ASSIGN('x', UN('cardinality', n))], [ASSIGN('x', BIN('==', n, V('a')))],
            [ASSIGN('x', BIN('!=', V('a'), n))], [ASSIGN('x', UN('not', UN('empty', n)))],
            [('call', None, ('fcall', 'h', [('x', F(N, 'Num'))]))],
            [('call', None, ('icall', n, 'op', [('q', UN('cardinality', n)), ('r', UN('empty', n))]))],
            [ASSIGN('x', ('icall', n, 'op', [('r', UN('not_empty', n)), ('q', I(1))]))],
            [('return', UN('cardinality', n))],
            [('if', UN('not_empty', n), [ASSIGN(F(N, 'Num'), I(1)), ASSIGN('x', n)], [], [ASSIGN('y', n)], [False])],
            [('while', UN('empty', n), [ASSIGN('x', n), ('break',)], False)],
            [('selrel', 'many', 'ms', n, [('B', 'R1', None)], None)],
            [('selrel', 'one', 'm', n, [('A', 'R2', T('next'))], BIN('==', F(SEL, 'Num'), F(N, 'Num')))],
            [('selfrom', 'any', 'm', 'A', BIN('==', F(SEL, 'Num'), F(N, 'Num')), True)],
            [('selfrom', 'many', 'ms', 'A', BIN('and', F(SEL, 'Flag'), UN('not_empty', n)), True)],
            [ASSIGN(N, V('a')), ASSIGN('x', n)], [ASSIGN(F(N, 'Name'), STR), ASSIGN('x', F(N, 'Name'))],
            [ASSIGN('x', n), ASSIGN('y', F('x', 'Num')), ('delete', N)], [('relate', N, 'b', 'R1', None, None), ASSIGN('x', n)],
        ] + [[ASSIGN('x', n), ASSIGN('y', q), ASSIGN('z', BIN('==', n, V('x')))] for q in qualified]
        set_uses = [
            [ASSIGN('x', n)], [ASSIGN('x', UN('cardinality', n))], [ASSIGN('x', UN('empty', n))], [ASSIGN('x', UN('not_empty', n))],
            [ASSIGN('x', BIN('|', n, V('aset')))], [ASSIGN('x', BIN('&', V('aset'), n))], [ASSIGN('x', BIN('==', n, V('aset')))],
            [('foreach', 'k', N, [ASSIGN('x', F('k', 'Num'))], False), ASSIGN('y', n)],
            [('selrel', 'many', 'ms', n, [('B', 'R1', None)], None)],
            [('return', UN('cardinality', n))],
            [('if', UN('not_empty', n), [ASSIGN('x', n)], [(UN('empty', n), [ASSIGN('y', n)])], None, [False, False])],
            [('call', None, ('fcall', 'h', [('x', UN('cardinality', n))]))],
            [ASSIGN(N, BIN('^', n, V('aset'))), ASSIGN('x', n)],
        ] + [[ASSIGN('x', n), ASSIGN('y', q)] for q in qualified]
        for d in inst_decls:
            for u in inst_uses:
                progs.append([d] + u)
        for d in set_decls:
            for u in set_uses:
                progs.append([d] + u)
        # the variable of a for each statement: read inside the loop and after it
        for u in inst_uses:
            progs.append([('foreach', N, 'aset', u, False)])
            progs.append([('foreach', N, 'aset', [], True)] + u)
    return progs


RESCOPE_TYPES = ('instA', 'instB', 'setA', 'setB', 'integer', 'string')


def rescope_menu():
    '''type -> (declarations of n with that type, uses of n that depend on the type).'''
    V, I, F, BIN, UN, ASSIGN, T, SEL, STR = H.V, H.I, H.F, H.BIN, H.UN, H.ASSIGN, H.T, H.SEL, H.STR
    n = V('n')
    decls = {
        'instA': [('create', 'n', 'A'), ('selfrom', 'any', 'n', 'A', None, True), ('selrel', 'one', 'n', V('b'), [('A', 'R1', None)], None),
                  ASSIGN('n', V('a')), ('selfrom', 'any', 'n', 'A', BIN('and', F(SEL, 'Flag'), BIN('==', F(SEL, 'Name'), STR)), True),
                  ('selrel', 'any', 'n', V('bset'), [('A', 'R1', None)], F(SEL, 'Flag'))],
        'instB': [('selfrom', 'any', 'n', 'B', None, True), ('create', 'n', 'B'), ASSIGN('n', V('b')),
                  ('selrel', 'any', 'n', V('a'), [('B', 'R1', None)], BIN('==', F(SEL, 'A_Id'), F('a', 'Id'))),
                  ('selfrom', 'any', 'n', 'B', BIN('==', F(SEL, 'A_Id'), F('a', 'Id')), True)],
        'setA': [('selfrom', 'many', 'n', 'A', None, True), ASSIGN('n', V('aset')),
                 ('selfrom', 'many', 'n', 'A', F(SEL, 'Flag'), True), ('selrel', 'many', 'n', V('bset'), [('A', 'R1', None)], None)],
        'setB': [('selrel', 'many', 'n', V('a'), [('B', 'R1', None)], None), ('selfrom', 'many', 'n', 'B', None, True),
                 ('selrel', 'many', 'n', V('a'), [('B', 'R1', None)], BIN('==', F(SEL, 'A_Id'), F('a', 'Id'))), ASSIGN('n', V('bset'))],
        'integer': [ASSIGN('n', I(1)), ASSIGN('n', F('a', 'Num'))],
        'string': [ASSIGN('n', STR), ASSIGN('n', F('a', 'Name'))],
    }
    uses = {
        'instA': [[ASSIGN('x', F('n', 'Flag'))], [ASSIGN(F('n', 'Name'), STR)],
                  [('call', None, ('icall', n, 'op', [('q', I(1)), ('r', F('n', 'Flag'))]))],
                  [('selrel', 'many', 'ms', n, [('B', 'R1', None)], BIN('==', F(SEL, 'A_Id'), F('n', 'Id')))],
                  [('selrel', 'one', 'm', n, [('A', 'R2', T('next'))], None), ASSIGN('x', F('m', 'Rate'))]],
        'instB': [[ASSIGN('x', F('n', 'A_Id'))], [('selrel', 'one', 'm', n, [('A', 'R1', None)], None), ASSIGN('x', F('m', 'Flag'))],
                  [('relate', 'a', 'n', 'R1', None, None), ASSIGN('x', BIN('==', F('n', 'A_Id'), F('a', 'Id')))]],
        'setA': [[('foreach', 'k', 'n', [ASSIGN('x', F('k', 'Flag'))], False)], [ASSIGN('x', BIN('|', n, V('aset')))],
                 [('selrel', 'many', 'ms', n, [('B', 'R1', None)], None), ('foreach', 'k', 'ms', [ASSIGN('x', F('k', 'A_Id'))], False)]],
        'setB': [[('foreach', 'k', 'n', [ASSIGN('x', F('k', 'A_Id'))], False)], [ASSIGN('x', BIN('&', n, V('bset')))],
                 [('selrel', 'many', 'ms', n, [('A', 'R1', None)], F(SEL, 'Flag'))]],
        'integer': [[ASSIGN('x', BIN('%', n, I(2)))], [ASSIGN(F('a', 'Num'), n)]],
        'string': [[ASSIGN('x', BIN('+', n, STR))], [ASSIGN(F('a', 'Name'), n)]],
    }
    return decls, uses


def rescope_shapes(d1, d2, u2, tier):
    '''Every placement of a first declaration d1 (in a nested block) and of a second declaration d2 followed by the uses u2
    (after that block, or in a sibling block).'''
    V, I, BIN, ASSIGN = H.V, H.I, H.BIN, H.ASSIGN
    c0, c1, c2 = V('t'), BIN('<', V('i'), I(3)), BIN('==', V('i'), I(7))
    X = ASSIGN('x0', I(1))
    after = [d2] + u2
    out = [
        [('if', c0, [d1], [], None, [False])] + after,                                      # after an if block
        [('if', c0, [X], [], [d1], [False])] + after,                                       # after an else block
        [('if', c0, [X], [(c2, [d1])], None, [False, False])] + after,                      # after an elif block
        [('while', c1, [d1, ('break',)], False)] + after,                                   # after a while block
        [('foreach', 'k0', 'aset', [d1], False)] + after,                                   # after a for each block
        [('if', c0, [d1], [], after, [False])],                                             # sibling: if / else
        [('if', c0, [d1], [(c2, after)], None, [False, False])],                            # sibling: if / elif
        [('if', c0, [X], [(c2, [d1]), (c1, after)], [X], [False, False, False])],           # sibling: elif / elif, else follows
        [('if', c0, [d1], [], None, [False]), ('while', c1, after + [('break',)], False)],  # two containers in a row
        [('if', c0, [('if', c2, [d1], [], None, [False])] + after, [], None, [False])],     # after the inner block, inside the outer
        [('while', c1, [('foreach', 'k0', 'aset', [d1], False), ('break',)], False)] + after,   # declared two blocks deep
    ]
    if tier == 'thorough':
        out += [
            [('foreach', 'k0', 'aset', [('if', c0, [d1], [], after, [False])], False)],
            [('if', c0, [d1], [], None, [False]), ('if', c2, [X], [], after, [False])],
            [('while', c1, [d1, ('if', c0, [('break',)], [], None, [False])], False)] + after + [('if', c0, after, [], None, [False])],
        ]
    return out


def rescope_programs(tier):
    '''Quick: per ordered pair of types (equal types included: the control) one pair of declaration forms -- the forms
    rotate so that every form of the menu is used as first and as second declaration -- every use of the second type,
    every shape.  Thorough: per pair of types as many pairs of forms as the longer of the two menus has forms (every
    form of either type is then used with that pair of types).'''
    decls, uses = rescope_menu()
    progs = []
    k = 0
    for t1 in RESCOPE_TYPES:
        for t2 in RESCOPE_TYPES:
            if tier == 'thorough':
                n1, n2 = len(decls[t1]), len(decls[t2])
                pairs = [(decls[t1][(k + j) % n1], decls[t2][(k // len(RESCOPE_TYPES) + j) % n2]) for j in range(max(n1, n2))]
                k += 1
            else:
                pairs = [(decls[t1][k % len(decls[t1])], decls[t2][(k // len(RESCOPE_TYPES)) % len(decls[t2])])]
                k += 1
            for d1, d2 in pairs:
                for u2 in uses[t2]:
                    progs += rescope_shapes(d1, d2, u2, tier)
    return progs


def name_tasks(tasks, tier, seed=0):
    '''The tasks of the families shadow and rescope (programs that are well-formed in the home and not among *tasks*).'''
    seen = set((repr(t['stmts']), t['home']) for t in tasks)
    out, bounds = [], {}
    for t in shadow_renamings(tasks, tier):
        key = (repr(t['stmts']), t['home'])
        if key not in seen and H.complete(t['stmts'], t['home']) is not None:
            seen.add(key)
            out.append(t)
    bounds['shadow'] = dict(names=SHADOW_NAMES[tier], renamed_programs_of_the_statement_family=len(out))
    for fam, progs in (('shadow', shadow_product(tier)), ('rescope', rescope_programs(tier))):
        kept = 0
        for idx, core_stmts in enumerate(progs):
            homes = H.HOMES if tier == 'thorough' and fam == 'shadow' else [H.HOMES[idx % len(H.HOMES)]]
            for home in homes:
                stmts = H.tolist(H.home_params(core_stmts, home))
                key = (repr(stmts), home)
                if key in seen or H.complete(stmts, home) is None:
                    continue
                seen.add(key)
                kept += 1
                out.append(dict(family=fam, stmts=stmts, home=home, entry='model' if (idx + seed) % 2 else 'action', part='product'))
        bounds.setdefault(fam, {}).update(product_candidates=len(progs), product_well_formed=kept)
    decls, uses = rescope_menu()
    bounds['rescope'].update(types=list(RESCOPE_TYPES), declaration_forms=dict((k, len(v)) for k, v in decls.items()),
                             uses=dict((k, len(v)) for k, v in uses.items()),
                             shapes=len(rescope_shapes(decls['instA'][0], decls['instB'][0], uses['instB'][0], tier)),
                             homes='one per program (rotating)')
    return out, bounds


class NamedCtx(object):
    '''A context whose violation signatures name the family of the task (the signatures of tree mismatches are made of
    the statement kind and the field only).'''
    def __init__(self, ctx, family):
        self._ctx = ctx
        self._family = family

    def violation(self, sig, *args, **kw):
        parts = sig.split(':')
        if self._family not in parts:
            sig = ':'.join(parts[:1] + [self._family] + parts[1:])
        return self._ctx.violation(sig, *args, **kw)

    def __getattr__(self, name):
        return getattr(self._ctx, name)


def named_first(sub, host, task):
    return H.c05_first(NamedCtx(sub, task['family']), host, task)


def named_second(sub, host, task, gen):
    return H.c05_second(NamedCtx(sub, task['family']), host, task, gen)


def named_run(ctx, task):
    '''H.c05_run for the families of NAME_FAMILIES: same two translations and oracles, signatures naming the family.'''
    r = H.complete(task['stmts'], task['home'])
    if r is None:
        raise ValueError('task is not well-formed: %r' % (task,))
    an = r[2]
    ctx.count('runs')
    gen = H.isolated(ctx, named_first, task)
    ok = False
    if isinstance(gen, tuple):
        H.hang_or_crash(ctx, 'c05', task, gen)
    elif gen is not None:
        res = H.isolated(ctx, named_second, task, gen)
        if isinstance(res, tuple):
            H.hang_or_crash(ctx, 'c05', task, res)
        ok = res is True
    H.record_coverage(ctx, task, an, ok)
    ctx.count('%s:%s' % (task['family'], task.get('part', 'product')))
    # what the family is about: a read of the variable spelled like a constant / a second declaration of the name
    if task['family'] == 'shadow':
        ctx.count('shadow:variable-reads', sum(1 for name in SHADOW_NAMES['thorough'] if reads_variable(task['stmts'], name)))
    else:
        ctx.count('rescope:declarations', sum(1 for v in an.vars if v.name == 'n'))
        if len(set(v.t for v in an.vars if v.name == 'n')) > 1:
            ctx.count('rescope:retyped')


def task_fn(ctx, task):
    if H.stopped():
        ctx.cap('stopped early after the first violations (VERIF_STOP_EARLY)')
        return
    if task['family'] in NAME_FAMILIES:
        named_run(ctx, task)
    else:
        H.c05_run(ctx, task)
    H.stop_if_violated(ctx)


def run_engine(ctx, fn):
    from mc import core
    tasks, bounds = H.all_tasks(ctx.tier, ctx.seed)
    k = (ctx.seed * 97) % max(1, len(tasks))
    tasks = tasks[k:] + tasks[:k]
    if PROP == 'c05':
        extra = layout_tasks(tasks)
        bounds['layouts'] = dict(programs_with_elif_clauses_under_other_layouts=len(extra), layouts=list(ELIF_LAYOUTS),
                                 what='every program of the nesting family holding an if with elif clauses, in one home (rotating), '
                                      'under each of these layouts; all other programs are printed on one line')
        named, name_bounds = name_tasks(tasks, ctx.tier, ctx.seed)
        bounds['names_of_variables'] = name_bounds
        tasks = tasks + extra + named
    ctx.notes['bounds'] = bounds
    ctx.notes['tasks'] = len(tasks)
    # interleave so that every chunk mixes cheap and expensive programs
    n = core.NCPU * 4
    order = [t for i in range(n) for t in tasks[i::n]]
    H.arm_early_stop()
    ctx.pmap(fn, order, chunk=max(1, len(order) // (core.NCPU * 8)))
    return tasks, bounds


def guards(ctx, tasks):
    feats = ctx.sets.get('features', set())
    from mc import core
    missing = [f for f in REQUIRED_FEATURES if core.h64(f) not in feats]
    ctx.require(not missing, 'constructs of the supported set never exercised: %s' % missing)
    for home in H.HOMES:
        ctx.require(ctx.nd('home:' + home) >= 300, 'too few programs in the %s home (%d)' % (home, ctx.nd('home:' + home)))
    ctx.require(ctx.n('entry:action') > 0 and ctx.n('entry:model') > 0, 'one of the two prebuild entry points was never used')
    ctx.require(ctx.nd('states') == len(tasks) or ctx.caps_hit, 'not every task was run (%d of %d)' % (ctx.nd('states'), len(tasks)))
    ctx.require(ctx.n('family:names') >= 300, 'family names too small (%d)' % ctx.n('family:names'))
    for lay in (ELIF_LAYOUTS if ctx.prop.lower() == 'c05' else ()):
        ctx.require(ctx.n('layout:' + lay) >= 100 or ctx.caps_hit, 'layout %s hardly used (%d)' % (lay, ctx.n('layout:' + lay)))
    for fam in ('statements', 'expressions', 'sequences', 'nesting'):
        ctx.require(ctx.n('family:' + fam) >= 500, 'family %s too small (%d)' % (fam, ctx.n('family:' + fam)))
    if ctx.prop.lower() == 'c05':
        ctx.require(ctx.n('shadow:renamed') >= 300 and ctx.n('shadow:product') >= 200 or ctx.caps_hit,
                    'family shadow too small (%d renamed programs, %d of the product)' % (ctx.n('shadow:renamed'), ctx.n('shadow:product')))
        ctx.require(ctx.n('shadow:variable-reads') >= ctx.n('family:shadow') > 0 or ctx.caps_hit,
                    'family shadow: programs without a read of the variable spelled like a constant')
        ctx.require(ctx.n('family:rescope') >= 500 and ctx.n('rescope:retyped') >= 400 and
                    ctx.n('rescope:declarations') >= 2 * ctx.n('family:rescope') or ctx.caps_hit,
                    'family rescope too small (%d programs, %d declaring the name with two types, %d declarations)' %
                    (ctx.n('family:rescope'), ctx.n('rescope:retyped'), ctx.n('rescope:declarations')))
        for f in ('declares:CreateObjectNode', 'declares:SelectFromNode', 'declares:SelectFromWhereNode', 'declares:SelectRelatedNode',
                  'declares:SelectRelatedWhereNode', 'declares:ForEachNode'):
            ctx.require(core.h64(f) in feats, 'no variable was ever declared by %s' % f)


def run(ctx):
    tasks, _ = run_engine(ctx, task_fn)
    guards(ctx, tasks)
    for t in tasks[:: max(1, len(tasks) // 4)][:4]:
        full, printed, _ = H.complete(t['stmts'], t['home'])
        from mc.refs import oalast
        ctx.sample(dict(family=t['family'], home=t['home'], text=oalast.assemble(printed)[0]))


def replay(ctx, case):
    task = dict(family=case['family'], stmts=case['stmts'], home=case['home'], entry=case.get('entry', 'action'),
                layout=case.get('layout', 'default'))
    if task['family'] in NAME_FAMILIES:
        named_run(ctx, task)
    else:
        H.c05_run(ctx, task)


def sizes(ctx, prefix):
    ks = [int(k.split(':')[1]) for k in ctx.counts if k.startswith(prefix + ':')]
    return max(ks) if ks else 0


def coverage(ctx):
    return dict(
        states=ctx.nd('states'),
        transitions=ctx.n('translations'),
        traces_validated_against_impl=ctx.n('traces'),
        evaluations=ctx.n('translations') + ctx.n('parses'),
        distinct_nontrivial=ctx.nd('nontrivial'),
        distinct_programs=ctx.nd('programs'),
        per_home=dict((h, ctx.nd('home:' + h)) for h in H.HOMES),
        per_family=dict((k.split(':')[1], v) for k, v in ctx.counts.items() if k.startswith('family:')),
        names_of_variables=dict((k, ctx.n(k)) for k in ('shadow:renamed', 'shadow:product', 'shadow:variable-reads', 'rescope:product',
                                                        'rescope:declarations', 'rescope:retyped')),
        entry_points=dict(prebuild_action=ctx.n('entry:action'), prebuild_model=ctx.n('entry:model')),
        features_exercised=ctx.nd('features'),
        max_statements_per_program=sizes(ctx, 'statements'), max_block_depth=sizes(ctx, 'depth'),
        rule='states = distinct (program, home) pairs translated; transitions = prebuild + generate runs (two per state: the original '
             'text and the generated text, each in a fresh host); a trace is validated when the generated text parses to the tree of the '
             'program and regenerates identically; non-trivial = programs with at least two statements or a nested block',
        bounds=ctx.notes.get('bounds'),
        exhaustive=not ctx.caps_hit,
    )
