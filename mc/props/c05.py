'''
C05 -- Prebuild followed by text generation reproduces the program.

E2: every well-formed, name-resolved program of five bounded families (every
statement form; typed expression trees; statement sequences; control-flow
nesting; pairs of qualified enumerator / constant names that share their
unqualified part), printed from its tuple syntax tree, is placed in each action home of
a host model built through the xtuml API (function, bridge, instance-based
operation, derived attribute), translated with bridgepoint.prebuild_action /
prebuild_model and turned back into text with bridgepoint.gen_text_action.
Oracle: (1) the generated text parses to the tree the program was printed
from (strict comparison of oalast, positions excluded); (2) translating the
generated text in a fresh host and generating again gives the identical text.
The engine, the host and the families live in mc/refs/prebuildhost.py and are
shared with C06.
'''
from mc.refs import prebuildhost as H

NEEDS_BRIDGEPOINT = True
PROP = 'c05'
BUDGET_S = {'quick': 3600, 'thorough': 14400}
ASSUMPTIONS = [
    'the OAL parser is the one regenerated from the grammar of the working tree; that it builds the right tree for a text is C07\'s subject',
    'optional words are not part of the program: "assign"; the statement keywords "bridge" / "transform", which the grammar reduces to '
    'the same invocation node classes (an ImplicitInvocationNode whose namespace names the external entity / a class is compared as the '
    'Bridge / Class invocation node the translation resolves it to); "then", "loop", "instances of"; redundant parentheses; keyword case',
    'un-namespaced constant reads (x = TEN) are excluded: the qualified form K::TEN is the only one the model can regenerate',
    'ports, signals and events are outside the supported statement set (they need component wiring and state machines)',
    'agreement between "return <value>" / bare "return" and the return type of the home is not enforced (the translation does not depend on it)',
    'the host declares two enumeration types sharing an enumerator name (Color::Red, Mode::Red), two constant groups sharing a constant '
    'name with different types (K::TEN integer, L::TEN string) and a constant named like an enumerator (L::Red); the family "names" reads '
    'every ordered pair of these qualified names in one body; user data types defined over an enumeration are not part of the host',
    'the host declares three user data types -- Stamp over integer, Label over string, Tick over Stamp (two levels) -- and with them '
    'the attributes A.When (Stamp), A.Tag (Label), A.Beat (Tick), B.When (Tick), the last two parameters of the function, bridge and '
    'operation homes (main(x, y, w: Stamp, l: Label), EE::relay(p, q, w: Stamp, l: Label), A.run(q, r, w: Stamp, k: Tick); their first '
    'parameters are those of f, b and op, which the programs call) and the return types of ::stamp, EE::title, A::tick (class based) and '
    'A.mark (instance based).  For well-formedness a user data type stands for the core type underneath it: such a value may be an '
    'operand next to core-typed operands, a parameter value, and be assigned to a variable or attribute declared with the core type or '
    'with another user data type over the same core type',
    'programs are printed on one line with single blanks, except the programs with elif clauses, which are also printed with a '
    'line per statement and clause in equal, falling and rising columns, and in falling columns with every line ending in a // comment (layouts lines, stairs, climb, stairs-remarks); layout in general is C06\'s '
    'and C07\'s subject',
    'every translation runs on a copy-on-write snapshot (fork) of one pristine host per worker, verified consistent before use',
]

REQUIRED_FEATURES = [
    'stmt:AssignmentNode', 'stmt:BreakNode', 'stmt:ContinueNode', 'stmt:ControlNode', 'stmt:ReturnNode', 'stmt:CreateObjectNode',
    'stmt:CreateObjectNoVariableNode', 'stmt:DeleteNode', 'stmt:RelateNode', 'stmt:RelateUsingNode', 'stmt:UnrelateNode',
    'stmt:UnrelateUsingNode', 'stmt:SelectFromNode', 'stmt:SelectFromWhereNode', 'stmt:SelectRelatedNode',
    'stmt:SelectRelatedWhereNode', 'stmt:IfNode', 'stmt:WhileNode', 'stmt:ForEachNode', 'stmt:InvocationStatementNode',
    'select:from:any', 'select:from:many', 'select:from-where:any', 'select:from-where:many',
    'select:related:one', 'select:related:any', 'select:related:many',
    'select:related-where:one', 'select:related-where:any', 'select:related-where:many',
    'chain:1', 'chain:2', 'chain:phrase-at-step-1', 'chain:phrase-at-step-2',
    'invoke:expr:0', 'invoke:expr:1', 'invoke:expr:2+', 'invoke:stmt:0', 'invoke:stmt:1', 'invoke:stmt:2+',
    'invoke:expr:function', 'invoke:expr:bridge', 'invoke:expr:class-operation', 'invoke:expr:instance-operation',
    'invoke:stmt:function', 'invoke:stmt:bridge', 'invoke:stmt:class-operation', 'invoke:stmt:instance-operation',
    'params:reordered', 'assign:scalar', 'assign:attribute', 'assign:array-1', 'assign:array-2', 'array-read-1', 'array-read-2',
    'assign:migrates-instance', 'assign:migrates-set', 'param-read', 'enumerator', 'constant', 'self', 'selected', 'using',
    'relate:phrase', 'return:value', 'return:bare', 'attribute-read:base', 'attribute-read:derived', 'attribute-read:ref',
    'if:elif-0:no-else', 'if:elif-1:else', 'if:elif-2:else', 'if:elif-2:no-else',
    'same-name:enumerator-then-enumerator', 'same-name:enumerator-then-constant', 'same-name:constant-then-enumerator',
    'same-name:constant-then-constant',
    'udt:attribute-read', 'udt:param-read', 'udt:invocation:function', 'udt:invocation:bridge', 'udt:invocation:class-operation',
    'udt:invocation:instance-operation', 'udt:two-level', 'udt:declares-transient', 'udt:transient-read', 'udt:attribute-write',
    'udt:assigned-across-types', 'udt:argument:same-type', 'udt:argument:of-core-type', 'udt:argument:of-other-user-type',
    'udt:operand-next-to-core-type', 'udt:operand-next-to-user-type',
] + ['binary:' + op for op in ('+', '-', '*', '/', '%', '|', '&', '^', '<', '<=', '==', '!=', '>=', '>', 'and', 'or')] \
  + ['unary:' + op for op in ('not', 'empty', 'not_empty', 'cardinality', '+', '-')]


ELIF_LAYOUTS = ('lines', 'stairs', 'climb', 'stairs-remarks')


def has_elif(stmts):
    for st in stmts or ():
        if not isinstance(st, (list, tuple)) or not st:
            continue
        if st[0] == 'if':
            if len(st[3]) >= 1 or has_elif(st[2]) or has_elif(st[4]) or any(has_elif(b) for _, b in st[3]):
                return True
        elif st[0] == 'while' and has_elif(st[2]):
            return True
        elif st[0] == 'foreach' and has_elif(st[3]):
            return True
    return False


def layout_tasks(tasks):
    '''Round 7 (C05-13): the clauses of an if statement are found again by their source positions, so programs with
    elif clauses are also translated from texts whose clauses start on other lines in smaller / larger / equal columns.'''
    out, seen, n = [], set(), 0
    for t in tasks:
        if t['family'] != 'nesting' or not has_elif(t['stmts']):
            continue
        key = repr(H.tolist(t['stmts']))
        if key in seen:
            continue
        home = H.HOMES[n % len(H.HOMES)]
        if t['home'] != home:
            continue
        seen.add(key)
        n += 1
        for lay in ELIF_LAYOUTS:
            out.append(dict(t, layout=lay))
    return out


def task_fn(ctx, task):
    if H.stopped():
        ctx.cap('stopped early after the first violations (VERIF_STOP_EARLY)')
        return
    H.c05_run(ctx, task)
    H.stop_if_violated(ctx)


def run_engine(ctx, fn):
    from mc import core
    tasks, bounds = H.all_tasks(ctx.tier, ctx.seed)
    k = (ctx.seed * 97) % max(1, len(tasks))
    tasks = tasks[k:] + tasks[:k]
    if PROP == 'c05':
        extra = layout_tasks(tasks)
        bounds['layouts'] = dict(programs_with_elif_clauses_under_other_layouts=len(extra), layouts=list(ELIF_LAYOUTS),
                                 what='every program of the nesting family holding an if with elif clauses, in one home (rotating), '
                                      'under each of these layouts; all other programs are printed on one line')
        tasks = tasks + extra
    ctx.notes['bounds'] = bounds
    ctx.notes['tasks'] = len(tasks)
    # interleave so that every chunk mixes cheap and expensive programs
    n = core.NCPU * 4
    order = [t for i in range(n) for t in tasks[i::n]]
    H.arm_early_stop()
    ctx.pmap(fn, order, chunk=max(1, len(order) // (core.NCPU * 8)))
    return tasks, bounds


def guards(ctx, tasks):
    feats = ctx.sets.get('features', set())
    from mc import core
    missing = [f for f in REQUIRED_FEATURES if core.h64(f) not in feats]
    ctx.require(not missing, 'constructs of the supported set never exercised: %s' % missing)
    for home in H.HOMES:
        ctx.require(ctx.nd('home:' + home) >= 300, 'too few programs in the %s home (%d)' % (home, ctx.nd('home:' + home)))
    ctx.require(ctx.n('entry:action') > 0 and ctx.n('entry:model') > 0, 'one of the two prebuild entry points was never used')
    ctx.require(ctx.nd('states') == len(tasks) or ctx.caps_hit, 'not every task was run (%d of %d)' % (ctx.nd('states'), len(tasks)))
    ctx.require(ctx.n('family:names') >= 300, 'family names too small (%d)' % ctx.n('family:names'))
    for lay in (ELIF_LAYOUTS if ctx.prop.lower() == 'c05' else ()):
        ctx.require(ctx.n('layout:' + lay) >= 100 or ctx.caps_hit, 'layout %s hardly used (%d)' % (lay, ctx.n('layout:' + lay)))
    for fam in ('statements', 'expressions', 'sequences', 'nesting'):
        ctx.require(ctx.n('family:' + fam) >= 500, 'family %s too small (%d)' % (fam, ctx.n('family:' + fam)))


def run(ctx):
    tasks, _ = run_engine(ctx, task_fn)
    guards(ctx, tasks)
    for t in tasks[:: max(1, len(tasks) // 4)][:4]:
        full, printed, _ = H.complete(t['stmts'], t['home'])
        from mc.refs import oalast
        ctx.sample(dict(family=t['family'], home=t['home'], text=oalast.assemble(printed)[0]))


def replay(ctx, case):
    task = dict(family=case['family'], stmts=case['stmts'], home=case['home'], entry=case.get('entry', 'action'),
                layout=case.get('layout', 'default'))
    H.c05_run(ctx, task)


def sizes(ctx, prefix):
    ks = [int(k.split(':')[1]) for k in ctx.counts if k.startswith(prefix + ':')]
    return max(ks) if ks else 0


def coverage(ctx):
    return dict(
        states=ctx.nd('states'),
        transitions=ctx.n('translations'),
        traces_validated_against_impl=ctx.n('traces'),
        evaluations=ctx.n('translations') + ctx.n('parses'),
        distinct_nontrivial=ctx.nd('nontrivial'),
        distinct_programs=ctx.nd('programs'),
        per_home=dict((h, ctx.nd('home:' + h)) for h in H.HOMES),
        per_family=dict((k.split(':')[1], v) for k, v in ctx.counts.items() if k.startswith('family:')),
        entry_points=dict(prebuild_action=ctx.n('entry:action'), prebuild_model=ctx.n('entry:model')),
        features_exercised=ctx.nd('features'),
        max_statements_per_program=sizes(ctx, 'statements'), max_block_depth=sizes(ctx, 'depth'),
        rule='states = distinct (program, home) pairs translated; transitions = prebuild + generate runs (two per state: the original '
             'text and the generated text, each in a fresh host); a trace is validated when the generated text parses to the tree of the '
             'program and regenerates identically; non-trivial = programs with at least two statements or a nested block',
        bounds=ctx.notes.get('bounds'),
        exhaustive=not ctx.caps_hit,
    )
