'''
C15 -- callable model elements behave as their OAL bodies specify.

E2 over call systems: a BridgePoint model (functions f, g, h; class A with an
instance operation, a class operation and a derived attribute; external entity
EE with a bridge; enumeration Color chained by R56; constant TEN) is
synthesised through the ooaofooa API for every assignment of bodies from the
body menus, turned into a component by ooaofooa.mk_component (and, for the
row-order part, serialised to text, permuted, and loaded through
ModelLoader.input + build_component), and every entry call -- from python and
from an OAL caller -- is compared with the reference evaluator.

The model also holds constants modeled as 0, false, "" and 0.0 (read from python
and, by their bare names, in OAL expressions, conditions, where clauses and
arguments) and a class C whose operations count (instance based, recursive
through self) and total (class based) are named like attributes of the class;
they are invoked from OAL expressions, statements, where clauses, loop
conditions, other operations, and from python.

Every slot with parameters also has bodies that write a local / loop /
selection / creation variable named like one of their own parameters and read
param.<name> afterwards (also behind a recursive invocation); they are explored
as single deviations from the default assignment.  An external entity CALC has
six bridges with different bodies, signatures and return forms (value, bare
return behind a side effect, boolean, string, invocations of a sibling bridge);
each is invoked from python (in both orders) and from OAL expressions,
`bridge x = ...` / `bridge ...` statements, a where clause and a loop condition.

Parameter-name family: for every name the library's own functions use (parameters,
variables, attributes, globals of bridgepoint.interpret / bridgepoint.ooaofooa, read
from their code objects), python keywords, conventional python names and the names of
the model -- as far as OAL accepts them behind `param.` -- a function, a bridge, a
class-based and an instance-based operation with a parameter of that name are invoked
from python by keyword and from OAL.

Shadow family: bodies (function, bridge, operations, derived attribute) write a variable
spelled like a domain symbol (function, constant, enumeration, external entity, class);
step sequences over their invocation, the read of the symbol from python, from an OAL
function, and from an OAL function that reads, invokes and reads again, run on one
component; the symbol must stay what was modeled.

History family: for every body of the derived attribute (total ones and
partial ones that are erroneous on some populations) every executable sequence
of HIST_LEN steps over {python read, read by an OAL function, create, write N,
delete} runs on one component; every read the reference accepts must deliver
the value computed from the data at that moment, also after reads that were
rejected because the body was erroneous on the data of that moment.
'''
import itertools

from mc import core
from mc.refs import relmodel, oalast as A, oaleval as E

NEEDS_BRIDGEPOINT = True
BUDGET_S = {'quick': 3600, 'thorough': 14400}
ASSUMPTIONS = [
    'derived attribute bodies use the dialect of the repository tests ("self.<attr> = <expr>;")',
    'constants are read by their bare name (the form mk_component registers); enumerators as <Enum>::<name>',
    'operands of a binary operation are evaluated left to right (an attribute read to the left of a call that writes the attribute '
    'delivers the value before the call)',
    'two-component family: the entries are run on a component while a component of another model, built after it, is alive; '
    'callables, external entities, enumerations, constants and created instances must be those of the component they are used on',
    'programs the reference rejects (diverging recursion within depth/fuel, ill-typed) are skipped and counted',
    'a constant reads as its modeled value whatever that value is (0, false, the empty string and 0.0 are values like any other)',
    'an attribute and an operation of one class may have the same name: `c.count` reads the attribute, `c.count(by: 1)` invokes the '
    'instance-based operation with self bound to c, `C::total(k: 1)` the class-based one; from python the attribute value is what '
    'the instance delivers under that name and the operation is reached through the class (type(c).count(c, by=1))',
    'the entries over constants and class C (no body slot varies them) run on the default call system and on every single deviation '
    'from it, with a second component alive, and on the permuted model texts',
    '`param.x` designates the parameter x of the running invocation for the whole invocation; a variable x of the body (assigned, '
    'loop variable, selection or creation result) is another thing, and writing it leaves param.x as it was passed',
    'every bridge of an external entity runs its own body, whatever the number and order of the bridges of that entity; extra bridges '
    'are invoked with exactly their own parameters',
    'parameter names: a modeled parameter may carry any name that OAL accepts behind `param.` -- in particular every name of a '
    'parameter, variable, attribute or global that the functions of bridgepoint.interpret and bridgepoint.ooaofooa of the tree '
    'under test use themselves (taken from their code objects), python keywords and conventional python names, and the names of '
    'the model; for each such name a function (recursive), a bridge, a class-based and an instance-based operation with a parameter '
    'of that name (integer, string, boolean) are invoked from python by keyword (both keyword orders) and from an OAL body.  Kept '
    'out: a class-based operation with a parameter named `cls` (the unmodified library raises TypeError, reported in round 11)',
    'variables spelled like domain symbols: a variable of a body is another thing than the function, constant, enumeration, '
    'external entity or class of the same spelling; writing it (assignment, also inside a nested block or from the constant of '
    'that name, selection result, loop variable, creation result; in a function, bridge, operation or derived attribute) leaves the '
    'symbol as modeled for the caller, for later invocations and for python.  Inside the body that wrote the variable the symbol is '
    'not used in its modeled role afterwards (what the name denotes there is not compared)',
    'histories: a read of a derived attribute whose body is erroneous on the current data (attribute access through an empty '
    'selection, division by zero in a nested call) has no defined outcome -- it is performed and whatever it delivers or raises is '
    'ignored; every read the reference accepts, before or after such a rejected read, must deliver the value computed from the '
    'data at the time of that read',
]

V = lambda n: ('var', n)
I = lambda n: ('int', str(n))
P = lambda n: ('param', n)
B = lambda op, l, r: ('bin', op, l, r)
ASG = lambda lhs, rhs: ('assign', lhs, rhs, False)
RET = lambda e: ('return', e)
F_ = lambda name, **kw: ('fcall', name, sorted(kw.items()))
SELF = ('self',)
SF = lambda n: ('field', SELF, n)
IF = lambda c, blk, elifs=(), els=None: ('if', c, list(blk), [(ec, list(eb)) for ec, eb in elifs], els, [False] * (1 + len(elifs)))

SCHEMA = relmodel.Schema('c15', [('A', [('Id', 'unique_id'), ('N', 'integer'), ('Name', 'string')]),
                                 # class C: every operation has the name of an attribute of the class
                                 ('C', [('Id', 'unique_id'), ('count', 'integer'), ('total', 'integer')])],
                        [], [('A', 'I1', ['Id']), ('C', 'I1', ['Id'])])

# ---- body menus -------------------------------------------------------------
BODIES = {
    'f': [   # f(n: integer)
        ('F1', [RET(B('+', P('n'), I(1)))]),
        ('F2', [IF(B('<=', P('n'), I(0)), [RET(I(0))]), RET(B('+', P('n'), F_('f', n=B('-', P('n'), I(1)))))]),
        ('F3', [ASG(V('x'), P('n')), ASG(V('y'), F_('g', n=V('x'), m=I(2))), RET(B('+', B('*', V('x'), I(100)), V('y')))]),
        ('F4', [ASG(V('i'), I(0)), ASG(V('t'), I(0)),
                ('while', B('<', V('i'), P('n')), [ASG(V('i'), B('+', V('i'), I(1))),
                                                   IF(B('==', V('i'), I(2)), [RET(B('+', B('*', V('t'), I(10)), V('i')))]),
                                                   ASG(V('t'), B('+', V('t'), V('i')))], True),
                RET(V('t'))]),
        ('F5', [ASG(V('x'), P('n')), ('return', None)]),
        ('F6', [ASG(V('x'), P('n'))]),
        ('F7', [RET(F_('h', b=B('>', P('n'), I(0)), n=P('n')))]),
        ('F8', [IF(B('<=', P('n'), I(0)), [RET(I(0))]), RET(B('+', I(1), F_('g', n=B('-', P('n'), I(1)), m=I(0))))]),
        ('F9', [('selfrom', 'many', 'as_', 'A', None, True),
                ('foreach', 'a', 'as_', [IF(B('==', ('field', V('a'), 'N'), P('n')), [RET(('field', V('a'), 'N'))])], True),
                RET(B('-', I(0), I(1)))]),
        # a local variable / loop variable / selection variable named like the parameter is another thing than param.n
        # (single deviations only, see SINGLE_ONLY); F10 recursive: param.n is read after the variable was written and after the nested call
        ('F10', [ASG(V('n'), B('-', P('n'), I(1))), IF(B('<', V('n'), I(0)), [RET(I(0))]),
                 ASG(V('r'), F_('f', n=V('n'))), RET(B('+', B('+', B('*', V('r'), I(100)), B('*', P('n'), I(10))), V('n')))]),
        ('F11', [('selfrom', 'many', 'as_', 'A', None, True), ASG(V('t'), I(0)),
                 ('foreach', 'n', 'as_', [ASG(V('t'), B('+', B('+', V('t'), ('field', V('n'), 'N')), P('n')))], True),
                 ('selfrom', 'any', 'n', 'A', B('==', ('field', ('selected',), 'N'), P('n')), True),
                 IF(('un', 'not_empty', V('n')), [ASG(V('t'), B('+', V('t'), I(500)))]),
                 RET(B('+', B('*', V('t'), I(10)), P('n')))]),
    ],
    'g': [   # g(n: integer, m: integer)
        ('G1', [ASG(V('x'), B('*', P('n'), I(2))), ASG(V('y'), P('m')), RET(B('+', V('x'), V('y')))]),
        ('G2', [RET(B('+', F_('f', n=P('m')), P('n')))]),
        ('G3', [IF(B('<=', P('n'), I(0)), [RET(I(0))]), RET(B('+', I(1), F_('f', n=B('-', P('n'), I(1)))))]),
        ('G4', [RET(B('-', P('m'), P('n')))]),
        ('G5', [RET(B('/', P('m'), P('n')))]),          # partial: only in the history family (see N_PRODUCT)
        # variables named like both parameters, each written with the value of the other parameter (single deviation only)
        ('G6', [ASG(V('m'), P('n')), ASG(V('n'), B('+', P('m'), I(5))),
                RET(B('+', B('+', B('*', V('n'), I(1000)), B('*', V('m'), I(100))), B('+', B('*', P('n'), I(10)), P('m'))))]),
    ],
    'h': [   # h(b: boolean, n: integer)
        ('H1', [IF(P('b'), [RET(P('n'))], [], [RET(B('-', I(0), P('n')))])]),
        ('H2', [('selfrom', 'many', 'as_', 'A', B('==', ('field', ('selected',), 'N'), F_('f', n=P('n'))), True),
                RET(('un', 'cardinality', V('as_')))]),
        ('H3', [ASG(V('i'), I(0)), ('while', B('<', V('i'), F_('g', n=I(1), m=I(1))), [ASG(V('i'), B('+', V('i'), I(1)))], True),
                RET(V('i'))]),
        # a boolean and an integer variable named like the parameters, written inside a loop (single deviation only)
        ('H4', [ASG(V('b'), ('un', 'not', P('b'))), ASG(V('n'), I(0)),
                ('while', B('<', V('n'), I(3)), [ASG(V('n'), B('+', V('n'), I(1))), ASG(V('b'), ('un', 'not', V('b')))], True),
                IF(P('b'), [RET(B('+', B('*', V('n'), I(10)), P('n')))]),
                IF(V('b'), [RET(B('-', I(0), P('n')))]), RET(B('-', I(0), V('n')))]),
    ],
    'op': [  # A.op(k: integer), instance based
        ('O1', [RET(B('+', SF('N'), P('k')))]),
        ('O2', [ASG(SF('N'), B('+', SF('N'), P('k'))), RET(SF('N'))]),
        ('O3', [RET(B('+', F_('f', n=SF('N')), SF('D')))]),
        ('O4', [ASG(V('x'), I(7)), ASG(V('y'), F_('g', n=V('x'), m=P('k'))), RET(B('+', B('*', V('x'), I(1000)), V('y')))]),
        # re-entrant: the same operation on another instance; param and self are used AFTER the nested call
        ('O5', [('selfrom', 'any', 'o', 'A', B('==', ('field', ('selected',), 'N'), B('+', SF('N'), I(1))), True),
                IF(('un', 'empty', V('o')), [RET(P('k'))]),
                ASG(V('r'), ('icall', V('o'), 'op', [('k', B('+', P('k'), I(1)))])),
                RET(B('+', B('+', B('*', V('r'), I(100)), B('*', SF('N'), I(10))), P('k')))]),
        ('O6', [('selfrom', 'any', 'o', 'A', B('==', ('field', ('selected',), 'N'), B('+', SF('N'), I(1))), True),
                IF(('un', 'not_empty', V('o')), [ASG(V('r'), ('icall', V('o'), 'op', [('k', I(5))]))]),
                ASG(SF('N'), B('+', SF('N'), P('k')))]),     # executes no return after a nested call that returned a value
        # an attribute read to the LEFT of a call that writes that attribute (operands are evaluated left to right)
        ('O7', [IF(B('<=', P('k'), I(0)), [RET(SF('N'))]), ASG(SF('N'), B('+', SF('N'), I(1))),
                RET(B('+', SF('N'), B('*', ('icall', SELF, 'op', [('k', B('-', P('k'), I(1)))]), I(100))))]),
        # a variable named like the parameter, written before a recursive invocation through self (single deviation only)
        ('O8', [IF(B('<=', P('k'), I(0)), [RET(SF('N'))]), ASG(V('k'), B('-', P('k'), I(1))),
                ASG(V('r'), ('icall', SELF, 'op', [('k', V('k'))])),
                RET(B('+', B('+', B('*', V('r'), I(100)), B('*', P('k'), I(10))), V('k')))]),
    ],
    'cop': [  # A.cop(k: integer), class based
        ('C1', [RET(B('*', P('k'), I(2)))]),
        ('C2', [('selfrom', 'any', 'a', 'A', None, True), IF(('un', 'empty', V('a')), [RET(B('-', I(0), I(1)))]),
                RET(('icall', V('a'), 'op', [('k', P('k'))]))]),
        ('C3', [('create', 'a', 'A'), ASG(('field', V('a'), 'N'), P('k')), RET(('field', V('a'), 'N'))]),
        ('C4', [IF(B('<=', P('k'), I(1)), [RET(I(1))]), RET(B('*', ('ncall', 'A', 'cop', [('k', B('-', P('k'), I(1)))]), P('k')))]),
        # an instance created into a variable named like the parameter (single deviation only)
        ('C5', [('create', 'k', 'A'), ASG(('field', V('k'), 'N'), B('+', P('k'), I(10))),
                RET(B('+', B('*', ('field', V('k'), 'N'), I(100)), P('k')))]),
    ],
    'D': [   # derived attribute A.D: expression assigned to self.D
        ('D1', B('*', SF('N'), I(2))),
        ('D2', F_('f', n=SF('N'))),
        ('D3', 'count-all'),
        ('D4', 'chain-depth'),    # depth along instances ordered by N: reads the same-named attribute of another instance      # select many as_ from instances of A; self.D = cardinality as_ + self.N;
        # partial bodies (erroneous on some populations); only in the history family (see N_PRODUCT)
        ('D5', 'needs-successor'),   # select any o from instances of A where (selected.N == self.N + 1); self.D = o.N * 10 + self.N;
        ('D6', F_('g', n=SF('N'), m=I(12))),     # with g = G5: 12 / self.N computed in a nested function call
    ],
    'b': [   # EE::b(p: integer)
        ('B1', [RET(B('+', P('p'), I(1)))]),
        ('B2', [RET(F_('f', n=P('p')))]),
        ('B3', [ASG(V('x'), P('p')), RET(('ncall', 'A', 'cop', [('k', V('x'))]))]),
        # a variable named like the parameter, written twice (single deviation only)
        ('B4', [ASG(V('p'), B('+', P('p'), I(1))), ASG(V('p'), B('*', V('p'), I(2))), RET(B('+', B('*', V('p'), I(100)), P('p')))]),
    ],
}
# class C (fixed bodies).  count and total are attributes AND operations of the class: `c.count` reads the attribute,
# `c.count(by: 1)` invokes the instance-based operation, `C::total(k: 1)` the class-based one.
IC = lambda h, name, **kw: ('icall', h, name, sorted(kw.items()))
C_BODIES = {
    # count(by): add 1 to the attribute count `by` times (recursive call through self), deliver the attribute
    'count': [IF(B('<=', P('by'), I(0)), [RET(SF('count'))]), ASG(SF('count'), B('+', SF('count'), I(1))),
              ASG(V('x'), B('-', P('by'), I(1))), ASG(V('r'), IC(SELF, 'count', by=V('x'))),
              IF(B('!=', V('x'), B('-', P('by'), I(1))), [RET(B('-', I(0), I(1)))]), RET(V('r'))],
    # total(k): class based; reads the attributes total and count and invokes count on every instance
    'total': [('selfrom', 'many', 'cs', 'C', None, True), ASG(V('t'), P('k')),
              ('foreach', 'c', 'cs', [ASG(V('t'), B('+', B('+', V('t'), ('field', V('c'), 'total')), B('*', IC(V('c'), 'count', by=I(0)), I(10))))], True),
              RET(V('t'))],
    # bump(by): no attribute of this name; invokes count as a statement and inside an expression
    'bump': [('call', None, IC(SELF, 'count', by=P('by'))), RET(B('+', B('*', SF('count'), I(100)), IC(SELF, 'count', by=I(0))))],
}
C_PARAMS = {'count': [('by', 'integer')], 'total': [('k', 'integer')], 'bump': [('by', 'integer')]}
C_INSTANCE_BASED = {'count': True, 'total': False, 'bump': True}
# constants; the last four are modeled with the values python takes as false
CONSTANTS = [('TEN', 'integer', '10', 10), ('GREETING', 'string', 'hello', 'hello'), ('YES', 'boolean', 'true', True), ('HALF', 'real', '0.5', 0.5),
             ('ZERO', 'integer', '0', 0), ('NO', 'boolean', 'false', False), ('BLANK', 'string', '', ''), ('NIL', 'real', '0.0', 0.0)]
B2_BODY = [RET(B('+', P('p'), I(100)))]          # EE2::b
FB_BODY = [RET(B('+', P('p'), I(1000)))]         # ::b
FB_TWIN_BODY = [RET(B('+', P('p'), I(7000)))]    # ::B -- a function whose name differs from ::b in letter case only (round 8, C15-15)
# external entity CALC (fixed bodies): several bridges with different bodies, parameters and return forms -- a value, a bare
# return behind a side effect, a boolean, invocations of a sibling bridge; the bridge without side effect comes last
NC = lambda ee, name, **kw: ('ncall', ee, name, sorted(kw.items()))
CALC_BRIDGES = [
    ('inc', [('p', 'integer')], 'integer', [RET(B('+', P('p'), I(1)))]),
    ('note', [('p', 'integer')], 'void', [('create', 'a', 'A'), ASG(('field', V('a'), 'N'), P('p')), ASG(('field', V('a'), 'Name'), ('str', 'note')),
                                          ('return', None)]),
    ('flag', [('p', 'integer')], 'boolean', [RET(B('>', P('p'), I(1)))]),
    ('twice', [('p', 'integer')], 'integer', [('callassign', 'bridge', V('x'), NC('CALC', 'inc', p=P('p'))),
                                              RET(B('+', B('*', V('x'), I(10)), NC('CALC', 'inc', p=V('x'))))]),
    ('label', [('who', 'string'), ('p', 'integer')], 'string', [IF(B('>', P('p'), I(0)), [RET(B('+', ('str', 'hello '), P('who')))]), RET(P('who'))]),
    ('same', [('p', 'integer')], 'integer', [RET(P('p'))]),
]
PARAMS = {'f': [('n', 'integer')], 'g': [('n', 'integer'), ('m', 'integer')], 'h': [('b', 'boolean'), ('n', 'integer')],
          'op': [('k', 'integer')], 'cop': [('k', 'integer')], 'b': [('p', 'integer')]}
ENUM = ['Red', 'Green', 'Blue']
SLOTS = ['f', 'g', 'h', 'op', 'cop', 'D', 'b']
# number of leading bodies of a slot that take part in the call systems of systems(); the bodies behind them are partial
# (erroneous for some data) and are explored by the history family only
N_PRODUCT = {'g': 4, 'D': 4}
# bodies that take part in the call systems as single deviations from the default assignment only (both tiers): a local /
# loop / selection / creation variable named like a parameter of the body
SINGLE_ONLY = {'f': ['F10', 'F11'], 'g': ['G6'], 'h': ['H4'], 'op': ['O8'], 'cop': ['C5'], 'b': ['B4']}


def product_size(slot):
    """Number of leading bodies of the slot that take part in the product of call systems."""
    n = N_PRODUCT.get(slot, len(BODIES[slot]))
    return min([n] + [i for i, (label, _) in enumerate(BODIES[slot]) if label in SINGLE_ONLY.get(slot, ())])


def single_only_systems():
    base = dict((s, 0) for s in SLOTS)
    return [dict(base, **{s: i}) for s in SLOTS for i, (label, _) in enumerate(BODIES[s]) if label in SINGLE_ONLY.get(s, ())]


def derived_statements(name, derived, as_return=False):
    if derived == 'count-all':
        e = B('+', ('un', 'cardinality', V('as_')), SF('N'))
        return [('selfrom', 'many', 'as_', 'A', None, True), RET(e) if as_return else ASG(SF(name), e)]
    if derived == 'needs-successor':
        sel = ('selfrom', 'any', 'o', 'A', B('==', ('field', ('selected',), 'N'), B('+', SF('N'), I(1))), True)
        e = B('+', B('*', ('field', V('o'), 'N'), I(10)), SF('N'))
        return [sel, RET(e) if as_return else ASG(SF(name), e)]
    if derived == 'chain-depth':
        other = ('field', V('o'), name)
        sel = ('selfrom', 'any', 'o', 'A', B('==', ('field', ('selected',), 'N'), B('-', SF('N'), I(1))), True)
        if as_return:
            return [sel, IF(('un', 'empty', V('o')), [RET(I(0))]), RET(B('+', other, I(1)))]
        return [sel, IF(('un', 'empty', V('o')), [ASG(SF(name), I(0))], [], [ASG(SF(name), B('+', other, I(1)))])]
    return [RET(derived) if as_return else ASG(SF(name), derived)]


def body_text(stmts):
    return A.assemble(A.print_program(stmts))[0]


def systems(tier):
    '''Assignments slot -> body index.  quick: all single deviations from the default assignment plus the product of a sub-menu;
    thorough: the full product.'''
    sizes = [product_size(s) for s in SLOTS]
    if tier == 'thorough':
        return [dict(zip(SLOTS, combo)) for combo in itertools.product(*[range(n) for n in sizes])] + single_only_systems()
    out = []
    seen = set()

    def add(d):
        k = tuple(d[s] for s in SLOTS)
        if k not in seen:
            seen.add(k)
            out.append(d)
    base = dict((s, 0) for s in SLOTS)
    add(base)
    for s, n in zip(SLOTS, sizes):
        for i in range(n):
            add(dict(base, **{s: i}))
    sub = dict(f=[1, 2, 7], g=[0, 2], h=[0, 1], op=[2, 4], cop=[1, 3], D=[2, 3], b=[1, 2])
    for combo in itertools.product(*[sub[s] for s in SLOTS]):
        add(dict(zip(SLOTS, combo)))
    for d in single_only_systems():
        add(d)
    return out


# ---- the BridgePoint model -----------------------------------------------------

_base_loader = None


def base_loader():
    global _base_loader
    if _base_loader is None:
        from bridgepoint import ooaofooa
        _base_loader = ooaofooa.ModelLoader()
    return _base_loader


def build_bp_model(system):
    '''ooaofooa metamodel populated through the API for one assignment of bodies.'''
    import xtuml
    from xtuml import relate, where_eq as where
    m = base_loader().build_metamodel()
    dt = lambda name: m.select_any('S_DT', where(Name=name))
    pkg = m.new('EP_PKG', Name='P')
    relate(m.new('PE_PE'), pkg, 8001)

    def pe(inst):
        p = m.new('PE_PE')
        relate(p, inst, 8001)
        relate(p, pkg, 8000)
        return inst
    # class A
    o_obj = pe(m.new('O_OBJ', Name='A', Key_Lett='A', Numb=1))
    prev = None
    attrs = {}
    for name, ty, derived in (('Id', 'unique_id', None), ('N', 'integer', None), ('Name', 'string', None),
                              ('D', 'integer', BODIES['D'][system['D']][1])):
        o_attr = m.new('O_ATTR', Name=name, Root_Nam=name)
        relate(o_attr, o_obj, 102)
        relate(o_attr, dt(ty), 114)
        o_battr = m.new('O_BATTR')
        relate(o_battr, o_attr, 106)
        if derived is None:
            relate(m.new('O_NBATTR'), o_battr, 107)
        else:
            text = body_text(derived_statements(name, derived))
            relate(m.new('O_DBATTR', Action_Semantics_internal=text, Suc_Pars=1), o_battr, 107)
        if prev is not None:
            relate(o_attr, prev, 103, 'succeeds')
        prev = o_attr
        attrs[name] = o_attr
    o_id = m.new('O_ID', Oid_ID=0)
    relate(o_id, o_obj, 104)
    o_oida = m.new('O_OIDA', localAttributeName='Id')
    relate(o_oida, o_id, 105)
    relate(o_oida, attrs['Id'], 105)
    # operations
    prev = None
    for slot, name, inst_based in (('op', 'op', True), ('cop', 'cop', False)):
        o_tfr = m.new('O_TFR', Name=name, Instance_Based=inst_based, Suc_Pars=1,
                      Action_Semantics_internal=body_text(BODIES[slot][system[slot]][1]))
        relate(o_tfr, o_obj, 115)
        relate(o_tfr, dt('integer'), 116)
        if prev is not None:
            relate(o_tfr, prev, 125, 'succeeds')
        prev = o_tfr
        pp = None
        for pname, pty in PARAMS[slot]:
            o_tparm = m.new('O_TPARM', Name=pname)
            relate(o_tparm, o_tfr, 117)
            relate(o_tparm, dt(pty), 118)
            if pp is not None:
                relate(o_tparm, pp, 124, 'succeeds')
            pp = o_tparm
    # class C: attributes count, total; operations count (instance based), total (class based), bump (instance based)
    c_obj = pe(m.new('O_OBJ', Name='C', Key_Lett='C', Numb=2))
    prev = None
    c_attrs = {}
    for name, ty in (('Id', 'unique_id'), ('count', 'integer'), ('total', 'integer')):
        o_attr = m.new('O_ATTR', Name=name, Root_Nam=name)
        relate(o_attr, c_obj, 102)
        relate(o_attr, dt(ty), 114)
        o_battr = m.new('O_BATTR')
        relate(o_battr, o_attr, 106)
        relate(m.new('O_NBATTR'), o_battr, 107)
        if prev is not None:
            relate(o_attr, prev, 103, 'succeeds')
        prev = o_attr
        c_attrs[name] = o_attr
    c_id = m.new('O_ID', Oid_ID=0)
    relate(c_id, c_obj, 104)
    c_oida = m.new('O_OIDA', localAttributeName='Id')
    relate(c_oida, c_id, 105)
    relate(c_oida, c_attrs['Id'], 105)
    prev = None
    for name in ('count', 'total', 'bump'):
        o_tfr = m.new('O_TFR', Name=name, Instance_Based=C_INSTANCE_BASED[name], Suc_Pars=1,
                      Action_Semantics_internal=body_text(C_BODIES[name]))
        relate(o_tfr, c_obj, 115)
        relate(o_tfr, dt('integer'), 116)
        if prev is not None:
            relate(o_tfr, prev, 125, 'succeeds')
        prev = o_tfr
        for pname, pty in C_PARAMS[name]:
            o_tparm = m.new('O_TPARM', Name=pname)
            relate(o_tparm, o_tfr, 117)
            relate(o_tparm, dt(pty), 118)
    # functions
    for slot in ('f', 'g', 'h'):
        s_sync = pe(m.new('S_SYNC', Name=slot, Suc_Pars=1, Action_Semantics_internal=body_text(BODIES[slot][system[slot]][1])))
        relate(s_sync, dt('integer'), 25)
        pp = None
        for pname, pty in PARAMS[slot]:
            s_sparm = m.new('S_SPARM', Name=pname)
            relate(s_sparm, s_sync, 24)
            relate(s_sparm, dt(pty), 26)
            if pp is not None:
                relate(s_sparm, pp, 54, 'succeeds')
            pp = s_sparm
    # caller function used for the OAL-side entries (body replaced per entry)
    pe(m.new('S_SYNC', Name='main', Suc_Pars=1, Action_Semantics_internal=''))
    # external entity + bridge
    s_ee = pe(m.new('S_EE', Name='EE', Key_Lett='EE'))
    s_brg = m.new('S_BRG', Name='b', Suc_Pars=1, Action_Semantics_internal=body_text(BODIES['b'][system['b']][1]))
    relate(s_brg, s_ee, 19)
    relate(s_brg, dt('integer'), 20)
    s_bparm = m.new('S_BPARM', Name='p')
    relate(s_bparm, s_brg, 21)
    relate(s_bparm, dt('integer'), 22)
    # same-named callables elsewhere: a bridge b in a second external entity and a function b
    s_ee2 = pe(m.new('S_EE', Name='EE2', Key_Lett='EE2'))
    s_brg2 = m.new('S_BRG', Name='b', Suc_Pars=1, Action_Semantics_internal=body_text(B2_BODY))
    relate(s_brg2, s_ee2, 19)
    relate(s_brg2, dt('integer'), 20)
    s_bparm2 = m.new('S_BPARM', Name='p')
    relate(s_bparm2, s_brg2, 21)
    relate(s_bparm2, dt('integer'), 22)
    # an external entity with several bridges
    s_ee3 = pe(m.new('S_EE', Name='CALC', Key_Lett='CALC'))
    for name, params, rty, body in CALC_BRIDGES:
        brg = m.new('S_BRG', Name=name, Suc_Pars=1, Action_Semantics_internal=body_text(body))
        relate(brg, s_ee3, 19)
        relate(brg, dt(rty), 20)
        for pname, pty in params:
            bp_ = m.new('S_BPARM', Name=pname)
            relate(bp_, brg, 21)
            relate(bp_, dt(pty), 22)
    fb = pe(m.new('S_SYNC', Name='b', Suc_Pars=1, Action_Semantics_internal=body_text(FB_BODY)))
    relate(fb, dt('integer'), 25)
    fbp = m.new('S_SPARM', Name='p')
    relate(fbp, fb, 24)
    relate(fbp, dt('integer'), 26)
    fb2 = pe(m.new('S_SYNC', Name='B', Suc_Pars=1, Action_Semantics_internal=body_text(FB_TWIN_BODY)))
    relate(fb2, dt('integer'), 25)
    fbp2 = m.new('S_SPARM', Name='p')
    relate(fbp2, fb2, 24)
    relate(fbp2, dt('integer'), 26)
    # enumeration Color chained by R56
    s_dt = pe(m.new('S_DT', Name='Color'))
    s_edt = m.new('S_EDT')
    relate(s_edt, s_dt, 17)
    prev = None
    for name in ENUM:
        s_enum = m.new('S_ENUM', Name=name)
        relate(s_enum, s_edt, 27)
        if prev is not None:
            relate(s_enum, prev, 56, 'succeeds')
        prev = s_enum
    # constants
    csp = pe(m.new('CNST_CSP', InformalGroupName='K'))
    prev = None
    for name, ty, value, _ in CONSTANTS:
        syc = m.new('CNST_SYC', Name=name)
        relate(syc, csp, 1504)
        relate(syc, dt(ty), 1500)
        lfsc = m.new('CNST_LFSC')
        relate(lfsc, syc, 1502)
        lsc = m.new('CNST_LSC', Value=value)
        relate(lsc, lfsc, 1503)
        if prev is not None:
            relate(syc, prev, 1505, 'succeeds')
        prev = syc
    return m


def reference_callables(system):
    functions = dict((s, E.Callable(s, PARAMS[s], BODIES[s][system[s]][1])) for s in ('f', 'g', 'h'))
    operations = {('A', 'op'): E.Callable('op', PARAMS['op'], BODIES['op'][system['op']][1], kind='operation', owner='A'),
                  ('A', 'cop'): E.Callable('cop', PARAMS['cop'], BODIES['cop'][system['cop']][1], kind='class_operation', owner='A')}
    for name in C_BODIES:
        operations[('C', name)] = E.Callable(name, C_PARAMS[name], C_BODIES[name], owner='C',
                                             kind='operation' if C_INSTANCE_BASED[name] else 'class_operation')
    bridges = {('EE', 'b'): E.Callable('b', PARAMS['b'], BODIES['b'][system['b']][1], kind='bridge'),
               ('EE2', 'b'): E.Callable('b', PARAMS['b'], B2_BODY, kind='bridge')}
    for name, params, _, body in CALC_BRIDGES:
        bridges[('CALC', name)] = E.Callable(name, params, body, kind='bridge')
    functions['b'] = E.Callable('b', PARAMS['b'], FB_BODY)
    functions['B'] = E.Callable('B', PARAMS['b'], FB_TWIN_BODY)
    derived = {('A', 'D'): E.Callable('D', [], derived_statements('D', BODIES['D'][system['D']][1], as_return=True), kind='derived', owner='A')}
    return dict(functions=functions, operations=operations, bridges=bridges, derived=derived,
                enums={'Color': list(ENUM)}, constants=dict((name, value) for name, _, _, value in CONSTANTS))


# ---- entries ---------------------------------------------------------------------

def entries():
    '''(name, population [N values of A instances], kind, payload)'''
    out = []
    pops = [[], [2, 0]]
    for pop in pops:
        for n in (0, 1, 2):
            out.append(('py:f(%d)' % n, pop, 'pyfunc', ('f', dict(n=n))))
        out.append(('py:g(n=1,m=2)', pop, 'pyfunc', ('g', dict(n=1, m=2))))
        out.append(('py:g(m=2,n=1) permuted', pop, 'pyfunc', ('g', dict(m=2, n=1))))
        out.append(('py:h(True,2)', pop, 'pyfunc', ('h', dict(b=True, n=2))))
        out.append(('py:h(False,1)', pop, 'pyfunc', ('h', dict(n=1, b=False))))
        out.append(('py:cop(1)', pop, 'pycop', dict(k=1)))
        out.append(('py:EE.b(1)', pop, 'pybridge', dict(p=1)))
    out.append(('py:op(1) on first of a chain', [1, 2, 3], 'pyop', (0, dict(k=1))))
    out.append(('py:cop(3)', [1, 2], 'pycop', dict(k=3)))
    out.append(('py:D of the last of a chain', [0, 1, 2], 'pyderived', 2))
    out.append(('py:op(1) on first', [2, 0], 'pyop', (0, dict(k=1))))
    out.append(('py:op(2) on second', [2, 1], 'pyop', (1, dict(k=2))))
    out.append(('py:D read, write N, read again', [2, 0], 'pyderived', 0))
    out.append(('py:enumerators and constants', [], 'pysymbols', None))
    out.append(('py:D read, other instance created, read again', [2, 0], 'pyderived_other', 0))
    for order in ((0, 1, 2), (2, 1, 0), (1, 2, 0)):
        out.append(('py:same-named callables %s' % (order,), [], 'pysamename', order))
    for order in ((0, 1), (1, 0)):
        out.append(('py:functions b and B %s' % (order,), [], 'pycasetwin', order))
    # OAL callers: caller variables must survive the call; calls in expressions, by-name in permuted order
    callers = [
        ('oal:functions b and B', [RET(B('+', B('*', ('fcall', 'B', [('p', I(1))]), I(3)), ('fcall', 'b', [('p', I(1))])))]),
        ('oal:functions B and b', [ASG(V('x'), ('fcall', 'b', [('p', I(2))])), ASG(V('y'), ('fcall', 'B', [('p', I(2))])),
                                   RET(B('-', V('y'), V('x')))]),
        ('oal:call in expression', [ASG(V('x'), I(5)), ASG(V('y'), F_('f', n=I(2))), ASG(V('i'), I(3)), ASG(V('t'), I(4)),
                                    RET(B('+', B('+', B('*', V('x'), I(1000)), B('*', V('i'), I(100))), B('+', B('*', V('t'), I(10)), V('y'))))]),
        ('oal:permuted parameters', [RET(B('-', ('fcall', 'g', [('m', I(5)), ('n', I(1))]), ('fcall', 'g', [('n', I(1)), ('m', I(5))])))]),
        ('oal:nested calls', [RET(F_('f', n=F_('g', n=F_('f', n=I(1)), m=I(0))))]),
        ('oal:operation', [('selfrom', 'any', 'a', 'A', None, True), ASG(V('x'), I(9)),
                           ASG(V('r'), ('icall', V('a'), 'op', [('k', I(1))])), RET(B('+', B('*', V('x'), I(1000)), V('r')))]),
        ('oal:attribute read left of a call writing it', [('selfrom', 'any', 'a', 'A', None, True),
                                                           RET(B('+', ('field', V('a'), 'N'), B('*', ('icall', V('a'), 'op', [('k', I(1))]), I(1000))))]),
        ('oal:derived read left of a call writing its source', [('selfrom', 'any', 'a', 'A', None, True),
                                                                 RET(B('-', ('field', V('a'), 'D'), B('*', ('icall', V('a'), 'op', [('k', I(2))]), I(1000))))]),
        ('oal:class operation', [ASG(V('k'), I(4)), RET(B('+', ('ncall', 'A', 'cop', [('k', I(3))]), V('k')))]),
        ('oal:bridge', [ASG(V('p'), I(50)), RET(B('+', ('ncall', 'EE', 'b', [('p', I(2))]), V('p')))]),
        ('oal:derived', [('selfrom', 'any', 'a', 'A', None, True), ASG(V('d1'), ('field', V('a'), 'D')),
                         ASG(('field', V('a'), 'N'), I(3)), RET(B('+', B('*', V('d1'), I(100)), ('field', V('a'), 'D')))]),
        ('oal:same-named callables', [RET(B('+', B('+', ('ncall', 'EE2', 'b', [('p', I(1))]), ('fcall', 'b', [('p', I(1))])),
                                           B('*', ('ncall', 'EE', 'b', [('p', I(1))]), I(10000))))]),
        ('oal:same-named callables 2', [ASG(V('x'), ('fcall', 'b', [('p', I(2))])), ASG(V('y'), ('ncall', 'EE', 'b', [('p', I(2))])),
                                         ASG(V('z'), ('ncall', 'EE2', 'b', [('p', I(2))])),
                                         RET(B('+', B('+', V('x'), B('*', V('y'), I(10000))), V('z')))]),
        ('oal:derived, other instance created', [('selfrom', 'any', 'a', 'A', None, True), ASG(V('d1'), ('field', V('a'), 'D')),
                                                 ('create', 'n', 'A'), ASG(V('d2'), ('field', V('a'), 'D')),
                                                 ASG(('field', V('n'), 'N'), I(7)), ASG(V('d3'), ('field', V('a'), 'D')),
                                                 RET(B('+', B('+', B('*', V('d1'), I(10000)), B('*', V('d2'), I(100))), V('d3')))]),
        ('oal:enumerators', [RET(B('+', B('+', B('*', ('enum', 'Color', 'Red'), I(100)), B('*', ('enum', 'Color', 'Green'), I(10))),
                                   ('enum', 'Color', 'Blue')))]),
        ('oal:call in where', [('selfrom', 'many', 'as_', 'A', B('<', ('field', ('selected',), 'N'), F_('f', n=I(0))), True),
                               RET(('un', 'cardinality', V('as_')))]),
        ('oal:statement call', [ASG(V('x'), I(1)), ('call', None, F_('f', n=I(2))), ('call', None, ('ncall', 'EE', 'b', [('p', I(1))])),
                                RET(V('x'))]),
        ('oal:bare return in callee used as statement', [ASG(V('x'), I(3)), ('call', None, F_('f', n=I(1))), RET(V('x'))]),
    ]
    for name, body in callers:
        out.append((name, [2, 0], 'oal', body))
    return out + extra_entries()


CALC_PY_CALLS = [['inc', dict(p=1)], ['note', dict(p=5)], ['flag', dict(p=2)], ['flag', dict(p=0)], ['twice', dict(p=3)],
                 ['label', dict(who='amy', p=1)], ['label', dict(p=0, who='bo')], ['same', dict(p=9)], ['inc', dict(p=7)]]


def extra_entries():
    '''Entries over the parts of the model that no body slot varies: the constants modeled with values python takes as false,
    and class C whose operations are named like its attributes.  They run on the default call system and on every single
    deviation from it (system_task), with a second component alive, and on permuted model texts.'''
    out = []
    C = lambda name: V(name)
    mkc = lambda var, count, total=0: [('create', var, 'C'), ASG(('field', V(var), 'count'), I(count)), ASG(('field', V(var), 'total'), I(total))]
    out.append(('py:operations named like attributes', [], 'pyclash', None))
    out.append(('py:bridges of one external entity', [2, 0], 'pycalc', CALC_PY_CALLS))
    out.append(('py:bridges of one external entity, last first', [], 'pycalc', CALC_PY_CALLS[::-1]))
    callers = [
        ('oal:bridges of one external entity in an expression',
         [ASG(V('p'), I(4)), RET(B('+', B('+', B('*', NC('CALC', 'inc', p=I(1)), I(100000)), B('*', NC('CALC', 'twice', p=I(2)), I(100))),
                                   B('+', NC('CALC', 'same', p=I(7)), V('p'))))]),
        ('oal:bridges of one external entity as statements',
         [ASG(V('x'), I(1)), ('callassign', 'bridge', V('y'), NC('CALC', 'inc', p=V('x'))), ('call', 'bridge', NC('CALC', 'note', p=V('y'))),
          ('call', None, NC('CALC', 'note', p=I(8))), ('callassign', 'bridge', V('z'), NC('CALC', 'same', p=V('y'))),
          ('callassign', 'bridge', V('s'), NC('CALC', 'label', who=('str', 'amy'), p=V('x'))),
          IF(NC('CALC', 'flag', p=V('y')), [ASG(V('x'), B('+', V('x'), I(4)))]),
          IF(B('!=', V('s'), ('str', 'hello amy')), [RET(B('-', I(0), I(1)))]),
          RET(B('+', B('+', B('*', V('x'), I(10000)), B('*', V('y'), I(100))), V('z')))]),
        ('oal:bridges of one external entity in a where clause and a loop condition',
         [('selfrom', 'many', 'as_', 'A', NC('CALC', 'flag', p=('field', ('selected',), 'N')), True), ASG(V('i'), I(0)),
          ('while', B('and', B('<', NC('CALC', 'inc', p=V('i')), I(4)), B('<', V('i'), I(9))), [ASG(V('i'), B('+', V('i'), I(1)))], True),
          RET(B('+', B('*', ('un', 'cardinality', V('as_')), I(100)), V('i')))]),
        ('oal:constants 0, false, "", 0.0 in expressions',
         [ASG(V('x'), C('ZERO')), ASG(V('y'), B('+', C('TEN'), C('ZERO'))), ASG(V('s'), B('+', B('+', C('BLANK'), C('GREETING')), C('BLANK'))),
          ASG(V('r'), B('+', C('NIL'), C('HALF'))),
          IF(B('and', B('and', B('==', V('s'), ('str', 'hello')), B('==', V('r'), ('real', '0.5'))), B('==', C('NO'), ('bool', 'false'))),
             [RET(B('+', B('*', V('y'), I(100)), V('x')))]),
          RET(B('-', I(0), I(1)))]),
        ('oal:constants 0, false, "", 0.0 in conditions',
         [ASG(V('n'), I(0)),
          IF(C('NO'), [ASG(V('n'), I(1))], [(C('YES'), [ASG(V('n'), I(2))])], [ASG(V('n'), I(3))]),
          ('while', C('NO'), [ASG(V('n'), I(99)), ('break',)], True),
          ('while', B('<', V('n'), C('ZERO')), [ASG(V('n'), I(98)), ('break',)], True),
          IF(B('and', B('and', ('un', 'not', C('NO')), B('==', C('ZERO'), I(0))), B('and', B('==', C('BLANK'), ('str', '')), B('==', C('NIL'), ('real', '0.0')))),
             [ASG(V('n'), B('+', V('n'), I(10)))]),
          IF(B('or', C('NO'), B('!=', C('ZERO'), I(0))), [ASG(V('n'), B('+', V('n'), I(100)))]),
          RET(V('n'))]),
        ('oal:constants 0, false as arguments',
         [RET(B('+', B('+', B('*', F_('f', n=C('ZERO')), I(10000)), B('*', F_('g', n=C('ZERO'), m=C('TEN')), I(100))),
                F_('h', b=C('NO'), n=C('ZERO'))))]),
        ('oal:constants 0, "" in where clauses',
         [('selfrom', 'many', 'zs', 'A', B('==', ('field', ('selected',), 'N'), C('ZERO')), True),
          ('selfrom', 'many', 'bs', 'A', B('==', ('field', ('selected',), 'Name'), C('BLANK')), True),
          ('selfrom', 'any', 'n', 'A', B('and', C('NO'), B('==', ('field', ('selected',), 'N'), C('ZERO'))), True),
          IF(('un', 'not_empty', V('n')), [RET(B('-', I(0), I(1)))]),
          RET(B('+', B('*', ('un', 'cardinality', V('zs')), I(10)), ('un', 'cardinality', V('bs'))))]),
        ('oal:operation named like an attribute in an expression',
         mkc('c', 5) + [ASG(V('x'), I(9)), ASG(V('r'), IC(V('c'), 'count', by=I(2))),
                        RET(B('+', B('+', B('*', V('x'), I(10000)), B('*', V('r'), I(100))), ('field', V('c'), 'count')))]),
        ('oal:operation named like an attribute as a statement',
         mkc('c', 1) + [('call', None, IC(V('c'), 'count', by=I(3))), RET(('field', V('c'), 'count'))]),
        ('oal:operation named like an attribute in a where clause',
         mkc('c1', 1) + mkc('c2', 3) + mkc('c3', 4) +
         [('selfrom', 'many', 'cs', 'C', B('>=', IC(('selected',), 'count', by=I(0)), I(3)), True),
          ('selfrom', 'any', 'c', 'C', B('==', IC(('selected',), 'count', by=I(0)), ('field', ('selected',), 'count')), True),
          RET(B('+', B('*', ('un', 'cardinality', V('cs')), I(10)), ('field', V('c'), 'count')))]),
        ('oal:operation named like an attribute in a loop condition',
         mkc('c', 0) + [ASG(V('i'), I(0)),
                        ('while', B('<', IC(V('c'), 'count', by=I(1)), I(4)), [ASG(V('i'), B('+', V('i'), I(1)))], True),
                        RET(B('+', B('*', V('i'), I(10)), ('field', V('c'), 'count')))]),
        ('oal:operation named like an attribute invoked by another operation',
         mkc('c', 2) + [RET(B('+', B('*', IC(V('c'), 'bump', by=I(2)), I(10)), ('field', V('c'), 'count')))]),
        ('oal:class operation named like an attribute',
         mkc('c1', 1, 7) + mkc('c2', 2, 30) + [RET(B('+', ('ncall', 'C', 'total', [('k', I(1000))]), ('field', V('c2'), 'total')))]),
    ]
    for name, body in callers:
        out.append((name, [2, 0], 'oal', body))
    return out


_EXTRA = None


def is_extra(entry):
    global _EXTRA
    if _EXTRA is None:
        _EXTRA = set(e[0] for e in extra_entries())
    return entry[0] in _EXTRA


def near_default(system):
    '''The default call system or a single deviation from it.'''
    return sum(1 for s in SLOTS if system[s] != 0) <= 1


def norm(v):
    if v is None:
        return None
    if isinstance(v, bool):
        return ['bool', v]
    if isinstance(v, (int, float)):
        return ['num', float(v)]
    if isinstance(v, str):
        return ['str', v]
    return ['other', repr(v)]


def run_reference(system, entry):
    name, pop, kind, payload = entry
    ref = relmodel.Ref(SCHEMA)
    for n in pop:
        ref.new('A', dict(N=n))
    ev = E.Evaluator(ref, fuel=500, max_depth=14, **reference_callables(system))
    consts = ev.constants
    if kind == 'pyfunc':
        c = ev.functions[payload[0]]
        value = ev.run(c.body, dict(payload[1]))
    elif kind == 'pycop':
        value = ev.run(ev.operations[('A', 'cop')].body, dict(payload))
    elif kind == 'pybridge':
        value = ev.run(ev.bridges[('EE', 'b')].body, dict(payload))
    elif kind == 'pyop':
        idx, kw = payload
        value = ev.run(ev.operations[('A', 'op')].body, dict(kw), E.Handle('A', ref.order['A'][idx]))
    elif kind == 'pyderived':
        h = E.Handle('A', ref.order['A'][payload])
        d1 = ev.read_attr(h, 'D')
        ref.insts[h.idx].values['N'] = 5
        d2 = ev.read_attr(h, 'D')
        d3 = ev.read_attr(h, 'D')
        value = [d1, d2, d3]
    elif kind == 'pyderived_other':
        h = E.Handle('A', ref.order['A'][payload])
        d1 = ev.read_attr(h, 'D')
        n = ref.new('A', dict(N=7))
        d2 = ev.read_attr(h, 'D')
        ref.insts[ref.order['A'][1]].values['N'] = 4
        d3 = ev.read_attr(h, 'D')
        value = [d1, d2, d3]
    elif kind == 'pysamename':
        calls = [lambda: ev.run(ev.functions['b'].body, dict(p=1)), lambda: ev.run(ev.bridges[('EE', 'b')].body, dict(p=1)),
                 lambda: ev.run(ev.bridges[('EE2', 'b')].body, dict(p=1))]
        res = {}
        for i in payload:
            res[i] = calls[i]()
        value = [res[0], res[1], res[2]]
    elif kind == 'pycasetwin':
        calls = [lambda: ev.run(ev.functions['b'].body, dict(p=1)), lambda: ev.run(ev.functions['B'].body, dict(p=1))]
        res = {}
        for i in payload:
            res[i] = calls[i]()
        value = [res[0], res[1]]
    elif kind == 'pysymbols':
        value = [0, 1, 2] + [v for _, _, _, v in CONSTANTS]
    elif kind == 'pyclash':
        c1 = E.Handle('C', ref.new('C', dict(count=5, total=7)))
        c2 = E.Handle('C', ref.new('C', dict(count=1, total=30)))
        ops = ev.operations
        value = [ev.run(ops[('C', 'count')].body, dict(by=2), c1), ev.read_attr(c1, 'count'), ev.read_attr(c2, 'count'),
                 ev.run(ops[('C', 'bump')].body, dict(by=1), c2), ev.read_attr(c2, 'count'),
                 ev.run(ops[('C', 'total')].body, dict(k=1000)), ev.read_attr(c1, 'total')]
    elif kind == 'pycalc':
        value = [ev.run(ev.bridges[('CALC', name)].body, dict(kw)) for name, kw in payload]
    elif kind == 'oal':
        # constants are visible by their bare name
        value = ev.run([ASG(V(k), _lit(v)) for k, v in ()] + list(payload))
    else:
        raise ValueError(kind)
    pop_after = [[ref.insts[i].values['N'], ref.insts[i].values['Name']] for i in ref.order['A']]
    pop_after += [[ref.insts[i].values['count'], ref.insts[i].values['total']] for i in ref.order['C']]
    return value, pop_after


def _lit(v):
    return I(v)


def run_real(bp_model, system, entry, other_bp=None):
    import xtuml
    from bridgepoint import ooaofooa
    name, pop, kind, payload = entry
    if kind == 'oal':
        main = bp_model.select_any('S_SYNC', xtuml.where_eq(Name='main'))
        main.Action_Semantics_internal = body_text(payload)
    dom = ooaofooa.mk_component(bp_model)
    for n in pop:
        dom.new('A', N=n)
    insts = list(dom.select_many('A'))
    dom2 = None
    if other_bp is not None:
        # a second component, of another model, built after the first and alive while the first is used
        dom2 = ooaofooa.mk_component(other_bp)
        dom2.new('A', N=99)
    with core.time_limit(10.0):
        if kind == 'pyfunc':
            value = dom.find_symbol(payload[0])(**payload[1])
        elif kind == 'pycop':
            value = dom.find_class('A').cop(**payload)
        elif kind == 'pybridge':
            value = dom.find_symbol('EE').b(**payload)
        elif kind == 'pyop':
            idx, kw = payload
            value = insts[idx].op(**kw)
        elif kind == 'pyderived':
            a = insts[payload]
            d1 = a.D
            a.N = 5
            value = [d1, a.D, a.D]
        elif kind == 'pyderived_other':
            a = insts[payload]
            d1 = a.D
            dom.new('A', N=7)
            d2 = a.D
            insts[1].N = 4
            value = [d1, d2, a.D]
        elif kind == 'pysamename':
            calls = [lambda: dom.find_symbol('b')(p=1), lambda: dom.find_symbol('EE').b(p=1), lambda: dom.find_symbol('EE2').b(p=1)]
            res = {}
            for i in payload:
                res[i] = calls[i]()
            value = [res[0], res[1], res[2]]
        elif kind == 'pycasetwin':
            calls = [lambda: dom.find_symbol('b')(p=1), lambda: dom.find_symbol('B')(p=1)]
            res = {}
            for i in payload:
                res[i] = calls[i]()
            value = [res[0], res[1]]
        elif kind == 'pysymbols':
            c = dom.find_symbol('Color')
            value = [c.Red, c.Green, c.Blue] + [dom.find_symbol(name) for name, _, _, _ in CONSTANTS]
        elif kind == 'pyclash':
            # an attribute value lives in the instance, the operation of the same name in its class
            c1, c2 = dom.new('C', count=5, total=7), dom.new('C', count=1, total=30)
            value = [type(c1).count(c1, by=2), c1.count, c2.count, c2.bump(by=1), c2.count, dom.find_class('C').total(k=1000), c1.total]
        elif kind == 'pycalc':
            calc = dom.find_symbol('CALC')
            value = [getattr(calc, name)(**kw) for name, kw in payload]
        elif kind == 'oal':
            value = dom.find_symbol('main')()
    pop_after = [[i.N, i.Name] for i in dom.select_many('A')] + [[i.count, i.total] for i in dom.select_many('C')]
    if dom2 is not None:
        other_pop = [i.N for i in dom2.select_many('A')]
        if other_pop != [99]:
            pop_after.append(['<population of the second component changed>', other_pop])
    return value, pop_after


def norm_value(v):
    if isinstance(v, list):
        return [norm(x) for x in v]
    return norm(v)


def compare_entry(ctx, system, entry, bp_model, family, extra=None, other_bp=None):
    name = entry[0]
    case = dict(system=system, entry=name, family=family)
    case.update(extra or {})
    try:
        exp_value, exp_pop = run_reference(system, entry)
    except E.OutOfDomain:
        ctx.count('out_of_domain')
        return 'ood'
    ctx.count('calls')
    label = ','.join('%s=%s' % (s, BODIES[s][system[s]][0]) for s in SLOTS)
    try:
        got_value, got_pop = run_real(bp_model, system, entry, other_bp)
    except core.Timeout:
        ctx.violation('c15:hang', case, '%s with %s does not return within 10 s' % (name, label), None, 'timeout')
        return 'bad'
    except RecursionError:
        ctx.violation('c15:crash:RecursionError', case, '%s with %s: unbounded recursion' % (name, label), None, 'RecursionError')
        return 'bad'
    except Exception as e:
        ctx.violation('c15:crash:%s' % type(e).__name__, case, '%s with %s raised %s: %s' % (name, label, type(e).__name__, e),
                      norm_value(exp_value), type(e).__name__)
        return 'bad'
    kind = entry[2]
    if norm_value(got_value) != norm_value(exp_value):
        ctx.violation('c15:%s:value' % kind, case, '%s with %s returned %r, expected %r' % (name, label, got_value, exp_value),
                      norm_value(exp_value), norm_value(got_value))
        return 'bad'
    if [[norm(a), norm(b)] for a, b in got_pop] != [[norm(a), norm(b)] for a, b in exp_pop]:
        ctx.violation('c15:%s:population' % kind, case, '%s with %s leaves A = %r, expected %r' % (name, label, got_pop, exp_pop),
                      exp_pop, got_pop)
        return 'bad'
    ctx.count('traces')
    ctx.distinct('outcomes', (kind, repr(norm_value(exp_value))))
    return 'ok'


def system_task(ctx, task):
    tier, systems_ = task
    es = entries()
    for system in systems_:
        bp = build_bp_model(system)
        ctx.count('systems')
        for e in es:
            if is_extra(e) and not near_default(system):
                continue
            st = compare_entry(ctx, system, e, bp, 'api')
            if st == 'ok':
                ctx.distinct('nontrivial', (repr(sorted(system.items())), e[0]))


def two_component_task(ctx, task):
    '''The entries on a component of system s1 while a component of system s2 (built later) is alive.'''
    tier, pairs = task
    es = [e for e in entries() if e[2] in ('pyfunc', 'pycop', 'pybridge', 'pyop', 'pysymbols', 'pysamename', 'pycasetwin', 'pyclash', 'pycalc', 'oal')]
    for s1, s2 in pairs:
        bp1, bp2 = build_bp_model(s1), build_bp_model(s2)
        ctx.count('component_pairs')
        for e in es:
            st = compare_entry(ctx, s1, e, bp1, 'two-components', extra=dict(other_system=s2), other_bp=bp2)
            if st == 'ok':
                ctx.count('two_component_calls')


def component_pairs(tier):
    base = dict((s, 0) for s in SLOTS)
    devs = []
    for s in SLOTS:
        for i in range(1, product_size(s)):
            devs.append(dict(base, **{s: i}))
    if tier == 'quick':
        devs = [d for d in devs if any(d[s] == 1 for s in SLOTS)] + [dict(base, f=2, g=2, h=1, op=2, cop=2, D=1, b=2)]
    return [(base, d) for d in devs] + [(d, base) for d in devs]


# ---- histories: reads of the derived attribute interleaved with edits through the python API ------------------

HIST_LEN = {'quick': 4, 'thorough': 6}
HIST_MAIN = [('selfrom', 'any', 'a', 'A', B('==', ('field', ('selected',), 'Name'), ('str', 'i0')), True), RET(('field', V('a'), 'D'))]
HIST_ALPHABET = [['rp', 0], ['ro'], ['new', 1], ['set', 0, 0], ['set', 0, 2], ['set', 1, 3], ['del', 1]]


def history_systems():
    """Every body of the derived attribute (total and partial ones) with the default callees; D6 with the dividing g."""
    base = dict((s, 0) for s in SLOTS)
    out = []
    for i, (label, _) in enumerate(BODIES['D']):
        out.append(dict(base, D=i, g=4) if label == 'D6' else dict(base, D=i))
    return out


def histories(length):
    """
    All step sequences of exactly *length* over HIST_ALPHABET that are executable (the population starts as one instance
    "i0" with N = 0; at most two instances; instance 1 is addressed only while it exists) and end with a read.
    rp i = python read of instance i's D; ro = read of i0.D by an OAL function; new k / set i k / del i = population edits
    through the python API.
    """
    out = []

    def rec(prefix, n_inst):
        if len(prefix) == length:
            if prefix[-1][0] in ('rp', 'ro'):
                out.append(list(prefix))
            return
        for st in HIST_ALPHABET:
            k = st[0]
            n2 = n_inst
            if k == 'new':
                if n_inst >= 2:
                    continue
                n2 = n_inst + 1
            elif k in ('set', 'rp') and st[1] >= n_inst:
                continue
            elif k == 'del':
                if n_inst < 2:
                    continue
                n2 = n_inst - 1
            prefix.append(st)
            rec(prefix, n2)
            prefix.pop()
    rec([], 1)
    return out


def history_reference(system, history):
    """[(outcome per step)] with outcome = value for accepted reads, 'rejected' for reads whose body is erroneous, None for edits."""
    ref = relmodel.Ref(SCHEMA)
    live = [ref.new('A', dict(N=0, Name='i0'))]
    outs = []
    for st in history:
        k = st[0]
        if k in ('rp', 'ro'):
            ev = E.Evaluator(ref, fuel=500, max_depth=14, **reference_callables(system))
            try:
                if k == 'rp':
                    outs.append(['value', ev.read_attr(E.Handle('A', live[st[1]]), 'D')])
                else:
                    outs.append(['value', ev.run(HIST_MAIN)])
            except E.OutOfDomain:
                outs.append(['rejected'])
            continue
        if k == 'new':
            live.append(ref.new('A', dict(N=st[1], Name='i%d' % len(ref.insts))))
        elif k == 'set':
            ref.insts[live[st[1]]].values['N'] = st[2]
        elif k == 'del':
            ref.delete(live.pop(st[1]))
        outs.append(None)
    pop_after = [[ref.insts[i].values['N'], ref.insts[i].values['Name']] for i in ref.order['A']]
    return outs, pop_after


def compare_history(ctx, system, history, bp_model):
    import xtuml
    from bridgepoint import ooaofooa
    case = dict(system=system, family='history', history=history)
    label = ','.join('%s=%s' % (s, BODIES[s][system[s]][0]) for s in SLOTS)
    exp, exp_pop = history_reference(system, history)
    main = bp_model.select_any('S_SYNC', xtuml.where_eq(Name='main'))
    main.Action_Semantics_internal = body_text(HIST_MAIN)
    dom = ooaofooa.mk_component(bp_model)
    live = [dom.new('A', N=0, Name='i0')]
    created = 1
    rejected_before = set()      # instances (position) whose D had a rejected read earlier in this history
    ctx.count('histories')
    for pos, (st, e) in enumerate(zip(history, exp)):
        k = st[0]
        if k in ('rp', 'ro'):
            target = st[1] if k == 'rp' else 0
            ctx.count('calls')
            ctx.count('history_reads')
            try:
                with core.time_limit(10.0):
                    got = live[st[1]].D if k == 'rp' else dom.find_symbol('main')()
                err = None
            except core.Timeout:
                ctx.violation('c15:history:hang', case, 'step %d (%s) of history %s with %s does not return within 10 s' % (pos, st, history, label),
                              None, 'timeout')
                return 'bad'
            except RecursionError as x:
                got, err = None, x
            except Exception as x:
                got, err = None, x
            if e[0] == 'rejected':
                ctx.count('history_rejected_reads')
                rejected_before.add(target)
                continue
            after = ':after-rejected-read' if target in rejected_before else ''
            if err is not None:
                ctx.violation('c15:history:%s%s:crash:%s' % (k, after, type(err).__name__), case,
                              'step %d (%s) of history %s with %s raised %s: %s; expected %r' % (pos, st, history, label, type(err).__name__, err, e[1]),
                              norm(e[1]), type(err).__name__)
                return 'bad'
            if norm(got) != norm(e[1]):
                ctx.violation('c15:history:%s%s:value' % (k, after), case,
                              'step %d (%s) of history %s with %s read %r, expected %r (derived attributes are recomputed on every read)'
                              % (pos, st, history, label, got, e[1]), norm(e[1]), norm(got))
                return 'bad'
            if after:
                ctx.count('history_recovered_reads')
            ctx.distinct('outcomes', ('history', repr(norm(e[1]))))
            continue
        if k == 'new':
            created += 1
            live.append(dom.new('A', N=st[1], Name='i%d' % (created - 1)))
        elif k == 'set':
            live[st[1]].N = st[2]
        elif k == 'del':
            xtuml.delete(live.pop(st[1]))
    got_pop = [[i.N, i.Name] for i in dom.select_many('A')]
    if [[norm(a), norm(b)] for a, b in got_pop] != [[norm(a), norm(b)] for a, b in exp_pop]:
        ctx.violation('c15:history:population', case, 'history %s with %s leaves A = %r, expected %r' % (history, label, got_pop, exp_pop),
                      exp_pop, got_pop)
        return 'bad'
    ctx.count('traces')
    return 'ok'


def history_task(ctx, task):
    tier, system, hs = task
    bp = build_bp_model(system)
    for h in hs:
        if compare_history(ctx, system, h, bp) == 'ok':
            ctx.distinct('nontrivial', ('history', system['D'], repr(h)))


# ---- small models for the families over names ---------------------------------------------------------------

def build_mini_model(spec):
    '''
    ooaofooa metamodel, populated through the API, for
    spec = dict(functions=[(name, params, rtype, stmts)], classes=[(key letters, attrs, ops)], ees=[(key letters, bridges)],
                enums=[(name, [enumerators])], constants=[(name, type, text, value)])
    with attrs = [(name, type, None | (statements of the derived body, statements of the reference))],
    ops = [(name, instance based, params, rtype, stmts)], bridges = [(name, params, rtype, stmts)], params = [(name, type)].
    '''
    from xtuml import relate, where_eq as where
    m = base_loader().build_metamodel()
    dt = lambda name: m.select_any('S_DT', where(Name=name))
    pkg = m.new('EP_PKG', Name='P')
    relate(m.new('PE_PE'), pkg, 8001)

    def pe(inst):
        p = m.new('PE_PE')
        relate(p, inst, 8001)
        relate(p, pkg, 8000)
        return inst

    def chain(items, rel):
        prev = None
        for it in items:
            if prev is not None:
                relate(it, prev, rel, 'succeeds')
            prev = it
    for numb, (kl, attrs, ops) in enumerate(spec.get('classes', ()), 1):
        o_obj = pe(m.new('O_OBJ', Name=kl, Key_Lett=kl, Numb=numb))
        made = {}
        for name, ty, derived in attrs:
            o_attr = m.new('O_ATTR', Name=name, Root_Nam=name)
            relate(o_attr, o_obj, 102)
            relate(o_attr, dt(ty), 114)
            o_battr = m.new('O_BATTR')
            relate(o_battr, o_attr, 106)
            if derived is None:
                relate(m.new('O_NBATTR'), o_battr, 107)
            else:
                relate(m.new('O_DBATTR', Action_Semantics_internal=body_text(derived[0]), Suc_Pars=1), o_battr, 107)
            made[name] = o_attr
        chain([made[a[0]] for a in attrs], 103)
        o_id = m.new('O_ID', Oid_ID=0)
        relate(o_id, o_obj, 104)
        o_oida = m.new('O_OIDA', localAttributeName=attrs[0][0])
        relate(o_oida, o_id, 105)
        relate(o_oida, made[attrs[0][0]], 105)
        tfrs = []
        for name, inst_based, params, rty, stmts in ops:
            o_tfr = m.new('O_TFR', Name=name, Instance_Based=inst_based, Suc_Pars=1, Action_Semantics_internal=body_text(stmts))
            relate(o_tfr, o_obj, 115)
            relate(o_tfr, dt(rty), 116)
            tfrs.append(o_tfr)
            ps = []
            for pname, pty in params:
                o_tparm = m.new('O_TPARM', Name=pname)
                relate(o_tparm, o_tfr, 117)
                relate(o_tparm, dt(pty), 118)
                ps.append(o_tparm)
            chain(ps, 124)
        chain(tfrs, 125)
    for name, params, rty, stmts in spec.get('functions', ()):
        s_sync = pe(m.new('S_SYNC', Name=name, Suc_Pars=1, Action_Semantics_internal=body_text(stmts)))
        relate(s_sync, dt(rty), 25)
        ps = []
        for pname, pty in params:
            s_sparm = m.new('S_SPARM', Name=pname)
            relate(s_sparm, s_sync, 24)
            relate(s_sparm, dt(pty), 26)
            ps.append(s_sparm)
        chain(ps, 54)
    for kl, bridges in spec.get('ees', ()):
        s_ee = pe(m.new('S_EE', Name=kl, Key_Lett=kl))
        for name, params, rty, stmts in bridges:
            s_brg = m.new('S_BRG', Name=name, Suc_Pars=1, Action_Semantics_internal=body_text(stmts))
            relate(s_brg, s_ee, 19)
            relate(s_brg, dt(rty), 20)
            ps = []
            for pname, pty in params:
                s_bparm = m.new('S_BPARM', Name=pname)
                relate(s_bparm, s_brg, 21)
                relate(s_bparm, dt(pty), 22)
                ps.append(s_bparm)
            chain(ps, 55)
    for name, enumerators in spec.get('enums', ()):
        s_dt = pe(m.new('S_DT', Name=name))
        s_edt = m.new('S_EDT')
        relate(s_edt, s_dt, 17)
        es = []
        for en in enumerators:
            s_enum = m.new('S_ENUM', Name=en)
            relate(s_enum, s_edt, 27)
            es.append(s_enum)
        chain(es, 56)
    if spec.get('constants'):
        csp = pe(m.new('CNST_CSP', InformalGroupName='K'))
        cs = []
        for name, ty, text, _ in spec['constants']:
            syc = m.new('CNST_SYC', Name=name)
            relate(syc, csp, 1504)
            relate(syc, dt(ty), 1500)
            lfsc = m.new('CNST_LFSC')
            relate(lfsc, syc, 1502)
            relate(m.new('CNST_LSC', Value=text), lfsc, 1503)
            cs.append(syc)
        chain(cs, 1505)
    return m


def mini_schema(spec):
    classes = [(kl, [(n, t) for n, t, d in attrs if d is None]) for kl, attrs, _ in spec.get('classes', ())]
    return relmodel.Schema('c15mini', classes, [], [(kl, 'I1', [attrs[0][0]]) for kl, attrs, _ in spec.get('classes', ())])


def mini_reference(spec):
    '''Keyword arguments of the reference evaluator for a spec of build_mini_model.'''
    functions = dict((name, E.Callable(name, params, stmts)) for name, params, _, stmts in spec.get('functions', ()))
    operations, derived, bridges = {}, {}, {}
    for kl, attrs, ops in spec.get('classes', ()):
        for name, inst_based, params, _, stmts in ops:
            operations[(kl.upper(), name)] = E.Callable(name, params, stmts, owner=kl, kind='operation' if inst_based else 'class_operation')
        for name, _, d in attrs:
            if d is not None:
                derived[(kl.upper(), name)] = E.Callable(name, [], d[1], kind='derived', owner=kl)
    for kl, bs in spec.get('ees', ()):
        for name, params, _, stmts in bs:
            bridges[(kl, name)] = E.Callable(name, params, stmts, kind='bridge')
    return dict(functions=functions, operations=operations, bridges=bridges, derived=derived,
                enums=dict((n, list(es)) for n, es in spec.get('enums', ())),
                constants=dict((name, value) for name, _, _, value in spec.get('constants', ())))


# ---- parameter names: a modeled parameter may be spelled like any name the library uses itself -----------------
# For every name of the alphabet one model: function pf(<name>: integer, q: integer) (recursive, the invocation of itself
# names both parameters), bridge PEE::pb(<name>: string, q: string), class-based operation PK::pc(<name>: boolean, q: integer),
# instance-based operation PK.pi(<name>: integer, q: integer) and a function main invoking all four from OAL.

# OAL keywords that may be used where an identifier is expected behind `param.` (rule kw_as_identifier_1 of the grammar)
OAL_KW_AS_PARAMETER = set('''ACROSS ANY ASSIGN ASSIGNER BREAK BY CLASS CONTINUE CONTROL CREATE CREATOR DELETE EACH EVENT FOR FROM
GENERATE IN INSTANCES INSTANCE MANY OBJECT ONE RELATED RELATE SELECT STOP TO WHERE UNRELATE USING'''.split())
PYTHON_CONVENTIONAL = ['self', 'cls', 'args', 'kwargs', 'kwds', 'kw', 'mcs', 'klass', 'other', 'result', 'return_value']
PN_ENTRIES = ['py:function', 'py:function, keywords the other way round', 'py:bridge', 'py:class operation', 'py:instance operation', 'oal']
# (name, entry) pairs the unmodified library gets wrong; kept out of the run, see the report of round 11
PN_KNOWN = {}          # (the class-operation parameter named cls was repaired in /repo: F-C15c)


def admissible_parameter_name(name):
    '''May be written `param.<name>` and `<name>: <expression>` in OAL.'''
    if not name or not (name[0].isalpha() or name[0] == '_') or not all(c.isalnum() or c == '_' for c in name) or not name.isascii():
        return False
    return name.upper() not in A.KEYWORDS or name.upper() in OAL_KW_AS_PARAMETER


def library_names():
    '''(parameter and local variable names, other names) of every code object of bridgepoint.interpret and bridgepoint.ooaofooa
    of the tree under test.'''
    import types
    from bridgepoint import interpret, ooaofooa
    variables, others = set(), set()

    def walk(code):
        variables.update(code.co_varnames)
        variables.update(code.co_cellvars)
        variables.update(code.co_freevars)
        others.update(code.co_names)
        for c in code.co_consts:
            if isinstance(c, types.CodeType):
                walk(c)
    for mod in (interpret, ooaofooa):
        with open(mod.__file__.replace('.pyc', '.py')) as f:
            walk(compile(f.read(), mod.__file__, 'exec'))
    return variables, others - variables


_PN_NAMES = {}


def parameter_names(tier):
    '''The alphabet of parameter names: [(name, where it comes from)], sorted.'''
    if tier not in _PN_NAMES:
        import keyword
        variables, others = library_names()
        src = {}
        for n in sorted(others):
            src[n] = 'name used by the library'
        for n in ['pf', 'pb', 'pc', 'pi', 'main', 'PK', 'PEE', 'W', 'Id', 'q', 'p', 'x']:
            src[n] = 'name of the model'
        for n in PYTHON_CONVENTIONAL:
            src[n] = 'conventional python name'
        for n in keyword.kwlist + list(getattr(keyword, 'softkwlist', [])):
            src[n] = 'python keyword'
        for n in sorted(variables):
            src[n] = 'parameter or variable of a library function'
        _PN_NAMES[tier] = sorted((n, s) for n, s in src.items() if admissible_parameter_name(n))
    return _PN_NAMES[tier]


def pn_partner(nm, partner=None):
    return partner if partner is not None else ('q' if nm != 'q' else 'w')


def pn_spec(nm, partner=None):
    q = pn_partner(nm, partner)
    pf = [IF(B('<=', P(q), I(0)), [RET(P(nm))]),
          RET(('fcall', 'pf', [(nm, B('+', P(nm), P(q))), (q, B('-', P(q), I(1)))]))]
    pb = [RET(B('+', P(nm), P(q)))]
    pc = [IF(P(nm), [RET(P(q))]), RET(B('-', I(0), P(q)))]
    pi = [RET(B('+', B('+', B('*', SF('W'), I(100)), B('*', P(nm), I(10))), P(q)))]
    main = [('selfrom', 'any', 'k_', 'PK', None, True),
            ASG(V('x_'), ('fcall', 'pf', [(nm, I(2)), (q, I(2))])),
            ASG(V('s_'), ('ncall', 'PEE', 'pb', [(q, ('str', 'b')), (nm, ('str', 'a'))])),
            ASG(V('y_'), ('ncall', 'PK', 'pc', [(nm, ('bool', 'true')), (q, I(4))])),
            ASG(V('z_'), ('icall', V('k_'), 'pi', [(nm, I(3)), (q, I(1))])),
            IF(B('!=', V('s_'), ('str', 'ab')), [RET(B('-', I(0), I(1)))]),
            RET(B('+', B('+', B('*', V('x_'), I(100000)), B('*', V('y_'), I(10000))), V('z_')))]
    spec = dict(functions=[('pf', [(nm, 'integer'), (q, 'integer')], 'integer', pf), ('main', [], 'integer', main)],
                classes=[('PK', [('Id', 'unique_id', None), ('W', 'integer', None)],
                          [('pc', False, [(nm, 'boolean'), (q, 'integer')], 'integer', pc),
                           ('pi', True, [(nm, 'integer'), (q, 'integer')], 'integer', pi)])],
                ees=[('PEE', [('pb', [(nm, 'string'), (q, 'string')], 'string', pb)])])
    return spec, q


def pn_run(nm, entry, real, bp=None, partner=None):
    '''The value of one entry for the parameter name nm: through the library (real; on a new component of the BridgePoint
    model bp) or through the reference.'''
    spec, q = pn_spec(nm, partner)
    args = {'py:function': [(nm, 3), (q, 2)], 'py:function, keywords the other way round': [(q, 2), (nm, 3)],
            'py:bridge': [(nm, 'a'), (q, 'b')], 'py:class operation': [(q, 4), (nm, False)],
            'py:instance operation': [(nm, 3), (q, 1)], 'oal': []}[entry]
    kw = dict(args)        # keeps the order of the keywords
    if not real:
        ref = relmodel.Ref(mini_schema(spec))
        k = E.Handle('PK', ref.new('PK', dict(W=7)))
        ev = E.Evaluator(ref, fuel=500, max_depth=14, **mini_reference(spec))
        if entry.startswith('py:function'):
            return ev.run(ev.functions['pf'].body, kw)
        if entry == 'py:bridge':
            return ev.run(ev.bridges[('PEE', 'pb')].body, kw)
        if entry == 'py:class operation':
            return ev.run(ev.operations[('PK', 'pc')].body, kw)
        if entry == 'py:instance operation':
            return ev.run(ev.operations[('PK', 'pi')].body, kw, k)
        return ev.run(ev.functions['main'].body, {})
    from bridgepoint import ooaofooa
    dom = ooaofooa.mk_component(bp if bp is not None else build_mini_model(spec))
    k = dom.new('PK', W=7)
    with core.time_limit(10.0):
        if entry.startswith('py:function'):
            return dom.find_symbol('pf')(**kw)
        if entry == 'py:bridge':
            return dom.find_symbol('PEE').pb(**kw)
        if entry == 'py:class operation':
            return dom.find_class('PK').pc(**kw)
        if entry == 'py:instance operation':
            return k.pi(**kw)
        return dom.find_symbol('main')()


def compare_parameter_name(ctx, nm, entry, bp=None, partner=None):
    case = dict(family='paramname', name=nm, entry=entry, partner=pn_partner(nm, partner))
    what = 'paramname:%s' % entry.split(',')[0].replace('py:', '').replace(' ', '-')
    exp = pn_run(nm, entry, False, None, partner)
    ctx.count('calls')
    ctx.count('paramname_calls')
    try:
        got = pn_run(nm, entry, True, bp, partner)
    except core.Timeout:
        ctx.violation('c15:%s:hang' % what, case, '%s with a parameter named %r does not return within 10 s' % (entry, nm), None, 'timeout')
        return 'bad'
    except Exception as e:
        ctx.violation('c15:%s:crash:%s' % (what, type(e).__name__), case,
                      '%s of a callable whose modeled parameters are named %r and %r raised %s: %s; expected %r'
                      % (entry, nm, case['partner'], type(e).__name__, e, exp), norm(exp), type(e).__name__)
        return 'bad'
    if norm(got) != norm(exp):
        ctx.violation('c15:%s:value' % what, case, '%s of a callable whose modeled parameters are named %r and %r returned %r, expected %r'
                      % (entry, nm, case['partner'], got, exp), norm(exp), norm(got))
        return 'bad'
    ctx.count('traces')
    ctx.distinct('outcomes', ('paramname', entry, repr(norm(exp))))
    ctx.distinct('nontrivial', ('paramname', nm, case['partner'], entry))
    return 'ok'


def pn_known(nm, partner, entry):
    return any(entry in PN_KNOWN.get(n, ()) for n in (nm, partner))


def paramname_task(ctx, task):
    tier, pairs = task
    for nm, partner in pairs:
        ctx.count('parameter_names')
        bp = build_mini_model(pn_spec(nm, partner)[0])
        for entry in PN_ENTRIES:
            if pn_known(nm, partner, entry):
                ctx.count('paramname_known_defect_skipped')
                continue
            compare_parameter_name(ctx, nm, entry, bp, partner)


def parameter_name_pairs(tier):
    """(name, partner): every name of the alphabet beside the partner q; thorough: also beside the next name of the alphabet."""
    names = [n for n, _ in parameter_names(tier)]
    out = [(n, pn_partner(n)) for n in names]
    if tier == 'thorough':
        out += [(n, names[(i + 1) % len(names)]) for i, n in enumerate(names)]
    return out


# ---- locals spelled like domain symbols ---------------------------------------------------------------------------
# One model holds function total(n), constants MAX = 100 and GREETING = "hello", enumeration Color, external entity EE with
# bridge b, class K (attribute W, class operation cop).  For a symbol X of that model it also holds callables whose bodies
# write a variable spelled X (assigned, assigned inside a nested block, assigned from the constant of that name, selection
# result, loop variable, creation result) in a function, a bridge, a class operation, an instance operation and a derived
# attribute; a function rd that reads the symbol in its modeled role; and functions sw_<kind> that read the symbol, invoke
# one of those callables and read the symbol again.  Histories: every sequence of SHADOW_LEN steps over the invocations of
# those callables from python, the python read of the symbol, rd() and sw_<kind>() that ends with a read, on one component.

SHADOW_LEN = {'quick': 3, 'thorough': 4}
SHADOW_SYMBOLS = [['function', 'total'], ['function accumulating in a variable of its own name', 'total'], ['integer constant', 'MAX'],
                  ['string constant', 'GREETING'], ['enumeration', 'Color'], ['external entity', 'EE'], ['class', 'K']]
SHADOW_KINDS = ['function', 'bridge', 'class operation', 'instance operation', 'derived attribute']
SHADOW_FORMS = ['assign', 'assign in a nested block', 'select any', 'for each', 'create']      # + 'assign from the constant' for constants
SHADOW_ENUM = ['Red', 'Green', 'Blue']
SHADOW_CONSTANTS = [('MAX', 'integer', '100', 100), ('GREETING', 'string', 'hello', 'hello')]


def shadow_forms(symbol):
    return SHADOW_FORMS + (['assign from the constant'] if 'constant' in symbol[0] else [])


def shadow_alphabet(symbol):
    calls = [['call', 'function', f] for f in shadow_forms(symbol)] + [['call', k, 'assign'] for k in SHADOW_KINDS[1:]]
    return calls + [['pyread'], ['oalread']] + [['sandwich', k] for k in SHADOW_KINDS]


def shadow_read_expr(symbol):
    '''(OAL expression reading the symbol in its modeled role, literal it is to equal).'''
    kind, x = symbol
    if kind.startswith('function'):
        return F_('total', n=I(2)), I(3)
    if kind == 'integer constant':
        return V(x), I(100)
    if kind == 'string constant':
        return V(x), ('str', 'hello')
    if kind == 'enumeration':
        return ('enum', 'Color', 'Blue'), I(2)
    if kind == 'external entity':
        return NC('EE', 'b', p=I(1)), I(2)
    return NC('K', 'cop', k=I(1)), I(2)


def shadow_body(symbol, form, base):
    '''Statements that write a variable spelled like the symbol and deliver a value computed from it; base = expression.'''
    x = symbol[1]
    if form == 'assign':
        return [ASG(V(x), base), ASG(V(x), B('+', V(x), I(1))), V(x)]
    if form == 'assign in a nested block':
        return [ASG(V('r'), I(0)), IF(B('>', base, I(0)), [ASG(V(x), B('*', base, I(2))), ASG(V('r'), B('+', V(x), I(1)))]), V('r')]
    if form == 'assign from the constant':
        more = ('str', '!') if symbol[0] == 'string constant' else base
        return [ASG(V(x), B('+', V(x), more)), V(x)]
    if form == 'select any':
        return [('selfrom', 'any', x, 'K', None, True), ASG(V('r'), base), IF(('un', 'not_empty', V(x)), [ASG(V('r'), B('+', V('r'), ('field', V(x), 'W')))]), V('r')]
    if form == 'for each':
        return [('selfrom', 'many', 'ks', 'K', None, True), ASG(V('t'), base),
                ('foreach', x, 'ks', [ASG(V('t'), B('+', V('t'), ('field', V(x), 'W')))], True), V('t')]
    if form == 'create':
        return [('create', x, 'K'), ASG(('field', V(x), 'W'), base), ('field', V(x), 'W')]
    raise ValueError(form)


def shadow_spec(symbol):
    kind, x = symbol
    ret = lambda b: b[:-1] + [RET(b[-1])]
    rty = lambda form: 'string' if form == 'assign from the constant' and kind == 'string constant' else 'integer'
    if kind == 'function accumulating in a variable of its own name':
        total = [ASG(V('total'), I(0)), ASG(V('i'), I(1)),
                 ('while', B('<=', V('i'), P('n')), [ASG(V('total'), B('+', V('total'), V('i'))), ASG(V('i'), B('+', V('i'), I(1)))], True),
                 RET(V('total'))]
    else:
        total = [RET(B('+', P('n'), I(1)))]
    functions = [('total', [('n', 'integer')], 'integer', total)]
    for i, form in enumerate(shadow_forms(symbol)):
        functions.append(('sh%d' % i, [('x', 'integer')], rty(form), ret(shadow_body(symbol, form, P('x')))))
    read, lit = shadow_read_expr(symbol)
    functions.append(('rd', [], 'string' if kind == 'string constant' else 'integer', [RET(read)]))
    inner = {'function': F_('sh0', x=I(2)), 'bridge': NC('SH', 'b', x=I(2)), 'class operation': NC('K', 'shc', x=I(2)),
             'instance operation': IC(V('k_'), 'shi', x=I(2)), 'derived attribute': ('field', V('k_'), 'shd')}
    for i, k in enumerate(SHADOW_KINDS):
        functions.append(('sw%d' % i, [], 'integer',
                          [('selfrom', 'any', 'k_', 'K', None, True), ASG(V('a_'), read), ASG(V('c_'), inner[k]), ASG(V('b_'), read), ASG(V('r_'), V('c_')),
                           IF(B('!=', V('a_'), lit), [ASG(V('r_'), B('+', V('r_'), I(1000)))]),
                           IF(B('!=', V('b_'), lit), [ASG(V('r_'), B('+', V('r_'), I(2000)))]),
                           RET(V('r_'))]))
    own = B('+', SF('W'), P('x'))
    d = shadow_body(symbol, 'assign', B('*', SF('W'), I(2)))
    classes = [('K', [('Id', 'unique_id', None), ('W', 'integer', None), ('shd', 'integer', (d[:-1] + [ASG(SF('shd'), d[-1])], ret(d)))],
                [('cop', False, [('k', 'integer')], 'integer', [RET(B('*', P('k'), I(2)))]),
                 ('shc', False, [('x', 'integer')], 'integer', ret(shadow_body(symbol, 'assign', B('*', P('x'), I(3))))),
                 ('shi', True, [('x', 'integer')], 'integer', ret(shadow_body(symbol, 'assign', own)))])]
    ees = [('EE', [('b', [('p', 'integer')], 'integer', [RET(B('+', P('p'), I(1)))])]),
           ('SH', [('b', [('x', 'integer')], 'integer', ret(shadow_body(symbol, 'assign', B('*', P('x'), I(5)))))])]
    return dict(functions=functions, classes=classes, ees=ees, enums=[('Color', SHADOW_ENUM)], constants=SHADOW_CONSTANTS)


def shadow_histories(symbol, tier):
    '''quick: every sequence of 2 steps over the alphabet of the symbol, and every sequence of 3 steps that starts with a read of
    the symbol (python or rd()) and ends with a read (python, rd() or sw_<kind>()); thorough: the same with 3 and 4 steps.'''
    alpha = shadow_alphabet(symbol)
    n = SHADOW_LEN[tier]
    out = [list(h) for h in itertools.product(alpha, repeat=n - 1)]
    out += [list(h) for h in itertools.product(alpha, repeat=n) if h[0][0] in ('pyread', 'oalread') and h[-1][0] != 'call']
    return out


def shadow_step_reference(spec, ref, symbol, st):
    ev = E.Evaluator(ref, fuel=500, max_depth=14, **mini_reference(spec))
    first = E.Handle('K', ref.order['K'][0])
    if st[0] == 'call':
        _, k, form = st
        if k == 'function':
            return ev.run(ev.functions['sh%d' % shadow_forms(symbol).index(form)].body, dict(x=2))
        if k == 'bridge':
            return ev.run(ev.bridges[('SH', 'b')].body, dict(x=2))
        if k == 'class operation':
            return ev.run(ev.operations[('K', 'shc')].body, dict(x=2))
        if k == 'instance operation':
            return ev.run(ev.operations[('K', 'shi')].body, dict(x=2), first)
        return ev.read_attr(first, 'shd')
    if st[0] == 'pyread':
        kind, x = symbol
        if kind.startswith('function'):
            return ev.run(ev.functions['total'].body, dict(n=2))
        if 'constant' in kind:
            return ev.constants[x]
        if kind == 'enumeration':
            return list(range(len(SHADOW_ENUM)))
        if kind == 'external entity':
            return ev.run(ev.bridges[('EE', 'b')].body, dict(p=1))
        return ev.run(ev.operations[('K', 'cop')].body, dict(k=1))
    if st[0] == 'oalread':
        return ev.run(ev.functions['rd'].body, {})
    return ev.run(ev.functions['sw%d' % SHADOW_KINDS.index(st[1])].body, {})


def shadow_step_real(dom, first, symbol, st):
    if st[0] == 'call':
        _, k, form = st
        if k == 'function':
            return dom.find_symbol('sh%d' % shadow_forms(symbol).index(form))(x=2)
        if k == 'bridge':
            return dom.find_symbol('SH').b(x=2)
        if k == 'class operation':
            return dom.find_class('K').shc(x=2)
        if k == 'instance operation':
            return first.shi(x=2)
        return first.shd
    if st[0] == 'pyread':
        kind, x = symbol
        if kind.startswith('function'):
            return dom.find_symbol('total')(n=2)
        if 'constant' in kind:
            return dom.find_symbol(x)
        if kind == 'enumeration':
            c = dom.find_symbol('Color')
            return [getattr(c, n) for n in SHADOW_ENUM]
        if kind == 'external entity':
            return dom.find_symbol('EE').b(p=1)
        return dom.find_class('K').cop(k=1)
    if st[0] == 'oalread':
        return dom.find_symbol('rd')()
    return dom.find_symbol('sw%d' % SHADOW_KINDS.index(st[1]))()


def compare_shadow_history(ctx, symbol, history, bp=None, spec=None):
    from bridgepoint import ooaofooa
    spec = spec or shadow_spec(symbol)
    bp = bp if bp is not None else build_mini_model(spec)
    case = dict(family='shadow', symbol=symbol, history=history)
    ref = relmodel.Ref(mini_schema(spec))
    dom = ooaofooa.mk_component(bp)
    for w in (3, 5):
        ref.new('K', dict(W=w))
    first = dom.new('K', W=3)
    dom.new('K', W=5)
    ctx.count('shadow_histories')
    called = False
    for pos, st in enumerate(history):
        exp = shadow_step_reference(spec, ref, symbol, st)
        what = 'shadow:%s' % (st[0] if st[0] != 'call' else 'call:' + st[1].replace(' ', '-'))
        text = 'step %d (%s) of history %s with variables spelled like the %s %s' % (pos, st, history, symbol[0], symbol[1])
        ctx.count('calls')
        ctx.count('shadow_steps')
        try:
            with core.time_limit(10.0):
                got = shadow_step_real(dom, first, symbol, st)
        except core.Timeout:
            ctx.violation('c15:%s:hang' % what, case, '%s does not return within 10 s' % text, None, 'timeout')
            return 'bad'
        except Exception as e:
            ctx.violation('c15:%s:crash:%s' % (what, type(e).__name__), case, '%s raised %s: %s; expected %r' % (text, type(e).__name__, e, exp),
                          norm_value(exp), type(e).__name__)
            return 'bad'
        if norm_value(got) != norm_value(exp):
            ctx.violation('c15:%s:value' % what, case, '%s delivered %r, expected %r' % (text, got, exp), norm_value(exp), norm_value(got))
            return 'bad'
        if st[0] == 'sandwich' or (called and st[0] != 'call'):
            ctx.count('shadow_reads_after_a_call')      # sw_<kind>() reads the symbol behind its own invocation
        if st[0] in ('call', 'sandwich'):
            called = True
        ctx.distinct('outcomes', ('shadow', symbol[0], repr(st), repr(norm_value(exp))))
    exp_pop = [ref.insts[i].values['W'] for i in ref.order['K']]
    got_pop = [i.W for i in dom.select_many('K')]
    if got_pop != exp_pop:
        ctx.violation('c15:shadow:population', case, 'history %s with variables spelled like the %s %s leaves K.W = %r, expected %r'
                      % (history, symbol[0], symbol[1], got_pop, exp_pop), exp_pop, got_pop)
        return 'bad'
    ctx.count('traces')
    ctx.distinct('nontrivial', ('shadow', symbol[0], repr(history)))
    return 'ok'


def shadow_task(ctx, task):
    tier, symbol, hs = task
    spec = shadow_spec(symbol)
    bp = build_mini_model(spec)
    for h in hs:
        compare_shadow_history(ctx, symbol, h, bp, spec)


# ---- row order ----------------------------------------------------------------------

PERM_TABLES = ['S_ENUM', 'S_SPARM', 'O_TPARM', 'CNST_SYC', 'CNST_LSC', 'S_SYNC', 'O_TFR', 'O_ATTR']


def split_statements(text):
    '''INSERT statements of a serialised instance text (values never contain ";\\n" at the start of a line here).'''
    parts = text.split(');\n')
    return [p + ');\n' for p in parts if p.strip()]


def permutations_of(stmts, table, limit=24):
    idx = [i for i, s in enumerate(stmts) if s.startswith('INSERT INTO %s ' % table)]
    rows = [stmts[i] for i in idx]
    if len(rows) < 2:
        return
    n = len(rows)
    if n <= 4:
        perms = list(itertools.permutations(range(n)))
    else:
        # the reversed table, every rotation, every exchange of two neighbouring rows
        perms = [tuple(range(n)), tuple(reversed(range(n)))] + [tuple(range(k, n)) + tuple(range(k)) for k in range(1, n)]
        perms += [tuple(range(k)) + (k + 1, k) + tuple(range(k + 2, n)) for k in range(n - 1)]
        limit = max(limit, len(perms))
    for perm in perms[1:limit]:
        out = list(stmts)
        for pos, j in zip(idx, perm):
            out[pos] = rows[j]
        yield list(perm), out


def roworder_task(ctx, task):
    import xtuml
    from bridgepoint import ooaofooa
    tier, system, table = task
    bp = build_bp_model(system)
    text = xtuml.serialize_instances(bp)
    stmts = split_statements(text)
    es = [e for e in entries() if e[2] in ('pysymbols', 'pyfunc', 'pyop', 'pyderived', 'pyclash') or
          e[0] in ('oal:enumerators', 'oal:permuted parameters', 'oal:operation', 'oal:constants 0, false, "", 0.0 in conditions',
                   'oal:constants 0, false, "", 0.0 in expressions', 'oal:class operation named like an attribute')]
    variants = [('identity', stmts), ('reversed file', stmts[::-1])]
    for perm, out in permutations_of(stmts, table):
        variants.append((perm, out))
    for desc, out in variants:
        loader = ooaofooa.ModelLoader(load_globals=False)
        loader.input(''.join(out))
        m2 = loader.build_metamodel()
        ctx.count('row_orders')
        for e in es:
            st = compare_entry(ctx, system, e, m2, 'roworder:%s' % table, extra=dict(table=table, order=desc))
            if st == 'ok':
                ctx.distinct('nontrivial', ('roworder', table, repr(desc), e[0]))


def run(ctx):
    sysl = systems(ctx.tier)
    k = ctx.seed % 5
    sysl = sysl[k:] + sysl[:k]
    ctx.pmap(system_task, [(ctx.tier, sysl[i:i + 4]) for i in range(0, len(sysl), 4)])
    cps = component_pairs(ctx.tier)
    ctx.pmap(two_component_task, [(ctx.tier, cps[i:i + 2]) for i in range(0, len(cps), 2)])
    ctx.require(ctx.n('two_component_calls') >= 200, 'too few calls with a second component alive (%d)' % ctx.n('two_component_calls'))
    base = dict((s, 0) for s in SLOTS)
    ro_systems = [base, dict(base, f=2, op=2, D=1)] if ctx.quick else [base, dict(base, f=2, op=2, D=1), dict(base, f=7, h=1, cop=1, b=2)]
    ctx.pmap(roworder_task, [(ctx.tier, s, t) for s in ro_systems for t in PERM_TABLES])
    hl = histories(HIST_LEN[ctx.tier])
    hl = hl[k:] + hl[:k]
    hchunk = 60 if ctx.quick else 400
    ctx.pmap(history_task, [(ctx.tier, s, hl[i:i + hchunk]) for s in history_systems() for i in range(0, len(hl), hchunk)])
    pairs = parameter_name_pairs(ctx.tier)
    pairs = pairs[k:] + pairs[:k]
    ctx.pmap(paramname_task, [(ctx.tier, pairs[i:i + 8]) for i in range(0, len(pairs), 8)])
    schunk = 40 if ctx.quick else 400
    stasks = []
    for symbol in SHADOW_SYMBOLS:
        sh = shadow_histories(symbol, ctx.tier)
        sh = sh[k:] + sh[:k]
        stasks += [(ctx.tier, symbol, sh[i:i + schunk]) for i in range(0, len(sh), schunk)]
    ctx.pmap(shadow_task, stasks)
    ctx.sample(dict(parameter_names=[n for n, _ in parameter_names(ctx.tier)][:12], pf_body=body_text(pn_spec('label')[0]['functions'][0][3]),
                    shadow_bodies=[body_text(f[3]) for f in shadow_spec(SHADOW_SYMBOLS[2])['functions'][1:4]]))
    ctx.sample(dict(system=dict((s, BODIES[s][sysl[0][s]][0]) for s in SLOTS), f_body=body_text(BODIES['f'][sysl[0]['f']][1]),
                    entries=[e[0] for e in entries()][:6]))
    ctx.sample(dict(body_F4=body_text(BODIES['f'][3][1]), body_C2=body_text(BODIES['cop'][1][1])))
    ctx.require(ctx.n('systems') >= 30, 'too few call systems (%d)' % ctx.n('systems'))
    ctx.require(ctx.n('calls') >= 1000, 'too few entry calls (%d)' % ctx.n('calls'))
    ctx.require(ctx.n('row_orders') >= 50, 'too few row orders (%d)' % ctx.n('row_orders'))
    ctx.require(ctx.nd('outcomes') >= 25, 'too few distinct outcomes (%d)' % ctx.nd('outcomes'))
    ctx.require(ctx.n('histories') >= 1000, 'too few histories (%d)' % ctx.n('histories'))
    ctx.require(ctx.n('history_rejected_reads') >= 200, 'too few rejected reads in histories (%d)' % ctx.n('history_rejected_reads'))
    ctx.require(ctx.n('parameter_names') >= 150 and ctx.n('paramname_calls') >= 800,
                'too few parameter names / calls with them (%d / %d)' % (ctx.n('parameter_names'), ctx.n('paramname_calls')))
    by_source = dict((src, sum(1 for _, s_ in parameter_names(ctx.tier) if s_ == src)) for src in set(s_ for _, s_ in parameter_names(ctx.tier)))
    ctx.require(by_source.get('parameter or variable of a library function', 0) >= 60 and by_source.get('python keyword', 0) >= 15,
                'too few names of library parameters / python keywords among the parameter names (%r)' % by_source)
    ctx.require(ctx.n('shadow_histories') >= 2000 and ctx.n('shadow_reads_after_a_call') >= 1000,
                'too few histories with variables spelled like domain symbols / reads of the symbol after such a variable was written (%d / %d)'
                % (ctx.n('shadow_histories'), ctx.n('shadow_reads_after_a_call')))
    ctx.require(ctx.n('history_recovered_reads') >= 50, 'too few accepted reads after a rejected read of the same attribute of the '
                'same instance (%d)' % ctx.n('history_recovered_reads'))


def replay(ctx, case):
    if case.get('family') == 'paramname':
        compare_parameter_name(ctx, case['name'], case['entry'], None, case['partner'])
        return
    if case.get('family') == 'shadow':
        compare_shadow_history(ctx, case['symbol'], case['history'])
        return
    system = case['system']
    if case.get('family') == 'history':
        compare_history(ctx, system, case['history'], build_bp_model(system))
        return
    entry = [e for e in entries() if e[0] == case['entry']][0]
    if case.get('family') == 'two-components':
        compare_entry(ctx, system, entry, build_bp_model(system), 'two-components', extra=dict(other_system=case['other_system']),
                      other_bp=build_bp_model(case['other_system']))
    elif case.get('family', 'api') == 'api':
        compare_entry(ctx, system, entry, build_bp_model(system), 'api')
    else:
        import xtuml
        from bridgepoint import ooaofooa
        bp = build_bp_model(system)
        stmts = split_statements(xtuml.serialize_instances(bp))
        order = case.get('order')
        out = stmts
        if order == 'reversed file':
            out = stmts[::-1]
        elif isinstance(order, list):
            for perm, o in permutations_of(stmts, case['table'], limit=10 ** 6):
                if perm == order:
                    out = o
        loader = ooaofooa.ModelLoader(load_globals=False)
        loader.input(''.join(out))
        compare_entry(ctx, system, entry, loader.build_metamodel(), case['family'], extra=dict(table=case.get('table'), order=order))


def coverage(ctx):
    return dict(
        states=ctx.n('systems') + ctx.n('row_orders'),
        transitions=ctx.n('calls'),
        traces_validated_against_impl=ctx.n('traces'),
        evaluations=ctx.n('calls'), out_of_domain=ctx.n('out_of_domain'),
        call_systems=ctx.n('systems'), row_orders=ctx.n('row_orders'),
        histories=ctx.n('histories'), history_reads=ctx.n('history_reads'), history_rejected_reads=ctx.n('history_rejected_reads'),
        history_reads_accepted_after_a_rejected_read=ctx.n('history_recovered_reads'),
        parameter_names=ctx.n('parameter_names'), calls_with_named_parameters=ctx.n('paramname_calls'),
        calls_with_named_parameters_skipped_as_known_defect=ctx.n('paramname_known_defect_skipped'),
        shadow_histories=ctx.n('shadow_histories'), shadow_steps=ctx.n('shadow_steps'),
        shadow_reads_after_a_call=ctx.n('shadow_reads_after_a_call'),
        distinct_nontrivial=ctx.nd('nontrivial'), distinct_outcomes=ctx.nd('outcomes'),
        rule='states = call systems (assignments of bodies to f, g, h, A.op, A.cop, A.D, EE::b) plus permuted model texts; every entry '
             'call of the menu (python and OAL callers) is executed on both sides; non-trivial = distinct (system, entry) pairs that '
             'were compared successfully (all involve at least one call into an OAL body); plus, per body of the derived attribute, '
             'every executable step sequence of the stated length over the history alphabet that ends with a read; plus, per '
             'parameter name of the alphabet, the six entries of the parameter-name model; plus, per domain symbol, the step '
             'sequences over callables writing a variable spelled like the symbol and reads of the symbol',
        bounds=dict(bodies=dict((s, [b[0] for b in BODIES[s]]) for s in SLOTS), entries=len(entries()),
                    entries_over_constants_and_same_named_members=len(extra_entries()),
                    constants=dict((name, value) for name, _, value, _ in CONSTANTS),
                    class_C=dict(attributes=['Id', 'count', 'total'], operations=dict((n, 'instance' if C_INSTANCE_BASED[n] else 'class') for n in C_BODIES)),
                    row_permutations='tables of up to four rows: every order; longer ones: the reversed table, every rotation, every exchange of two neighbouring rows',
                    systems='full product + the single deviations to the bodies of SINGLE_ONLY' if ctx.thorough else 'default + every single deviation + product of a sub-menu',
                    permuted_tables=PERM_TABLES,
                    bodies_explored_as_single_deviations_only=SINGLE_ONLY,
                    external_entity_CALC=dict(bridges=[(n, [pn for pn, _ in ps], rt) for n, ps, rt, _ in CALC_BRIDGES],
                                              python_calls=len(CALC_PY_CALLS), orders='as listed and reversed'),
                    bodies_outside_the_call_system_product=dict((s, [b[0] for b in BODIES[s][n:]]) for s, n in N_PRODUCT.items()),
                    parameter_names=dict(alphabet=len(parameter_names(ctx.tier)),
                                         sources=dict((src, sum(1 for _, s_ in parameter_names(ctx.tier) if s_ == src))
                                                      for src in sorted(set(s_ for _, s_ in parameter_names(ctx.tier)))),
                                         partner='q' if ctx.quick else 'q, and the next name of the alphabet', entries=PN_ENTRIES,
                                         known_defect_kept_out=dict((n, list(e)) for n, e in PN_KNOWN.items())),
                    variables_spelled_like_symbols=dict(symbols=SHADOW_SYMBOLS, kinds=SHADOW_KINDS, forms=SHADOW_FORMS + ['assign from the constant'],
                                                        steps=SHADOW_LEN[ctx.tier],
                                                        histories='every sequence of steps-1 steps; every sequence of that many steps that '
                                                                  'starts with a read of the symbol and ends with a read'),
                    history=dict(length=HIST_LEN[ctx.tier], alphabet=HIST_ALPHABET, initial_population='one instance i0 with N = 0',
                                 max_instances=2, systems=[BODIES['D'][s['D']][0] for s in history_systems()])),
        exhaustive=not ctx.caps_hit,
    )
