'''
C01 -- persisted models load back unchanged (schema, values, links).

E2 + E3: exhaustive families of metamodels (values, association shapes with
every resolving population, key types, names that are words of the format,
definition orders), each sent through every serialization route; the reloaded
metamodel must have the same canonical snapshot, and serialising the reloaded
metamodel must be a fixed point.

History family: a populated metamodel is saved (by every serialization route),
the schema of one of its classes is then edited live (append_attribute /
insert_attribute / delete_attribute, values of a new attribute assigned on the
existing instances, a further instance created), possibly saved and edited
again, and only then sent through the round-trip oracle: what an earlier save
did must not show in a later one.

Late family: the population is created BEFORE its associations are defined and
formalized (raw values in the later referential attributes), connected by those
values (batch_relate / the loader's populate_connections / not at all) and the
links then edited with relate / unrelate; the round-trip oracle follows.

Phrases: the link family carries schemas whose association phrases are full of
characters that mean something to the text format or to string formatting
(PHRASES); the phrases family enumerates every phrase over PHRASE_ALPHABET up to
a length on one linked population.
'''
import itertools
import os

from mc import bootstrap, core
from mc.refs import relmodel, schemas, sqlmodel

NEEDS_BRIDGEPOINT = False
BUDGET_S = {'quick': 3600, 'thorough': 14400}
ASSUMPTIONS = [
    'persistable domain: referential values resolve or are null; identifying values of non-nullable types (integer, real, '
    'boolean) avoid the serialised null when an unlinked referring instance exists; no inf/nan; names do not lex as '
    'relationship numbers (R<n>); phrases may hold quotes, single or doubled (a lone quote could not be persisted before the '
    'repair F-C01b: it is written doubled and read back undoubled, like quotes in string values)',
    'carriage returns inside strings are compared on the string routes only (text-mode file reading normalises them)',
    'ids are below 2^128',
    'link family: besides the shared association shapes, key types, composite keys and all cardinalities: four schemas in which '
    'two associations end at one class through different identifiers of it (same / different referential attribute names in '
    'the referring classes, keys of different types or of one type with values crossed over the instances, one referring '
    'class with two referentials, overlapping composite / single identifiers), 1-2 instances per class, every resolving '
    'population',
    'phrases: the schemas phrase_<i> / phrase_refl_<i> / phrase_one_end_<i> of the link family carry the phrases of PHRASES '
    '(percent signs alone, doubled, as conversion look-alikes %s %d %(k)s, doubled quotes, statement punctuation, comment marker, '
    'newline, tab, NUL, backslash, double quotes, non-ASCII, words of the format) on both ends / on one end, 1-2 instances per '
    'class and at most 3 in all (thorough: 0-2 per class), every resolving population, every route; the phrases family enumerates every non-empty phrase over '
    'PHRASE_ALPHABET up to length 2 (thorough: 3) on one linked population (phrase on the referring end / the referred end / '
    'both, by position), one route per serialisation function',
    'nullkey family: every population of the link family in which an instance of a referred-to class is referred to by nobody and an '
    'instance of the referring class refers to nothing, with that referred-to instance holding the null value of its (single, string '
    'or unique_id, non-referential) key: the empty string, an unset unique_id, the unique_id 0; the two must not come back linked',
    'late family: the population is created first, with raw values (omitted = the default of the type stays behind, or the key of '
    'an existing instance) in the attributes that become referential, THEN the associations are defined and formalized; the '
    'instances are connected by those raw values through Association.batch_relate (before formalize), through the loader\'s '
    'populate_connections (after it) or not at all, and the links are then edited by up to 2 (quick) / 3 (thorough) relate / '
    'unrelate calls; schemas b (1:MC), f (reflexive with phrases), g (association class), h (sub/super, the referential is '
    'the identifier) and a composite key; what the metamodel shows through its API (attribute reads, navigation) before it is '
    'serialised is what must load back; one route per serialisation function',
    'history family: an attribute added to a class that has instances is assigned on every existing instance (None = unset '
    'included) before the metamodel is saved again -- an instance without any value for a declared attribute is outside '
    'the domain (serialisation raises AttributeError); only attributes that are neither identifying nor referential are '
    'deleted; the final state goes through one route per serialisation function (no input-order permutations)',
]

STR_ALPHABET = ['a', "'", '-', '\n', '\x00', 'é', '"', ';', '(', ',', ' ']
STR_SPECIALS = ["''", '--', "'--", "--'\n", 'x' * 200, "it''s", ' -- c\n', "');\nINSERT INTO V VALUES (", '\t', '\\', "\\'", '\r\n', 'a\rb']
INTS = [0, 1, -1, 2 ** 31, -2 ** 31, 2 ** 63, -2 ** 63, 2 ** 64 + 1, -(2 ** 64 + 1), 10 ** 30]
REALS = [0.0, -0.0, 0.5, -1.5, 1e-7, 123456.1234565, 1e15 + 0.5, 1e22, -1e300]
IDS = [0, 1, 2 ** 64, 2 ** 128 - 1]
BOOLS = [False, True]
# association phrases (both navigation directions)
PHRASES = ['%', '%%', '%s', 'owns 100% of', 'taxes (%d, %(k)s)', "it''s", "''", "it's", "'", "a'", "'b''", 'a; b', '-- c', 'x\ny', '\t\\', 'x\x00"q"', '\xe9 \u20ac', "'' TO 1 A (Id)",
           ' PHRASE ']
PHRASE_ALPHABET = ['%', 's', "'", ' ', '(', ';', '-', '\n', '"', '\xe9', ',', 'd']
PHRASE_EXCLUDED = []           # (a lone quote used to be excluded: F-C01b, repaired in /repo by f86b6ef)
RESERVED = ['CREATE', 'FALSE', 'FROM', 'INDEX', 'INSERT', 'INTO', 'ON', 'PHRASE', 'REF_ID', 'ROP', 'TABLE', 'TO', 'TRUE',
            'UNIQUE', 'VALUES', 'M', 'MC', 'create', 'Values', 'Rop']


# ---------------------------------------------------------------------------
# building M0 from a JSON-able case description
# ---------------------------------------------------------------------------

def build_case(xtuml, case):
    '''case = dict(classes=[(kind, [(attr, type)])], uniques=[(kind, name, [attrs])], assocs=[Assoc.as_json()],
                   rows=[(kind, {attr: value or None})], links=[(row index, row index, rel, phrase)], unset=[(row, attr)])'''
    m = xtuml.MetaModel(xtuml.IntegerGenerator())
    for kind, attrs in case['classes']:
        m.define_class(kind, [tuple(a) for a in attrs])
    for kind, name, attrs in case.get('uniques', []):
        m.define_unique_identifier(kind, name, *attrs)
    late = case.get('late')
    if not late:
        for a in case.get('assocs', []):
            rel, src, skeys, smany, scond, sphrase, tgt, tkeys, tmany, tcond, tphrase = a
            ass = m.define_association(rel, src, list(skeys), smany, scond, sphrase, tgt, list(tkeys), tmany, tcond, tphrase)
            ass.formalize()
    insts = []
    for kind, values in case.get('rows', []):
        inst = m.new(kind, **dict((k, v) for k, v in values.items()))
        insts.append(inst)
    for r, attr in case.get('unset', []):
        setattr(insts[r], attr, None)
    if late:
        # the population exists (with raw values in the attributes that become referential) BEFORE the associations are
        # defined and formalized; the instances are then connected by their raw values (Association.batch_relate, or the
        # loader's populate_connections, or not at all) and the links edited through relate / unrelate
        for a in case.get('assocs', []):
            rel, src, skeys, smany, scond, sphrase, tgt, tkeys, tmany, tcond, tphrase = a
            ass = m.define_association(rel, src, list(skeys), smany, scond, sphrase, tgt, list(tkeys), tmany, tcond, tphrase)
            if late['connect'] == 'batch_relate':
                ass.batch_relate()
            ass.formalize()
        if late['connect'] == 'populate_connections':
            xtuml.ModelLoader().populate_connections(m)
        for name, x, y, rel, phrase in late['edits']:
            (xtuml.relate if name == 'relate' else xtuml.unrelate)(insts[x], insts[y], rel, phrase)
    for x, y, rel, phrase in case.get('links', []):
        xtuml.relate(insts[x], insts[y], rel, phrase)
    for step in case.get('history', []):
        history_step(xtuml, m, step)
    return m


SAVE_ROUTES = ['serialize_database', 'serialize_instances', 'serialize_instance', 'serialize(metamodel)', 'serialize(instance)',
               'persist_database', 'persist_instances']


class SaveFailed(Exception):
    pass


def history_step(xtuml, m, step):
    '''One step of a history: ['save', route] | ['append', kind, name, type, values per existing instance] |
    ['insert', kind, index, name, type, values] | ['delete', kind, name] | ['new', kind, {attr: value}]'''
    name = step[0]
    if name == 'save':
        try:
            save(xtuml, m, step[1])
        except Exception as e:
            raise SaveFailed('%s raised %s: %s' % (step[1], type(e).__name__, e))
    elif name in ('append', 'insert'):
        kind = step[1]
        mc = m.find_metaclass(kind)
        if name == 'append':
            attr, ty, values = step[2], step[3], step[4]
            mc.append_attribute(attr, ty)
        else:
            attr, ty, values = step[3], step[4], step[5]
            mc.insert_attribute(step[2], attr, ty)
        for inst, v in zip(list(m.select_many(kind)), values):
            setattr(inst, attr, v)
    elif name == 'delete':
        m.find_metaclass(step[1]).delete_attribute(step[2])
    elif name == 'new':
        m.new(step[1], **step[2])
    else:
        raise ValueError(step)


def save(xtuml, m, route):
    '''An earlier save of the metamodel; the result is thrown away.'''
    if route == 'serialize_database':
        xtuml.serialize_database(m)
    elif route == 'serialize_instances':
        xtuml.serialize_instances(m)
    elif route == 'serialize(metamodel)':
        xtuml.serialize(m)
    elif route in ('serialize_instance', 'serialize(instance)'):
        fn = xtuml.serialize_instance if route == 'serialize_instance' else xtuml.serialize
        for mc in list(m.metaclasses.values()):
            for inst in list(mc.storage):
                fn(inst)
    elif route in ('persist_database', 'persist_instances'):
        path = os.path.join(bootstrap.tmpdir(), 'c01-save-%d.sql' % os.getpid())
        getattr(xtuml, route)(m, path)
        try:
            os.unlink(path)
        except OSError:
            pass
    else:
        raise ValueError(route)


def load_text(xtuml, texts):
    l = xtuml.ModelLoader()
    for t in texts:
        l.input(t)
    return l.build_metamodel(xtuml.IntegerGenerator())


def routes(xtuml, m0, with_files=True, tag='', full=True):
    '''Yields (route name, reloaded metamodel). full=False: one route per serialisation function.'''
    db = xtuml.serialize_database(m0)
    yield 'serialize_database', load_text(xtuml, [db])
    parts = [xtuml.serialize_schema(m0), xtuml.serialize_instances(m0), xtuml.serialize_unique_identifiers(m0)]
    yield 'schema+instances+identifiers:one-text', load_text(xtuml, [''.join(parts)])
    for perm in itertools.permutations(range(3)):
        if not full:
            break
        yield 'schema+instances+identifiers:inputs:%s' % (perm,), load_text(xtuml, [parts[i] for i in perm])
    yield 'serialize()', load_text(xtuml, [xtuml.serialize(m0)])
    if with_files:
        d = bootstrap.tmpdir()
        base = os.path.join(d, 'c01-%d-%s' % (os.getpid(), tag))
        p = base + '.db.sql'
        xtuml.persist_database(m0, p)
        yield 'persist_database', xtuml.load_metamodel(p)
        ps, pi, pu = base + '.schema.sql', base + '.inst.sql', base + '.uniq.sql'
        xtuml.persist_schema(m0, ps)
        xtuml.persist_instances(m0, pi)
        xtuml.persist_unique_identifiers(m0, pu)
        for perm in ((0, 1, 2), (2, 1, 0), (1, 0, 2)) if full else ((0, 1, 2),):
            files = [[ps, pi, pu][i] for i in perm]
            yield 'persist_schema+instances+identifiers:%s' % (perm,), xtuml.load_metamodel(files)
        # one file written in three steps with mode='a'
        pa = base + '.append.sql'
        if full:
            xtuml.persist_schema(m0, pa)
            xtuml.persist_instances(m0, pa, mode='a')
            xtuml.persist_unique_identifiers(m0, pa, mode='a')
            yield 'persist_*:append-mode', xtuml.load_metamodel(pa)
        try:
            os.unlink(pa)
        except OSError:
            pass
        for f in (p, ps, pi, pu):
            try:
                os.unlink(f)
            except OSError:
                pass


def has_cr(case):
    return any(isinstance(v, str) and '\r' in v for _, vals in case.get('rows', []) for v in vals.values())


def check_case(ctx, case, family):
    import xtuml
    try:
        with core.time_limit(30):
            return _check_case(ctx, xtuml, case, family)
    except core.Timeout:
        ctx.violation('c01:hang', dict(case=case, family=family), 'round trip does not finish within 30 s')
        return False
    except core.HarnessError:
        raise
    except Exception as e:
        # raised by the code under test outside the guarded routes (snapshot of the built metamodel, serialize() dispatch)
        import traceback
        ctx.violation('c01:%s:crash:%s' % (family, type(e).__name__), dict(case=case, family=family),
                      'serialising the metamodel raised %s: %s' % (type(e).__name__, e), None, traceback.format_exc()[-1200:],
                      unit_test=unit_test(case, '?'))
        return False


def _check_case(ctx, xtuml, case, family):
    try:
        m0 = build_case(xtuml, case)
    except xtuml.MetaException:
        ctx.count('not_constructible')       # e.g. the API rejects a link combination: not a metamodel of the domain
        return None
    except SaveFailed as e:
        ctx.violation('c01:%s:save:exception' % family, dict(case=case, family=family),
                      'an earlier save in the history failed: %s' % e, unit_test=unit_test(case, '?'))
        return False
    s0 = sqlmodel.snapshot(xtuml, m0)
    ctx.count('cases')
    vcase = dict(case=case, family=family)
    ok = True
    for name, m1 in _safe_routes(ctx, xtuml, m0, case, vcase, family):
        ctx.count('loads')
        s1 = sqlmodel.snapshot(xtuml, m1)
        d = sqlmodel.diff(s0, s1)
        if d:
            what = d.split(':', 1)[0].strip('.').split('.')[0].split('[')[0] or 'snapshot'
            ctx.violation('c01:%s:%s' % (family, what), dict(vcase, route=name),
                          'route %s: reloaded metamodel differs: %s' % (name, d), None, d, unit_test=unit_test(case, name))
            ok = False
            continue
        # fixed point after one round
        t2 = xtuml.serialize(m1)
        t3 = xtuml.serialize(load_text(xtuml, [t2]))
        ctx.count('loads')
        if t2 != t3:
            ctx.violation('c01:%s:fixed-point' % family, dict(vcase, route=name),
                          'route %s: serialising the reloaded metamodel is not a fixed point' % name, t2[:400], t3[:400],
                          unit_test=unit_test(case, name))
            ok = False
            continue
        ctx.count('traces')
    # serialize() dispatch equals the specific functions
    for kind, _ in case['classes']:
        cls = m0.find_class(kind)
        if xtuml.serialize(cls) != xtuml.serialize_class(cls):
            ctx.violation('c01:%s:dispatch' % family, vcase, 'serialize(class) differs from serialize_class')
            ok = False
        for inst in m0.select_many(kind):
            if xtuml.serialize(inst) != xtuml.serialize_instance(inst):
                ctx.violation('c01:%s:dispatch' % family, vcase, 'serialize(instance) differs from serialize_instance')
                ok = False
    for ass in m0.associations:
        if xtuml.serialize(ass) != xtuml.serialize_association(ass):
            ctx.violation('c01:%s:dispatch' % family, vcase, 'serialize(association) differs from serialize_association')
            ok = False
    # instances only, without CREATE TABLE (populations without associations)
    if not case.get('assocs') and case.get('rows'):
        ok = check_inferred(ctx, xtuml, m0, case, vcase, family) and ok
    return ok


def _safe_routes(ctx, xtuml, m0, case, vcase, family):
    gen = routes(xtuml, m0, with_files=not has_cr(case), tag=str(ctx.n('cases')), full=not (case.get('history') or case.get('late') or case.get('brief')))
    while True:
        try:
            item = next(gen)
        except StopIteration:
            return
        except Exception as e:
            ctx.violation('c01:%s:exception:%s' % (family, type(e).__name__), vcase,
                          'a serialization route raised %s: %s' % (type(e).__name__, e), None, type(e).__name__,
                          unit_test=unit_test(case, '?'))
            return
        yield item


def check_inferred(ctx, xtuml, m0, case, vcase, family):
    text = xtuml.serialize_instances(m0)
    try:
        m1 = load_text(xtuml, [text])
    except Exception as e:
        ctx.violation('c01:%s:inferred:exception:%s' % (family, type(e).__name__), dict(vcase, route='instances-only'),
                      'loading instances without CREATE TABLE raised %s: %s' % (type(e).__name__, e))
        return False
    ctx.count('loads')
    for kind, attrs in case['classes']:
        attrs = list(m0.find_metaclass(kind).attributes)      # (the declared ones, unless a history edited the class)
        exp = []
        for inst in m0.select_many(kind):
            row = []
            for n, t in attrs:
                v = sqlmodel.norm_value(getattr(inst, n), t)
                if v[0] == 'bool':
                    v = ['int', int(v[1])]
                row.append(v)
            exp.append(row)
        if not exp:
            continue
        mc = m1.find_metaclass(kind)
        got = []
        for inst in m1.select_many(kind):
            got.append([sqlmodel.norm_value(getattr(inst, n), t) for n, t in mc.attributes])
        if got != exp:
            ctx.violation('c01:%s:inferred:values' % family, dict(vcase, route='instances-only'),
                          'instances loaded without CREATE TABLE differ: %s' % sqlmodel.diff(exp, got), exp[:3], got[:3])
            return False
    ctx.count('traces')
    return True


def unit_test(case, route):
    return ('import xtuml\n# build the metamodel of this case (see mc/props/c01.py build_case; a "history" is applied after the\n'
            '# rows and links: save = serialize/persist and discard, append/insert/delete = MetaClass.*_attribute + setattr; with "late" the\n'
            '# rows are created before define_association/[batch_relate]/formalize/[ModelLoader().populate_connections(m)], edits follow), then e.g.\n'
            '# t = xtuml.serialize_database(m); l = xtuml.ModelLoader(); l.input(t); m1 = l.build_metamodel()\n'
            '# failing route: %s\ncase = %r' % (route, case))


# ---------------------------------------------------------------------------
# families
# ---------------------------------------------------------------------------

V_ATTRS = [('S', 'STRING'), ('I', 'INTEGER'), ('R', 'REAL'), ('B', 'BOOLEAN'), ('U', 'UNIQUE_ID')]


def values_family(tier):
    orders = [V_ATTRS, V_ATTRS[::-1], [V_ATTRS[1], V_ATTRS[0], V_ATTRS[3]]]
    strs = sqlmodel.strings(STR_ALPHABET, 2 if tier == 'quick' else 3) + STR_SPECIALS
    if tier == 'quick':
        strs += [a + b + c for a in ["'", '-', '\n'] for b in STR_ALPHABET for c in ["'", '-', ';']]
    base = dict(S='s', I=7, R=1.5, B=True, U=9)
    for oi, attrs in enumerate(orders):
        names = [n for n, _ in attrs]
        cls = [('V', attrs)]
        for s in strs:
            if oi == 2 and len(s) > 2 and s not in STR_SPECIALS:
                continue
            yield dict(classes=cls, rows=[('V', dict((n, base[n]) for n in names if n != 'S')), ('V', dict([(n, base[n]) for n in names if n != 'S'] + [('S', s)]))])
        if oi > 1:
            continue
        for i, r, u, b in itertools.product(INTS, REALS, IDS, BOOLS):
            if oi == 1 and (i, r) not in ((INTS[3], REALS[3]), (INTS[8], REALS[8]), (0, 0.0)):
                continue
            yield dict(classes=cls, rows=[('V', dict(S="q'", I=i, R=r, U=u, B=b))])
        for n in names:
            yield dict(classes=cls, rows=[('V', dict(base)), ('V', dict(base))], unset=[(1, n)])
        yield dict(classes=cls, rows=[('V', dict(base))], unset=[(0, n) for n in names])
        yield dict(classes=cls, rows=[])
    # lower / mixed case type names
    yield dict(classes=[('V', [('a', 'integer'), ('b', 'Unique_Id'), ('c', 'sTrInG'), ('d', 'real'), ('e', 'Boolean')])],
               rows=[('V', dict(a=3, b=4, c="x'y", d=2.25, e=True))])


KEY_VALUES = {'unique_id': [11, 12], 'integer': [5, 7], 'string': ['k', "m'"], 'real': [1.5, 2.5], 'boolean': [True]}


def key_schemas():
    out = list(schemas.shapes())
    A = relmodel.Assoc
    # phrases full of characters that mean something to the text format or to string formatting; on both ends of a
    # non-reflexive / reflexive association, and on one end only (either one)
    n = len(PHRASES)
    for i, ph in enumerate(PHRASES):
        other = PHRASES[(i + 1) % n]
        out.append(relmodel.Schema('phrase_%d' % i, [('A', [('Id', 'unique_id')]), ('B', [('Id', 'unique_id'), ('A_Id', 'unique_id')])],
                                   [A(7, 'B', ['A_Id'], True, True, ph, 'A', ['Id'], False, False, other)], [('A', 'I1', ['Id'])]))
        if i % 2 == 0:
            out.append(relmodel.Schema('phrase_refl_%d' % i, [('A', [('Id', 'unique_id'), ('Next_Id', 'unique_id')])],
                                       [A(3, 'A', ['Next_Id'], False, True, ph, 'A', ['Id'], False, True, other)], [('A', 'I1', ['Id'])]))
        else:
            ends = (ph, '') if i % 4 == 1 else ('', ph)
            out.append(relmodel.Schema('phrase_one_end_%d' % i, [('A', [('Id', 'unique_id')]), ('B', [('Id', 'unique_id'), ('A_Id', 'unique_id')])],
                                       [A(2, 'B', ['A_Id'], True, True, ends[0], 'A', ['Id'], False, True, ends[1])], []))
    for ty in ('integer', 'string', 'real', 'boolean'):
        out.append(relmodel.Schema('key_%s' % ty, [('A', [('Id', ty), ('N', 'integer')]), ('B', [('Id', 'unique_id'), ('A_Id', ty)])],
                                   [A(1, 'B', ['A_Id'], True, True, '', 'A', ['Id'], False, True, '')], [('A', 'I1', ['Id'])]))
    out.append(relmodel.Schema('key_two_attrs', [('A', [('K1', 'string'), ('K2', 'unique_id'), ('N', 'integer')]),
                                                 ('B', [('Id', 'unique_id'), ('Rb', 'unique_id'), ('Ra', 'string')])],
                               [A(1, 'B', ['Ra', 'Rb'], True, True, '', 'A', ['K1', 'K2'], False, False, '')],
                               [('A', 'I1', ['K1', 'K2']), ('A', 'I2', ['K2']), ('B', 'I1', ['Id'])]))
    # composite key whose referential names sort differently from the identifying names they pair with
    out.append(relmodel.Schema('key_two_attrs_crossed', [('A', [('K1', 'string'), ('K2', 'unique_id'), ('N', 'integer')]),
                                                         ('B', [('Id', 'unique_id'), ('Zb', 'string'), ('Ya', 'unique_id')])],
                               [A(1, 'B', ['Zb', 'Ya'], True, True, '', 'A', ['K1', 'K2'], False, False, '')],
                               [('A', 'I1', ['K2', 'K1']), ('B', 'I1', ['Id'])]))
    out.append(relmodel.Schema('key_two_attrs_same_type', [('A', [('P', 'integer'), ('Q', 'integer')]),
                                                           ('B', [('Id', 'unique_id'), ('Y', 'integer'), ('X', 'integer')])],
                               [A(1, 'B', ['Y', 'X'], True, True, '', 'A', ['P', 'Q'], False, True, '')], []))
    out.append(relmodel.Schema('phrased_non_reflexive', [('A', [('Id', 'unique_id')]), ('B', [('Id', 'unique_id'), ('A_Id', 'unique_id')])],
                               [A(7, 'B', ['A_Id'], True, True, 'is held by', 'A', ['Id'], False, False, 'holds')], [('A', 'I1', ['Id'])]))
    # several associations ending at ONE class through DIFFERENT identifiers of it; the referring classes use the same
    # referential attribute name / different names; keys of different types / of one type with crossed values
    # (P0.Alt == P1.Id: a link resolved through the wrong identifier reaches the wrong instance)
    out.append(relmodel.Schema('two_ids_same_ref_name',
                               [('P', [('Id', 'unique_id'), ('Serial', 'integer'), ('N', 'integer')]),
                                ('T', [('Id', 'unique_id'), ('Ref', 'unique_id')]), ('L', [('Id', 'unique_id'), ('Ref', 'integer')])],
                               [A(1, 'T', ['Ref'], True, True, '', 'P', ['Id'], False, True, ''),
                                A(2, 'L', ['Ref'], True, True, '', 'P', ['Serial'], False, True, '')],
                               [('P', 'I1', ['Id']), ('P', 'I2', ['Serial']), ('T', 'I1', ['Id']), ('L', 'I1', ['Id'])]))
    out.append(relmodel.Schema('two_ids_one_type_same_ref_name',
                               [('P', [('Id', 'unique_id'), ('Alt', 'unique_id')]),
                                ('T', [('Id', 'unique_id'), ('Ref', 'unique_id')]), ('L', [('Id', 'unique_id'), ('Ref', 'unique_id')])],
                               [A(2, 'L', ['Ref'], True, True, '', 'P', ['Alt'], False, True, ''),
                                A(1, 'T', ['Ref'], True, True, '', 'P', ['Id'], False, True, '')],
                               [('P', 'I1', ['Id']), ('P', 'I2', ['Alt'])]))
    out.append(relmodel.Schema('two_ids_one_referring_class',
                               [('P', [('Id', 'unique_id'), ('Serial', 'integer')]),
                                ('T', [('Id', 'unique_id'), ('P_Id', 'unique_id'), ('P_Serial', 'integer')])],
                               [A(1, 'T', ['P_Id'], True, True, '', 'P', ['Id'], False, True, ''),
                                A(2, 'T', ['P_Serial'], True, True, '', 'P', ['Serial'], False, True, '')],
                               [('P', 'I1', ['Id']), ('P', 'I2', ['Serial']), ('T', 'I1', ['Id'])]))
    out.append(relmodel.Schema('two_ids_overlapping',
                               [('P', [('K1', 'string'), ('K2', 'unique_id')]),
                                ('T', [('Id', 'unique_id'), ('Ra', 'string'), ('Rb', 'unique_id')]), ('L', [('Id', 'unique_id'), ('Rb', 'unique_id')])],
                               [A(1, 'T', ['Ra', 'Rb'], True, True, '', 'P', ['K1', 'K2'], False, True, ''),
                                A(2, 'L', ['Rb'], True, True, '', 'P', ['K2'], False, True, '')],
                               [('P', 'I1', ['K1', 'K2']), ('P', 'I2', ['K2'])]))
    # every (multiplicity, conditionality) combination of both ends
    n = 0
    for sm, sc, tm, tc in itertools.product((False, True), repeat=4):
        n += 1
        out.append(relmodel.Schema('card_%d' % n, [('A', [('Id', 'unique_id')]), ('B', [('Id', 'unique_id'), ('A_Id', 'unique_id')])],
                                   [A(1, 'B', ['A_Id'], sm, sc, '', 'A', ['Id'], tm, tc, '')], []))
    return out


def links_family(tier):
    cap = 2 if tier == 'quick' else 3
    for schema in key_schemas():
        kinds = schema.kinds()
        sizes = [range(0, cap + 1) if schema.name.startswith(('a_', 'b_', 'e_', 'g_', 'key_')) or tier == 'thorough' else (1, 2)
                 for _ in kinds]
        if schema.name.startswith('phrase_'):
            sizes = [(1, 2) if tier == 'quick' else range(0, 3) for _ in kinds]
        for counts in itertools.product(*sizes):
            if sum(counts) == 0 or sum(counts) > (4 if tier == 'quick' else 6):
                continue
            if tier == 'quick' and schema.name.startswith('phrase_') and sum(counts) > 3:
                continue
            rows = []
            per_kind = {}
            for kind, n in zip(kinds, counts):
                refs = schema.referentials(kind)
                for j in range(n):
                    values = {}
                    for an, ty in schema.attrs(kind):
                        if an in refs:
                            continue
                        pool = KEY_VALUES.get(ty.lower())
                        is_key = any(an in a.tkeys and a.tgt == kind for a in schema.assocs)
                        if is_key and ty.lower() == 'integer' and an == 'Q':
                            values[an] = [7, 5][j] if j < 2 else None
                            if values[an] is None:
                                values = None
                                break
                            continue
                        if is_key and ty.lower() != 'unique_id':
                            if j >= len(pool):
                                values = None
                                break
                            values[an] = pool[j]
                        elif ty.lower() == 'unique_id':
                            # (a second identifier 'Alt' takes the values of 'Id' crossed over the instances)
                            # (a third instance keeps its own value: identifying values stay unique, referentials resolve)
                            values[an] = 100 * (kinds.index(kind) + 1) + (j if an != 'Alt' or j >= 2 else (j + 1) % 2)
                        elif ty.lower() == 'string':
                            values[an] = pool[j % 2] if an.startswith('K') else 'n%d' % j
                        elif ty.lower() == 'integer':
                            values[an] = j
                    if values is None:
                        break
                    per_kind.setdefault(kind, []).append(len(rows))
                    rows.append((kind, values))
                else:
                    continue
                break
            else:
                # every function referring instance -> (referred instance | None), per association
                choices = []
                for ai, a in enumerate(schema.assocs):
                    srcs = per_kind.get(a.src, [])
                    tgts = per_kind.get(a.tgt, [])
                    for s in srcs:
                        choices.append([(s, None, ai)] + [(s, t, ai) for t in tgts])
                total = 1
                for c in choices:
                    total *= len(c)
                if total > (200 if tier == 'quick' else 3000):
                    continue
                for combo in itertools.product(*choices):
                    links = []
                    for s, t, ai in combo:
                        if t is not None:
                            a = schema.assocs[ai]
                            links.append((s, t, a.rel, a.sphrase))
                    yield dict(classes=schema.classes, uniques=schema.uniques, assocs=[a.as_json() for a in schema.assocs],
                               rows=rows, links=links, schema=schema.name)


def nullkey_family(tier):
    """(round 11, C01-21) link populations in which a referred-to instance that nobody refers to holds the NULL value of its key's
    type (empty string; unique_id unset or 0) while an instance of the referring class refers to nothing: the two must not
    come back linked.  Derived from the link family: every population with such a pair, one variant per null form."""
    for case in links_family(tier):
        if case['schema'].startswith(('phrase_', 'card_')) and tier == 'quick' and not case['schema'].endswith(('_0', '_1', '_6', '_11')):
            continue
        types = dict((kind, dict((a, t.lower()) for a, t in attrs)) for kind, attrs in case['classes'])
        refs = {}
        for a in case['assocs']:
            refs.setdefault(a[1], set()).update(a[2])
        done = set()
        for a in case['assocs']:
            rel, src, skeys, tgt, tkeys = a[0], a[1], a[2], a[6], a[7]
            if len(tkeys) != 1 or types[tgt][tkeys[0]] not in ('string', 'unique_id') or tkeys[0] in refs.get(tgt, ()):
                continue
            key = tkeys[0]
            # the same attribute may be the key of other associations too: nobody may refer to the instance through any of them
            rels = [b for b in case['assocs'] if b[6] == tgt and key in b[7]]
            linked_to = set(y for x, y, r, ph in case['links'] if any(b[0] == r for b in rels))
            srcs = [i for i, (k, _) in enumerate(case['rows']) if k == src]
            unlinked = [i for i in srcs if not any(x == i and r == rel for x, y, r, ph in case['links'])]
            if not unlinked:
                continue
            for t, (k, vals) in enumerate(case['rows']):
                if k != tgt or t in linked_to or (t, key) in done:
                    continue
                if src == tgt and unlinked == [t]:
                    continue
                done.add((t, key))
                forms = [('value', '')] if types[tgt][key] == 'string' else [('unset', None), ('value', 0)]
                for how, v in forms:
                    rows = [(kk, dict(vv)) for kk, vv in case['rows']]
                    c = dict(case, rows=rows, nullkey=[t, key, how])
                    if how == 'value':
                        rows[t][1][key] = v
                    else:
                        rows[t][1].pop(key, None)
                        c['unset'] = [(t, key)]
                    yield c


def keyword_family():
    for w in RESERVED:
        other = 'Other'
        yield dict(classes=[(w, [(w, 'INTEGER'), ('Id', 'UNIQUE_ID')]), (other, [('Id', 'UNIQUE_ID'), (w, 'UNIQUE_ID')])],
                   uniques=[(w, w, ['Id', w]), (other, 'I1', ['Id'])],
                   assocs=[[5, other, [w], True, True, w, w, ['Id'], False, True, 'not ' + w]],
                   rows=[(w, {w: 3, 'Id': 21}), (other, {'Id': 31})], links=[(1, 0, 5, w)], word=w)
    # all at once: classes named after different words referring to each other
    ws = RESERVED[:15]
    classes = [(w, [('Id', 'UNIQUE_ID'), (ws[(i + 1) % len(ws)], 'UNIQUE_ID'), (ws[(i + 2) % len(ws)], 'STRING')]) for i, w in enumerate(ws)]
    assocs = [[10 + i, w, [ws[(i + 1) % len(ws)]], True, True, '', ws[(i + 1) % len(ws)], ['Id'], False, True, ''] for i, w in enumerate(ws)]
    rows = [(w, {'Id': 50 + i, ws[(i + 2) % len(ws)]: w.lower()}) for i, w in enumerate(ws)]
    links = [(i, (i + 1) % len(ws), 10 + i, '') for i in range(len(ws))]
    yield dict(classes=classes, uniques=[(w, 'I1', ['Id']) for w in ws], assocs=assocs, rows=rows, links=links, word='all')


def phrases_family(tier):
    '''Every non-empty phrase over PHRASE_ALPHABET up to a length, on one linked population.'''
    classes = [('A', [('Id', 'UNIQUE_ID')]), ('B', [('Id', 'UNIQUE_ID'), ('A_Id', 'UNIQUE_ID')])]
    rows = [('A', {'Id': 11}), ('B', {'Id': 21}), ('B', {'Id': 22})]
    for i, ph in enumerate(sqlmodel.strings(PHRASE_ALPHABET, 2 if tier == 'quick' else 3)[1:]):
        sphrase, tphrase = [(ph, 'r' + ph), (ph, ''), ('', ph)][i % 3]
        yield dict(classes=classes, uniques=[('A', 'I1', ['Id'])],
                   assocs=[[4, 'B', ['A_Id'], True, True, sphrase, 'A', ['Id'], False, True, tphrase]],
                   rows=rows, links=[(1, 0, 4, sphrase)], brief=True)


def order_family():
    classes = [('A', [('Id', 'UNIQUE_ID')]), ('B', [('Id', 'UNIQUE_ID'), ('A_Id', 'UNIQUE_ID')]),
               ('C', [('Id', 'UNIQUE_ID'), ('A_Id', 'UNIQUE_ID'), ('B_Id', 'UNIQUE_ID')])]
    assocs = [[2, 'C', ['A_Id'], True, True, '', 'A', ['Id'], False, False, ''], [1, 'B', ['A_Id'], True, True, '', 'A', ['Id'], False, True, ''],
              [2, 'C', ['B_Id'], True, True, '', 'B', ['Id'], False, False, '']]
    rows = [('C', {'Id': 31}), ('A', {'Id': 11}), ('B', {'Id': 21}), ('A', {'Id': 12}), ('C', {'Id': 32})]
    links = [(0, 1, 2, ''), (0, 2, 2, ''), (2, 3, 1, ''), (4, 3, 2, '')]
    for cp in itertools.permutations(range(3)):
        for ap in itertools.permutations(range(3)):
            yield dict(classes=[classes[i] for i in cp], assocs=[assocs[i] for i in ap],
                       uniques=[('B', 'I2', ['Id', 'A_Id']), ('A', 'I1', ['Id']), ('B', 'I1', ['Id'])], rows=rows, links=links)


HIST_VALUES = {'STRING': ["it's", ''], 'INTEGER': [5, -1], 'REAL': [1.5, 0.0], 'BOOLEAN': [True, False], 'UNIQUE_ID': [2 ** 64, None]}
HIST_NEW = {'STRING': 'n', 'INTEGER': 3, 'REAL': 2.5, 'BOOLEAN': True, 'UNIQUE_ID': 77}
HIST_PAIR_ROUTES = ['serialize_instances', 'serialize(instance)', 'persist_database']


def history_bases():
    yield 'V', dict(classes=[('V', [('S', 'STRING'), ('I', 'INTEGER'), ('U', 'UNIQUE_ID')])],
                    rows=[('V', dict(S="q'", I=7, U=9)), ('V', dict(S='-- x', I=-2, U=10))]), {'V': ['S', 'I']}
    yield 'AB', dict(classes=[('A', [('Id', 'UNIQUE_ID'), ('N', 'INTEGER')]), ('B', [('Id', 'UNIQUE_ID'), ('A_Id', 'UNIQUE_ID'), ('T', 'STRING')])],
                     uniques=[('A', 'I1', ['Id']), ('B', 'I1', ['Id'])],
                     assocs=[[1, 'B', ['A_Id'], True, True, '', 'A', ['Id'], False, True, '']],
                     rows=[('A', dict(Id=11, N=1)), ('A', dict(Id=12, N=2)), ('B', dict(Id=21, T='t')), ('B', dict(Id=22, T="u'"))],
                     links=[(2, 0, 1, ''), (3, 0, 1, '')]), {'A': ['N'], 'B': ['T']}


def history_edits(kind, deletable, name, small=False):
    """The edit alphabet for one class; *name* is the name of an added attribute."""
    out = []
    for ty in (['STRING'] if small else ['STRING', 'INTEGER', 'REAL', 'BOOLEAN', 'UNIQUE_ID']):
        out.append(['append', kind, name, ty, HIST_VALUES[ty]])
    out.append(['insert', kind, 0, name, 'INTEGER' if small else 'STRING', HIST_VALUES['INTEGER' if small else 'STRING']])
    if not small:
        out.append(['insert', kind, 1, name, 'BOOLEAN', HIST_VALUES['BOOLEAN']])
    for d in (deletable[:1] if small else deletable):
        out.append(['delete', kind, d])
    return out


def history_family(tier):
    for bname, base, deletable in history_bases():
        attrs0 = dict((k, list(a)) for k, a in base['classes'])
        refs = set((a[1], r) for a in base.get('assocs', []) for r in a[2])

        def finish(hist):
            # one further instance of every edited class, created through the edited schema
            attrs = dict((k, list(a)) for k, a in attrs0.items())
            edited = []
            for st in hist:
                if st[0] == 'append':
                    attrs[st[1]].append((st[2], st[3]))
                elif st[0] == 'insert':
                    attrs[st[1]].insert(st[2], (st[3], st[4]))
                elif st[0] == 'delete':
                    attrs[st[1]] = [a for a in attrs[st[1]] if a[0] != st[2]]
                if st[0] != 'save' and st[1] not in edited:
                    edited.append(st[1])
            news = [['new', k, dict((n, HIST_NEW[t.upper()]) for n, t in attrs[k] if (k, n) not in refs)] for k in edited]
            return dict(base, history=hist + news, base=bname)
        singles = [e for k in sorted(deletable) for e in history_edits(k, deletable[k], 'Zq')]
        for e in singles:
            yield finish([e])                                   # (control: an edit without an earlier save)
            for r in SAVE_ROUTES:
                yield finish([['save', r], e])
        firsts = [e for k in sorted(deletable) for e in history_edits(k, deletable[k], 'Zq', small=True)]
        for e1 in firsts:
            for k in sorted(deletable):
                for e2 in history_edits(k, deletable[k][::-1], 'Zr', small=True):
                    if e2[0] == 'delete' and e1[0] == 'delete' and e1[1:] == e2[1:]:
                        continue
                    for r in (SAVE_ROUTES if tier != 'quick' else HIST_PAIR_ROUTES):
                        yield finish([e1, ['save', r], e2])
                        if tier != 'quick' or r == HIST_PAIR_ROUTES[-1]:
                            yield finish([['save', r], e1, ['save', r], e2])


# ---------------------------------------------------------------------------
# late family: population first, associations afterwards
# ---------------------------------------------------------------------------

LATE_CONNECT = ['batch_relate', 'populate_connections', 'none']
LATE_MAX_EDITS = {'quick': 2, 'thorough': 3}


def late_bases():
    """(schema, rows, per association: (referring rows, referred rows))"""
    by = dict((s.name, s) for s in key_schemas())
    yield by['b_1_mc'], [('A', dict(Id=101)), ('A', dict(Id=102)), ('B', dict(Id=201)), ('B', dict(Id=202))], [([2, 3], [0, 1])]
    yield by['f_reflexive_1_mc'], [('A', dict(Id=101)), ('A', dict(Id=102)), ('A', dict(Id=103))], [([1, 2], [0, 1])]
    yield by['h_subsuper'], [('P', dict(Id=101)), ('P', dict(Id=102)), ('S1', dict()), ('S2', dict())], [([2], [0, 1]), ([3], [0, 1])]
    yield (by['g_assoc_class'], [('A', dict(Id=101)), ('A', dict(Id=102)), ('B', dict(Id=201)), ('C', dict(Id=301))],
           [([3], [0, 1]), ([3], [2])])
    yield (by['key_two_attrs'], [('A', dict(K1='k', K2=11, N=0)), ('A', dict(K1="m'", K2=12, N=1)), ('B', dict(Id=201)), ('B', dict(Id=202))],
           [([2, 3], [0, 1])])


def late_family(tier):
    max_edits = LATE_MAX_EDITS[tier]
    for schema, rows0, ends in late_bases():
        # raw value of every (association, referring row): omitted (the default of the type stays behind) or the key of a
        # referred row; the second referring row of an association chooses among omitted / first referred row only
        slots = []
        for ai, (srcs, tgts) in enumerate(ends):
            for n, sidx in enumerate(srcs):
                slots.append([(ai, sidx, None)] + [(ai, sidx, t) for t in (tgts if n == 0 else tgts[:1])])
        for combo in itertools.product(*slots):
            rows = [(k, dict(v)) for k, v in rows0]
            linked0 = {}
            for ai, sidx, t in combo:
                a = schema.assocs[ai]
                if t is not None:
                    for sk, tk in zip(a.skeys, a.tkeys):
                        rows[sidx][1][sk] = rows0[t][1][tk]
                linked0[(ai, sidx)] = t
            for connect in LATE_CONNECT:
                start = dict(linked0) if connect != 'none' else dict((k, None) for k in linked0)

                def rec(linked, edits):
                    yield dict(classes=schema.classes, uniques=schema.uniques, assocs=[a.as_json() for a in schema.assocs],
                               rows=rows, links=[], schema=schema.name, late=dict(connect=connect, edits=list(edits)))
                    if len(edits) >= max_edits:
                        return
                    for (ai, sidx), t in sorted(linked.items()):
                        a = schema.assocs[ai]
                        if t is not None:
                            options = [('unrelate', t, None)]
                        else:
                            options = [('relate', t2, t2) for t2 in ends[ai][1]]
                        for name, other, after in options:
                            nxt = dict(linked)
                            nxt[(ai, sidx)] = after
                            for c in rec(nxt, edits + [[name, sidx, other, a.rel, a.sphrase]]):
                                yield c
                for c in rec(start, []):
                    yield c


BULK_SIZES = {'quick': [99, 100, 101, 102, 150, 200, 201, 202, 257, 1000], 'thorough': [99, 100, 101, 102, 150, 200, 201, 202, 255, 256, 257, 1000, 1023, 1025, 5000]}


def bulk_family(tier):
    '''Round 9 (C01-17): populations of a hundred to a few thousand instances (sizes around 100, 200, 256, 1000) of two
    classes, every B linked to an A, through every route -- anything a writer does per so-many instances shows here.'''
    from mc.refs.relmodel import Assoc
    classes = [('A', [('Id', 'unique_id'), ('Name', 'string')]), ('B', [('Id', 'unique_id'), ('A_Id', 'unique_id'), ('N', 'integer'), ('X', 'real')])]
    ass = Assoc(1, 'B', ['A_Id'], True, True, '', 'A', ['Id'], False, True, '')
    for n in BULK_SIZES[tier]:
        na = max(1, n // 3)
        rows = [('A', dict(Id=1000000 + j, Name="a'%d" % j)) for j in range(na)]
        rows += [('B', dict(Id=2000000 + j, N=j - 5, X=j / 4.0 - 1.0)) for j in range(n - na)]
        links = [(na + j, j % na, 1, '') for j in range(n - na) if j % 7]
        yield dict(classes=classes, uniques=[('A', 'I1', ['Id']), ('B', 'I1', ['Id'])], assocs=[ass.as_json()], rows=rows, links=links,
                   schema='bulk_%d' % n)


def task(ctx, t):
    family, cases = t
    for case in cases:
        r = check_case(ctx, case, family)
        if r:
            ctx.distinct('nontrivial', (family, repr(case)))
        ctx.distinct('cases', (family, repr(case)))


def jsonable(case):
    import json
    return json.loads(json.dumps(case, default=list))


def run(ctx):
    fams = [('values', list(values_family(ctx.tier))), ('links', list(links_family(ctx.tier))),
            ('keywords', list(keyword_family())), ('order', list(order_family())), ('history', list(history_family(ctx.tier))),
            ('late', list(late_family(ctx.tier))), ('phrases', list(phrases_family(ctx.tier))), ('bulk', list(bulk_family(ctx.tier))),
            ('nullkey', list(nullkey_family(ctx.tier)))]
    tasks = []
    for name, cases in fams:
        cases = [jsonable(c) for c in cases]
        k = ctx.seed % 3
        cases = cases[k:] + cases[:k]
        ctx.count('family_' + name, len(cases))
        step = 1 if name == 'bulk' else 25
        for i in range(0, len(cases), step):
            tasks.append((name, cases[i:i + step]))
    ctx.pmap(task, tasks)
    for name, cases in fams:
        ctx.sample(dict(family=name, case=jsonable(cases[len(cases) // 3])))
    ctx.require(ctx.n('cases') >= 1500, 'too few cases (%d)' % ctx.n('cases'))
    ctx.require(ctx.n('family_links') >= 300, 'too few link populations (%d)' % ctx.n('family_links'))
    ctx.require(ctx.n('loads') >= 10 * ctx.n('cases'), 'too few loads per case')
    ctx.require(ctx.n('family_late') >= 1000, 'too few populations created before their associations (%d)' % ctx.n('family_late'))
    ctx.require(ctx.n('family_phrases') >= 150, 'too few enumerated phrases (%d)' % ctx.n('family_phrases'))
    ctx.require(sum(1 for c in fams[1][1] if c['schema'].startswith('phrase_')) >= 200, 'too few populations under phrased associations')
    ctx.require(ctx.n('family_nullkey') >= 200, 'too few populations with a null-keyed instance beside an instance that refers to nothing (%d)' % ctx.n('family_nullkey'))
    ctx.require(ctx.n('family_bulk') >= 8, 'too few bulk populations (%d)' % ctx.n('family_bulk'))
    ctx.require(ctx.n('family_history') >= 300, 'too few histories (%d)' % ctx.n('family_history'))


def replay(ctx, case):
    check_case(ctx, case['case'], case['family'])


def coverage(ctx):
    return dict(
        states=ctx.nd('cases'), transitions=ctx.n('loads'),
        traces_validated_against_impl=ctx.n('traces'),
        evaluations=ctx.n('loads'), cases=ctx.n('cases'), not_constructible=ctx.n('not_constructible'),
        families=dict((k[7:], v) for k, v in ctx.counts.items() if k.startswith('family_')),
        distinct_nontrivial=ctx.nd('nontrivial'),
        rule='states = distinct metamodels of the seven families; each goes through 12 string routes, up to 4 file routes, the '
             'fixed-point round, serialize() dispatch and (without associations) the instances-only route; non-trivial = distinct '
             'metamodels for which every route reproduced the snapshot. History family: metamodels reached by save / live schema '
             'edit / save / edit sequences (every save route before every edit of the alphabet; pairs of edits with a save '
             'between them, or before each of them -- quick tier: by one route), final state through one route per serialisation function',
        bounds=dict(string_length=2 if ctx.quick else 3, string_alphabet=STR_ALPHABET, specials=len(STR_SPECIALS), ints=len(INTS),
                    reals=len(REALS), ids=len(IDS), schemas=len(key_schemas()), instances_per_class=2 if ctx.quick else 3,
                    reserved_words=len(RESERVED),
                    phrases=dict(in_link_schemas=PHRASES, alphabet=PHRASE_ALPHABET, enumerated_up_to_length=2 if ctx.quick else 3,
                                 enumerated=ctx.n('family_phrases'), excluded=PHRASE_EXCLUDED,
                                 instances_per_class='1-2, at most 3 in all' if ctx.quick else '0-2'),
                    schemas_with_several_identifiers_of_one_class=[s.name for s in key_schemas() if s.name.startswith('two_ids_')],
                    late=dict(connect=LATE_CONNECT, max_edits=LATE_MAX_EDITS[ctx.tier], cases=ctx.n('family_late'),
                              schemas=[b[0].name for b in late_bases()]),
                    history=dict(save_routes=SAVE_ROUTES, pair_routes=SAVE_ROUTES if not ctx.quick else HIST_PAIR_ROUTES,
                                 bases=['V (one class, 2 rows)', 'A-B (association R1, identifiers, 4 rows, 2 links)'],
                                 edits='append x 5 types, insert at 0 / 1, delete of each plain attribute; values assigned '
                                       'on existing instances incl. unset; one instance created after the edits',
                                 edits_per_history='1 or 2')),
        exhaustive=not ctx.caps_hit,
    )
