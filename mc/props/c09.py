'''
C09 -- queries and navigations return exactly the matching instances in model order.

E1: the state space of C02 (restricted to accepted operations) enlarged with
attribute values and with loader-built initial states; in every reachable state
the whole query menu is evaluated on the real metamodel and on the reference.
'''
import itertools
import json

from mc import explorer
from mc.refs import relmodel, schemas
from mc.props import c02

NEEDS_BRIDGEPOINT = False
BUDGET_S = {'quick': 3600, 'thorough': 14400}
ASSUMPTIONS = [
    'attribute alphabets: N in {0,1}, S in {"a","b"} (ties exist); pools capped per class; closure under the caps',
    'query menu: all sequences of <= 2 (quick) / 3 (thorough) operators; navigation chains of length <= 3 (quick) / 4 (thorough)',
    'heterogeneous start sets: for every navigation (class, number, phrase) that two classes of a schema define alike (the two '
    'subtypes towards their supertype; the two participants towards their association class) the live instances of both classes '
    'in the orders first+second, second+first and interleaved, given as list / generator / QuerySet / python set (reference in '
    'the set\'s own iteration order) / union of two QuerySets; chains: the shared hop plus at most one (quick) / two (thorough) '
    'more hops; closers: none, one equality filter, one ordering',
    'identifiers are reported, not enforced: loader-built initial states in which two live instances agree on the declared '
    'identifier Id (schemas a, b, c, d, e, f, h); in every state where that holds the operator menu also has equality filters '
    'covering the identifier (where_eq(Id=v); where_eq(ID=v, S=..); the dict {id: v, n: ..}), alone and paired (either order) '
    'with every other operator, and navigations of up to two hops ending in such a class get the closer where_eq(Id=v)',
    'subtype navigation is compared only when at most one subtype instance is related (the statement says "the one")',
    'returned sets belong to the caller: in every state, for the unfiltered select_many, one filtered select_many and every '
    'one-hop navigation from every live instance, a returned QuerySet is changed in place (first element removed; first element '
    'moved to the end; cleared; first element exchanged for a dead instance / an instance of another class; such an instance '
    'added) and the same query asked again must still return exactly the matching live instances in model order',
    'select-in-history family (schemas e_reflexive_1c_1c and b_1_mc, operations new / delete / unfiltered select_many(class), no '
    'relate / unrelate): an unfiltered select is an operation of the history and NOTHING else queries the model while a history is '
    'replayed (the per-step observation of the first family is confined to discarded worlds), so every mix of creations and '
    'deletions occurs between two unfiltered selects; the state additionally records, per class, the pool the last select of '
    'the history saw (assumption: of all earlier queries only the last unfiltered select per class can influence later answers); '
    'probes of this family: unfiltered select first, then four filtered / ordered forms, select_one / select_any, and the '
    'changed-result probes',
    'ask / change / ask again (first family, every reachable state): on a fresh replay of the state a menu of queries whose first '
    'operator is an equality filter (every attribute incl. referential and identifying ones, every value read by a live instance '
    'and one read by none, where_eq and dict, alone and before an ordering; the attribute sets of the declared identifiers; the '
    'classes carry additional identifiers over their referential attributes) and every one-hop navigation is asked, then ONE change '
    'is made -- every enabled operation of the state, and every write of N, S and of a non-referential identifying attribute '
    '(to a fresh value and to the value of another instance) of every live instance -- and the menus of the state before and '
    'after the change are asked again and compared with the reference; thorough tier: after every write of an identifying '
    'attribute a second change (any but creations and writes of N / S). Attribute writes are not operations of the search itself (they would multiply the state space by the value alphabet)',
]
EXTRA = [('N', 'integer'), ('S', 'string')]
# value choices for the j-th instance created of a class: ties in N, in S, in both and in neither all occur
VALUE_MENU = [[(0, 'a'), (1, 'b')], [(0, 'a'), (1, 'a')], [(0, 'b'), (0, 'a')], [(1, 'b'), (0, 'a')]]
QUICK_MENU = [[(0, 'a')], [(1, 'a'), (0, 'a')], [(0, 'b')], [(1, 'b')]]


# identifiers over referential attributes (identifiers are reported, not enforced: they change no answer)
EXTRA_IDENTIFIERS = {
    'a_1c_1c': [('B', 'I2', ['A_Id'])],
    'e_reflexive_1c_1c': [('A', 'I2', ['Next_Id'])],
    'g_assoc_class': [('C', 'I2', ['A_Id', 'B_Id'])],
    'g2_reflexive_assoc_class': [('C', 'I2', ['One_Id', 'Other_Id'])],
}
ABSENT = {'UNIQUE_ID': 77, 'INTEGER': 77, 'STRING': 'zz'}


def with_identifiers(schema):
    for u in EXTRA_IDENTIFIERS.get(schema.name, []):
        if list(u[:2]) not in [list(x[:2]) for x in schema.uniques]:
            schema.uniques.append((u[0], u[1], list(u[2])))
    return schema


class QueryModel(c02.CappedModel):
    limit_s = 60.0

    def __init__(self, schema, caps, seeds, tier):
        c02.CappedModel.__init__(self, schema, max(caps.values()), caps)
        self.seeds = seeds
        self.tier = tier

    def case(self, hist, op):
        c = c02.CappedModel.case(self, hist, op)
        c['tier'] = self.tier
        return c

    def initial(self):
        return [[]] + [[['load', rows]] for rows in self.seeds]

    def build(self, hist):
        import xtuml
        if hist and hist[0][0] == 'load':
            w = c02.World()
            rows = hist[0][1]
            text = self.schema.sql()
            for kind, values in rows:
                names = [n for n, _ in self.schema.attrs(kind) if n in values]
                lits = []
                for n in names:
                    ty = dict(self.schema.attrs(kind))[n]
                    lits.append(xtuml.serialize_value(values[n], ty))
                text += 'INSERT INTO %s (%s) VALUES (%s);\n' % (kind, ', '.join(names), ', '.join(lits))
            loader = xtuml.ModelLoader()
            loader.input(text)
            w.m = loader.build_metamodel(xtuml.IntegerGenerator())
            w.ref = relmodel.Ref(self.schema)
            w.ref.load(rows)
            w.handles, w.label = [], {}
            per_kind = dict((k, iter(list(w.m.select_many(k)))) for k in self.schema.kinds())
            for kind, _ in rows:
                inst = next(per_kind[w.ref._kind(kind)])
                w.label[inst] = len(w.handles)
                w.handles.append(inst)
            for op in hist[1:]:
                self.run_impl(w, op)
                self.run_ref(w, op)
            w.obs = None
            return w
        return c02.CappedModel.build(self, hist)

    def run_impl(self, w, op):
        if op[0] == 'new' and len(op) > 2:
            inst = w.m.new(op[1], N=op[2], S=op[3])
            w.label[inst] = len(w.handles)
            w.handles.append(inst)
            return 'created'
        if op[0] == 'set':
            setattr(w.handles[op[1]], op[2], op[3])
            return 'set'
        return c02.CappedModel.run_impl(self, w, op)

    def run_ref(self, w, op):
        if op[0] == 'new' and len(op) > 2:
            w.ref.new(op[1], dict(N=op[2], S=op[3]))
            return 'created'
        if op[0] == 'set':
            w.ref.insts[op[1]].values[op[2]] = op[3]
            return 'set'
        return c02.CappedModel.run_ref(self, w, op)

    def canon(self, w):
        base = c02.CappedModel.canon(self, w)
        vals = [(i.kind, i.values.get('N'), i.values.get('S')) for i in w.ref.insts]
        return json.dumps([base, vals])

    def enabled(self, w):
        ref = w.ref
        ops = []
        created = {}
        for i in ref.insts:
            created[i.kind] = created.get(i.kind, 0) + 1
        for k in self.schema.kinds():
            if created.get(k, 0) < self.caps.get(k, self.cap):
                menu = QUICK_MENU if self.tier == 'quick' else VALUE_MENU
                for n, s in menu[created.get(k, 0) % len(menu)]:
                    ops.append(['new', k, n, s])
        live = [i.idx for i in ref.insts if i.alive]
        for x in live:
            for y in live:
                for rel in self.schema.rels():
                    for ph in self.schema.phrases():
                        r = ref.resolve(ref.insts[x].kind, ref.insts[y].kind, rel, ph)
                        if r is None or not r[1]:
                            continue   # one argument order per pair is enough here (C02 covers both)
                        ops.append(['relate', x, y, rel, ph, 'int'])
                        ops.append(['unrelate', x, y, rel, ph, 'int'])
        for x in live:
            ops.append(['delete', x])
        return ops

    def apply(self, ctx, w, op, hist):
        got = self.run_impl(w, op)
        exp = self.run_ref(w, op)
        ctx.count('traces')
        if got != exp:
            ctx.violation('c09:%s:outcome' % op[0], self.case(hist, op),
                          'schema %s, history %s, then %s: outcome %s, expected %s' % (self.schema.name, hist, op, got, exp),
                          exp, got)
            return False
        if got.endswith('Exception'):
            return False       # rejected calls do not lead to new states (C02 checks atomicity)
        self.observe(w)
        return True

    # -- the query menu -------------------------------------------------------
    def atoms(self, w, kind):
        out = []
        for v in (0, 1):
            out.append(['eq', {'N': v}])
        out.append(['eq', {'S': 'b'}])
        out.append(['eq', {'N': 1, 'S': 'a'}])
        out.append(['eqdict', {'N': 0}])
        out.append(['eqdict', {'s': 'a', 'n': 0}])
        refs = self.schema.referentials(kind)
        live = [i for i in w.ref.insts if i.alive and i.kind == kind]
        for r in refs[:1]:
            ids = []
            for i in live:
                v = w.ref.attr(i.idx, r)
                if v is not None and v not in ids:
                    ids.append(v)
            for v in ids[:2] + [None]:
                out.append(['eq', {r: v}])
        out.append(['lam', 'N', '==', 1])
        out.append(['lam', 'S', '<', 'b'])
        out.append(['ord', ['N'], False])
        out.append(['ord', ['S', 'N'], False])
        out.append(['ord', ['N'], True])
        out.append(['ord', ['N', 'S'], True])
        out.append(['ord', ['S'], True])
        return out

    def id_atoms(self, w, kind):
        '''Equality filters that cover the declared identifier (I1 = Id), in states where live instances agree on it (the
        library reports, not enforces, identifiers): alone, in another letter case with one more attribute, as a dict.'''
        out = []
        for v in self.shared_ids(w, kind)[:1]:
            out.append(['eq', {'Id': v}])
            out.append(['eq', {'ID': v, 'S': 'a'}])
            out.append(['eqdict', {'id': v, 'n': 0}])
        return out

    def shared_ids(self, w, kind):
        '''Values of the identifier Id that two or more live instances of *kind* carry (Id not referential).'''
        if 'Id' in self.schema.referentials(kind):
            return []
        vals = [w.ref.attr(i, 'Id') for i in w.ref.order[kind]]
        out = []
        for v in vals:
            if v is not None and vals.count(v) > 1 and v not in out:
                out.append(v)
        return out

    def mixed_starts(self, w):
        '''Heterogeneous start sets: for every navigation (to, rel, phrase) that two classes define alike, the live
        instances of both classes in the orders k1+k2, k2+k1 and interleaved.  -> [(kinds, hop, label, start, split)]'''
        groups = []
        for kind in self.schema.kinds():
            for (to, rel, ph) in self.schema.nav_menu(kind):
                key = (to.upper(), rel, ph)
                for g in groups:
                    if g[0] == key:
                        g[2].append(kind)
                        break
                else:
                    groups.append((key, [to, rel, ph], [kind]))
        out = []
        for key, hop, kinds in groups:
            for k1, k2 in itertools.combinations(kinds, 2):
                p1, p2 = list(w.ref.order[k1]), list(w.ref.order[k2])
                if not p1 or not p2:
                    continue
                inter = [x for pair in itertools.zip_longest(p1, p2) for x in pair if x is not None]
                out.append(((k1, k2), hop, 'first-second', p1 + p2, len(p1)))
                out.append(((k1, k2), hop, 'second-first', p2 + p1, len(p2)))
                if inter != p1 + p2:
                    out.append(((k1, k2), hop, 'interleaved', inter, None))
        return out

    def real_ops(self, atoms):
        import xtuml
        ops = []
        for a in atoms:
            if a[0] == 'eq':
                ops.append(xtuml.where_eq(**a[1]))
            elif a[0] == 'eqdict':
                ops.append(dict(a[1]))
            elif a[0] == 'lam':
                _, attr, rel, v = a
                if rel == '==':
                    ops.append(lambda sel, attr=attr, v=v: getattr(sel, attr) == v)
                else:
                    ops.append(lambda sel, attr=attr, v=v: getattr(sel, attr) < v)
            elif a[0] == 'ord':
                ops.append(xtuml.reverse_order_by(*a[1]) if a[2] else xtuml.order_by(*a[1]))
        return ops

    def ref_apply(self, w, idxs, atoms):
        ref = w.ref
        for a in atoms:
            if a[0] in ('eq', 'eqdict'):
                idxs = [i for i in idxs if all(ref.attr(i, k) == v for k, v in a[1].items())]
            elif a[0] == 'lam':
                _, attr, rel, v = a
                if rel == '==':
                    idxs = [i for i in idxs if ref.attr(i, attr) == v]
                else:
                    idxs = [i for i in idxs if ref.attr(i, attr) < v]
            elif a[0] == 'ord':
                keyed = [([ref.attr(i, n) for n in a[1]], pos, i) for pos, i in enumerate(idxs)]
                if a[2]:
                    # descending, ties keep their incoming order
                    out = []
                    for key in sorted(set(map(lambda k: tuple(k[0]), keyed)), reverse=True):
                        out += [i for k, pos, i in keyed if tuple(k) == key]
                    idxs = out
                else:
                    idxs = [i for k, pos, i in sorted(keyed, key=lambda t: (t[0], t[1]))]
        return idxs

    def chains(self, kind, maxlen):
        out = []

        def rec(k, chain):
            if chain:
                out.append(list(chain))
            if len(chain) >= maxlen:
                return
            for (to, rel, ph) in self.schema.nav_menu(k):
                chain.append([to, rel, ph])
                rec(w_kind(to), chain)
                chain.pop()

        def w_kind(k):
            for kk in self.schema.kinds():
                if kk.upper() == k.upper():
                    return kk
        rec(kind, [])
        return out

    def probes(self, ctx, w, hist):
        self.state_probes(ctx, w, hist)
        if type(self) is QueryModel:
            self.requery_probes(ctx, w, hist)

    def state_probes(self, ctx, w, hist):
        import xtuml
        quick = self.tier == 'quick'
        maxops = 2 if quick else 3
        maxchain = 3 if quick else 4
        lab = w.label
        case0 = self.case(hist, None)

        def bad(kind, q, msg, exp, got):
            case = dict(case0, op=['probe', q])
            ctx.violation('c09:%s' % kind, case, 'schema %s, state %s: %s: %s' % (self.schema.name, hist, q, msg), exp, got)

        def labels(res):
            return [lab.get(i, '?') for i in itertools.islice(iter(res), 64)]

        for kind in self.schema.kinds():
            pool = list(w.ref.order[kind])
            atoms = self.atoms(w, kind)
            ida = self.id_atoms(w, kind)
            seqs = [[]]
            for n in range(1, maxops + 1):
                # (the identifier filters take part in the sequences of up to two operators)
                seqs += [list(p) for p in itertools.product(atoms + (ida if n <= 2 else []), repeat=n)]
            spell = [kind, kind.lower(), kind.upper()]
            for qi, seq in enumerate(seqs):
                exp = self.ref_apply(w, pool, seq)
                k = spell[qi % 3]
                ctx.count('queries')
                if any(a[0] in ('eq', 'eqdict') and 'ID' in [n.upper() for n in a[1]] for a in seq):
                    ctx.count('identifier_filters')
                    if len(exp) > 1:
                        ctx.count('identifier_filters_matching_several')
                try:
                    res = w.m.select_many(k, *self.real_ops(seq))
                    got = labels(res)
                    ty = type(res).__name__
                    one = w.m.select_one(k, *self.real_ops(seq))
                    any_ = w.m.select_any(k, *self.real_ops(seq))
                except Exception as e:
                    bad('select:exception', ['select', kind, seq], 'raised %s: %s' % (type(e).__name__, e), exp, type(e).__name__)
                    continue
                ctx.distinct('outcomes', ('sel', kind, tuple(got), len(seq)))
                if got != exp:
                    kindv = 'select_many:order' if sorted(map(repr, got)) == sorted(map(repr, exp)) else 'select_many:content'
                    bad(kindv, ['select_many', kind, seq], 'returned %s, expected %s' % (got, exp), exp, got)
                elif ty != 'QuerySet':
                    bad('select_many:type', ['select_many', kind, seq], 'returned a %s' % ty, 'QuerySet', ty)
                e1 = exp[0] if exp else None
                for nm, r in (('select_one', one), ('select_any', any_)):
                    g = None if r is None else lab.get(r, '?')
                    if g != e1:
                        bad(nm, [nm, kind, seq], 'returned %s, expected %s' % (g, e1), e1, g)

            self.mutation_probes(ctx, w, kind, pool, bad, labels)

            # navigation chains
            chains = self.chains(kind, maxchain)
            closers = [[], [['eq', {'N': 0}]], [['lam', 'S', '<', 'b']], [['ord', ['N'], True]], [['ord', ['S', 'N'], False]]]
            handles = [('none', []), ('all-queryset', pool), ('all-list', pool), ('all-generator', pool), ('reversed-list', pool[::-1])]
            for x in pool:
                handles.append(('inst', [x]))
            for ci, chain in enumerate(chains):
                for hname, start in handles:
                    # reference: duplicate-free flat-map in encounter order
                    cur = list(start)
                    ck = kind
                    for (to, rel, ph) in chain:
                        nxt = []
                        for i in cur:
                            for y in w.ref.navigate(i, to, rel, ph):
                                if y not in nxt:
                                    nxt.append(y)
                        cur = nxt
                    end = [k for k in self.schema.kinds() if k.upper() == chain[-1][0].upper()][0]
                    idcl = [[['eq', {'Id': v}]] for v in self.shared_ids(w, end)[:1]]
                    for cl in (closers + idcl) if len(chain) <= 2 else closers[:2]:
                        exp = self.ref_apply(w, cur, cl)
                        ctx.count('navigations')
                        if cl in idcl:
                            ctx.count('identifier_filters')
                        try:
                            got, one, ty = self.real_nav(w, hname, start, chain, cl, ci)
                        except Exception as e:
                            bad('navigate:exception', ['navigate', kind, hname, start, chain, cl],
                                'raised %s: %s' % (type(e).__name__, e), exp, type(e).__name__)
                            continue
                        ctx.distinct('outcomes', ('nav', kind, hname, len(chain), tuple(got)))
                        if len(got) > 1:
                            ctx.distinct('nontrivial', (self.schema.name, kind, hname, tuple(map(tuple, chain)), tuple(got), repr(cl)))
                        if got != exp:
                            kindv = 'navigate_many:order' if sorted(map(repr, got)) == sorted(map(repr, exp)) else 'navigate_many:content'
                            bad(kindv, ['navigate_many', kind, hname, start, chain, cl], 'returned %s, expected %s' % (got, exp), exp, got)
                        elif ty != 'QuerySet':
                            bad('navigate_many:type', ['navigate_many', kind, hname, start, chain, cl], 'returned a %s' % ty, 'QuerySet', ty)
                        e1 = exp[0] if exp else None
                        if one != e1:
                            bad('navigate_one', ['navigate_one', kind, hname, start, chain, cl], 'returned %s, expected %s' % (one, e1), e1, one)

        # navigation from heterogeneous sets (instances of several classes that define the same navigation)
        closers = [[], [['eq', {'N': 0}]], [['ord', ['S', 'N'], False]]]
        for mi, (kinds, hop, oname, start, split) in enumerate(self.mixed_starts(w)):
            to_kind = [k for k in self.schema.kinds() if k.upper() == hop[0].upper()][0]
            # (after the shared hop the set is homogeneous again: one more hop in the quick tier, two in the thorough one)
            chains = [[hop]] + [[hop] + c for c in self.chains(to_kind, 1 if quick else 2)]
            forms = ['mixed-list', 'mixed-generator', 'mixed-queryset', 'mixed-set']
            if split is not None:
                forms.append('mixed-union:%d' % split)
            for hname in forms:
                order = list(start)
                if hname == 'mixed-set':
                    order = [lab[i] for i in set(w.handles[x] for x in start)]      # the set's own iteration order
                for ci, chain in enumerate(chains):
                    cur = list(order)
                    for (to, rel, ph) in chain:
                        nxt = []
                        for i in cur:
                            for y in w.ref.navigate(i, to, rel, ph):
                                if y not in nxt:
                                    nxt.append(y)
                        cur = nxt
                    for cl in closers if len(chain) <= 1 else closers[:1]:
                        exp = self.ref_apply(w, cur, cl)
                        ctx.count('navigations')
                        ctx.count('mixed_navigations')
                        q = ['navigate_many', list(kinds), hname, start, chain, cl]
                        try:
                            got, one, ty = self.real_nav(w, hname, start, chain, cl, ci + mi)
                        except Exception as e:
                            bad('navigate:mixed:exception', q, 'raised %s: %s' % (type(e).__name__, e), exp, type(e).__name__)
                            continue
                        ctx.distinct('outcomes', ('nav', kinds, hname, len(chain), tuple(got)))
                        if len(got) > 1:
                            ctx.distinct('nontrivial', (self.schema.name, kinds, hname, tuple(map(tuple, chain)), tuple(got), repr(cl)))
                            ctx.count('mixed_navigations_returning_several')
                        if got != exp:
                            kindv = 'order' if sorted(map(repr, got)) == sorted(map(repr, exp)) else 'content'
                            bad('navigate_many:mixed:' + kindv, q, 'from the instances %s (classes %s) returned %s, expected %s' %
                                (order, '+'.join(kinds), got, exp), exp, got)
                        elif ty != 'QuerySet':
                            bad('navigate_many:type', q, 'returned a %s' % ty, 'QuerySet', ty)
                        e1 = exp[0] if exp else None
                        if one != e1:
                            bad('navigate_one:mixed', ['navigate_one'] + q[1:], 'from the instances %s returned %s, expected %s' %
                                (order, one, e1), e1, one)

        # subtype navigation
        if self.schema.name == 'h_subsuper':
            for p in w.ref.order['P']:
                subs = w.ref.navigate(p, 'S1', 4) + w.ref.navigate(p, 'S2', 4)
                ctx.count('navigations')
                for relspell in (4, 'R4'):
                    r = xtuml.navigate_subtype(w.handles[p], relspell)
                    g = None if r is None else lab.get(r, '?')
                    if len(subs) <= 1:
                        e = subs[0] if subs else None
                        if g != e:
                            bad('navigate_subtype', ['navigate_subtype', p, relspell], 'returned %s, expected %s' % (g, e), e, g)
                    elif g not in subs:
                        bad('navigate_subtype', ['navigate_subtype', p, relspell], 'returned %s, not one of %s' % (g, subs), subs, g)
            if xtuml.navigate_subtype(None, 4) is not None:
                bad('navigate_subtype', ['navigate_subtype', None, 4], 'not None for an empty handle', None, 'x')

    # -- ask, change the model, ask again (round 7: C09-13) --------------------------------------------------------
    def requery_menu(self, w):
        '''Queries whose FIRST operator is an equality filter: over every attribute of every class (plain, referential,
        identifying) for every value a live instance reads and one no instance reads, as where_eq and as dict; over the
        attribute set of every declared identifier for the values of every live instance; each alone and followed by an
        ordering.  One-hop navigations from every live instance.'''
        sel, nav = [], []
        for kind in self.schema.kinds():
            pool = list(w.ref.order[kind])
            for n, ty in self.schema.attrs(kind):
                vals = []
                for i in pool:
                    v = w.ref.attr(i, n)
                    if v not in vals:
                        vals.append(v)
                for k, v in enumerate(vals + [ABSENT.get(ty.upper(), 77)]):
                    if (k + len(n)) % 2:
                        sel.append((kind, [['eq', {n: v}]]))
                    else:
                        sel.append((kind, [['eqdict', {n.lower(): v}], ['ord', ['S', 'N'], bool(k % 4 >= 2)]]))
            for uk, _, attrs in self.schema.uniques:
                if uk != kind or len(attrs) < 2:
                    continue
                for i in pool:
                    sel.append((kind, [['eq', dict((a, w.ref.attr(i, a)) for a in attrs)]]))
            for x in pool:
                for (to, rel, ph) in self.schema.nav_menu(kind):
                    nav.append((x, to, rel, ph))
        return sel, nav

    def requery_changes(self, w):
        '''The enabled operations of the state plus attribute writes: N, S and every identifying attribute that is not
        referential, of every live instance, to another value (for identifiers: a fresh value and the value of another
        live instance of the class).'''
        ops = [op for op in self.enabled(w) if op[0] != 'new' or len(op) > 2]
        for kind in self.schema.kinds():
            refs = self.schema.referentials(kind)
            pool = list(w.ref.order[kind])
            for x in pool:
                ops.append(['set', x, 'N', 1 - (w.ref.attr(x, 'N') or 0)])
                ops.append(['set', x, 'S', 'a' if w.ref.attr(x, 'S') == 'b' else 'b'])
                for n, ty in self.schema.attrs(kind):
                    if ty.upper() != 'UNIQUE_ID' or n in refs or n in ('N', 'S'):
                        continue
                    ops.append(['set', x, n, 99])
                    for y in pool:
                        if y != x and w.ref.attr(y, n) != w.ref.attr(x, n):
                            ops.append(['set', x, n, w.ref.attr(y, n)])
                            break
        return ops

    def requery_ask(self, ctx, w, menu, hist, steps, check):
        import xtuml
        sel, nav = menu
        lab = w.label
        for kind, seq in sel:
            ctx.count('requery_queries')
            exp = self.ref_apply(w, list(w.ref.order[kind]), seq)
            q = ['select_many', kind, seq]
            try:
                got = [lab.get(i, '?') for i in w.m.select_many(kind, *self.real_ops(seq))]
                one = w.m.select_any(kind, *self.real_ops(seq))
                one = None if one is None else lab.get(one, '?')
            except Exception as e:
                got, one = 'raised ' + type(e).__name__, None
            if check and (got != exp or one != (exp[0] if exp else None)):
                ctx.violation('c09:requery:select', dict(self.case(hist, None), op=['probe', ['requery', steps, q]]),
                              'schema %s, state %s: the queries of the state were asked, then %s; afterwards %s returned %s '
                              '(select_any: %s), expected %s' % (self.schema.name, hist, steps, q, got, one, exp), exp, got)
                return False
        for x, to, rel, ph in nav:
            if not w.ref.insts[x].alive:
                continue
            ctx.count('requery_queries')
            exp = list(w.ref.navigate(x, to, rel, ph))
            q = ['navigate_many', x, to, rel, ph]
            try:
                got = [lab.get(i, '?') for i in xtuml.navigate_many(w.handles[x]).nav(to, rel, ph)()]
            except Exception as e:
                got = 'raised ' + type(e).__name__
            if check and got != exp:
                ctx.violation('c09:requery:navigate', dict(self.case(hist, None), op=['probe', ['requery', steps, q]]),
                              'schema %s, state %s: the queries of the state were asked, then %s; afterwards %s returned %s, '
                              'expected %s' % (self.schema.name, hist, steps, q, got, exp), exp, got)
                return False
        return True

    def requery_run(self, ctx, hist, steps):
        '''Fresh world: ask the menu of the state (answers discarded: the probes of the state judge them), apply *steps*,
        and after each step ask the menu of the state before it and the menu of the state reached; all compared.'''
        w = self.build(hist)
        before = self.requery_menu(w)
        self.requery_ask(ctx, w, before, hist, [], False)
        done = []
        for op in steps:
            got, exp = self.run_impl(w, op), self.run_ref(w, op)
            if got != exp or got.endswith('Exception'):
                return None          # outcomes of operations are the first family's (and C02's) subject
            done.append(op)
            after = self.requery_menu(w)
            menu = (before[0] + [q for q in after[0] if q not in before[0]], before[1] + [q for q in after[1] if q not in before[1]])
            ctx.count('requery_rounds')
            if op[0] == 'set':
                ctx.count('requery_rounds_after_attribute_write')
            if not self.requery_ask(ctx, w, menu, hist, done, True):
                return False
            before = after
        return w

    def requery_probes(self, ctx, w, hist):
        for op in self.requery_changes(w):
            r = self.requery_run(ctx, hist, [op])
            if r and self.tier != 'quick' and op[0] == 'set' and op[2] not in ('N', 'S'):
                # thorough: after a write of an identifying attribute every second change except creations and writes of N / S
                for op2 in self.requery_changes(r):
                    if op2[0] != 'new' and not (op2[0] == 'set' and op2[2] in ('N', 'S')):
                        self.requery_run(ctx, hist, [op, op2])

    def mutation_probes(self, ctx, w, kind, pool, bad, labels):
        '''A returned set belongs to the caller: after adding / removing elements of a result in place, the same query
        asked again must still return exactly the matching live instances in model order.'''
        import xtuml
        others = [h for h in w.handles if w.label.get(h) not in pool]      # dead instances and instances of other classes
        muts = ['remove-first', 'rotate', 'clear', 'swap-first-for-foreign', 'add-foreign']

        def mutate(res, how):
            if how == 'remove-first' and len(res):
                res.remove(res.first)
            elif how == 'rotate' and len(res) > 1:
                x = res.first
                res.remove(x)
                res.add(x)
            elif how == 'clear' and len(res):
                res.clear()
            elif how == 'swap-first-for-foreign' and len(res) and others:
                res.remove(res.first)
                res.add(others[-1])
            elif how == 'add-foreign' and others:
                res.add(others[0])
            else:
                return False
            return True

        queries = [('select_many', [], pool), ('select_many', [['eq', {'N': 0}]], self.ref_apply(w, pool, [['eq', {'N': 0}]]))]
        for x in pool:
            for (to, rel, ph) in self.schema.nav_menu(kind):
                queries.append(('navigate_many', [x, to, rel, ph], list(w.ref.navigate(x, to, rel, ph))))
        for form, arg, exp in queries:
            def ask():
                if form == 'select_many':
                    return w.m.select_many(kind, *self.real_ops(arg))
                return xtuml.navigate_many(w.handles[arg[0]]).nav(arg[1], arg[2], arg[3])()
            for how in muts:
                q = [form + ':after-mutating-result', kind, arg, how]
                try:
                    if not mutate(ask(), how):
                        continue
                    ctx.count('mutation_probes')
                    res = ask()
                    got = labels(res)
                    first = None
                    if form == 'select_many':
                        first = w.m.select_any(kind, *self.real_ops(arg))
                        first = None if first is None else w.label.get(first, '?')
                except Exception as e:
                    bad('mutated-result:exception', q, 'raised %s: %s' % (type(e).__name__, e), exp, type(e).__name__)
                    continue
                if got != exp:
                    kindv = 'order' if sorted(map(repr, got)) == sorted(map(repr, exp)) else 'content'
                    bad('%s:mutated-result:%s' % (form, kindv), q, 'after changing a previously returned set in place (%s) the same '
                        'query returned %s, expected %s' % (how, got, exp), exp, got)
                elif form == 'select_many' and first != (exp[0] if exp else None):
                    bad('select_any:mutated-result', q, 'after changing a previously returned set in place (%s) select_any returned '
                        '%s, expected %s' % (how, first, exp[0] if exp else None), exp[0] if exp else None, first)

    def real_nav(self, w, hname, start, chain, closer, ci):
        import xtuml
        lab = w.label

        def mk():
            insts = [w.handles[i] for i in start]
            if hname == 'none':
                return None
            if hname == 'inst':
                return insts[0]
            if hname == 'all-queryset':
                return xtuml.QuerySet(insts)
            if hname in ('all-generator', 'mixed-generator'):
                return (i for i in insts)
            if hname == 'mixed-queryset':
                return xtuml.QuerySet(insts)
            if hname == 'mixed-set':
                return set(insts)
            if hname.startswith('mixed-union:'):
                n = int(hname.split(':')[1])
                return xtuml.QuerySet(insts[:n]) | xtuml.QuerySet(insts[n:])
            return list(insts)

        def walk(c, style):
            for (to, rel, ph) in chain:
                if style == 0:
                    c = c.nav(to, rel, ph)
                elif style == 1:
                    c = getattr(c, to)[rel, ph] if ph else getattr(c, to)[rel]
                else:
                    c = c.nav(to.lower(), 'R%d' % rel, ph)
            return c
        style = ci % 3
        res = walk(xtuml.navigate_many(mk()), style)(*self.real_ops(closer))
        got = [lab.get(i, '?') for i in itertools.islice(iter(res), 64)]
        ty = type(res).__name__
        one = walk(xtuml.navigate_one(mk()) if ci % 2 else xtuml.navigate_any(mk()), style)(*self.real_ops(closer))
        one = None if one is None else lab.get(one, '?')
        return got, one, ty


class ExtentModel(QueryModel):
    '''Second family: an unfiltered select_many of a class is an OPERATION of the history (its result is kept by the
    world), and nothing else queries the model while a history is replayed.  Histories therefore exist in which any mix of
    creations and deletions lies between two unfiltered selects (or between a select and the probes of a state).  The
    state additionally holds, per class, what the last select of the history returned.  Operations: new / delete / select
    (associations play no part here; the first family covers them).'''

    def case(self, hist, op):
        c = QueryModel.case(self, hist, op)
        c['family'] = 'extent'
        return c

    def run_impl(self, w, op):
        if op[0] == 'select':
            w.__dict__.setdefault('held', {})[op[1]] = w.m.select_many(op[1])
            return 'selected'
        return QueryModel.run_impl(self, w, op)

    def run_ref(self, w, op):
        if op[0] == 'select':
            w.__dict__.setdefault('snap', {})[op[1]] = list(w.ref.order[op[1]])
            return 'selected'
        return QueryModel.run_ref(self, w, op)

    def snapshot(self, w):
        name, n = {}, {}
        for i in w.ref.insts:
            name[i.idx] = '%s%d' % (i.kind, n.get(i.kind, 0))
            n[i.kind] = n.get(i.kind, 0) + 1
        snap = getattr(w, 'snap', {})
        return dict((k, [name[x] for x in v]) for k, v in snap.items())

    def canon(self, w):
        return json.dumps([QueryModel.canon(self, w), self.snapshot(w)], sort_keys=True)

    def enabled(self, w):
        ops = [o for o in QueryModel.enabled(self, w) if o[0] in ('new', 'delete')]
        for k in self.schema.kinds():
            ops.append(['select', k])
        return ops

    def apply(self, ctx, w, op, hist):
        if op[0] != 'select':
            return QueryModel.apply(self, ctx, w, op, hist)
        self.run_impl(w, op)
        self.run_ref(w, op)
        ctx.count('traces')
        ctx.count('extent_select_operations')
        res = w.held[op[1]]
        got = [w.label.get(i, '?') for i in itertools.islice(iter(res), 64)]
        exp = w.snap[op[1]]
        if got != exp or type(res).__name__ != 'QuerySet':
            kindv = 'order' if sorted(map(repr, got)) == sorted(map(repr, exp)) else 'content'
            if got == exp:
                kindv = 'type'
            ctx.violation('c09:select_many:in-history:%s' % kindv, self.case(hist, op),
                          'schema %s, history %s (no other query of the model during it), then select_many(%s): returned %s, '
                          'expected %s' % (self.schema.name, hist, op[1], got, exp), exp, got)
            return False
        return True

    def probes(self, ctx, w, hist):
        lab = w.label
        case0 = self.case(hist, None)
        snap = getattr(w, 'snap', {})

        def bad(kind, q, msg, exp, got):
            case = dict(case0, op=['probe', q])
            ctx.violation('c09:%s' % kind, case, 'schema %s, history %s (selects are part of it; nothing else queried the model): '
                          '%s: %s' % (self.schema.name, hist, q, msg), exp, got)

        def labels(res):
            return [lab.get(i, '?') for i in itertools.islice(iter(res), 64)]

        # the sets returned by the selects of the history are the caller's: what they hold is not compared
        for kind in self.schema.kinds():
            pool = list(w.ref.order[kind])
            if kind in snap:
                ctx.count('extent_states_selected_before')
                if snap[kind] != pool:
                    ctx.count('extent_states_pool_changed_since_select')
                    if len(snap[kind]) == len(pool):
                        ctx.count('extent_states_pool_changed_same_size')
            # the unfiltered forms first (a filtered one before them must not be needed to get them right)
            seqs = [[], [['lam', 'S', '<', 'c']], [['eq', {'N': 0}]], [['ord', ['N'], True]], [['ord', ['S', 'N'], False]]]
            for qi, seq in enumerate(seqs):
                exp = self.ref_apply(w, pool, seq)
                k = [kind, kind.lower(), kind.upper()][qi % 3]
                ctx.count('queries')
                ctx.count('extent_queries')
                try:
                    res = w.m.select_many(k, *self.real_ops(seq))
                    got = labels(res)
                    ty = type(res).__name__
                    one = w.m.select_one(k, *self.real_ops(seq))
                    any_ = w.m.select_any(k, *self.real_ops(seq))
                except Exception as e:
                    bad('select:exception', ['select', kind, seq], 'raised %s: %s' % (type(e).__name__, e), exp, type(e).__name__)
                    continue
                ctx.distinct('outcomes', ('extent', kind, tuple(got), len(seq), tuple(snap.get(kind, ['-']))))
                if got != exp:
                    kindv = 'select_many:order' if sorted(map(repr, got)) == sorted(map(repr, exp)) else 'select_many:content'
                    bad(kindv, ['select_many', kind, seq], 'returned %s, expected %s' % (got, exp), exp, got)
                elif ty != 'QuerySet':
                    bad('select_many:type', ['select_many', kind, seq], 'returned a %s' % ty, 'QuerySet', ty)
                e1 = exp[0] if exp else None
                for nm, r in (('select_one', one), ('select_any', any_)):
                    g = None if r is None else lab.get(r, '?')
                    if g != e1:
                        bad(nm, [nm, kind, seq], 'returned %s, expected %s' % (g, e1), e1, g)
            self.mutation_probes(ctx, w, kind, pool, bad, labels)


# pool caps of the second family (quick, thorough)
EXTENT_CAPS = {
    'e_reflexive_1c_1c': ({'A': 3}, {'A': 4}),
    'b_1_mc': ({'A': 2, 'B': 2}, {'A': 2, 'B': 2}),      # (thorough: same caps, the larger value menu)
}


def extent_models(ctx):
    out = []
    for schema in schemas.shapes(EXTRA):
        if schema.name in EXTENT_CAPS:
            caps = EXTENT_CAPS[schema.name][0 if ctx.quick else 1]
            out.append(ExtentModel(schema, caps, seeds_for(schema)[:1], ctx.tier))
    return out


def seeds_for(schema):
    '''Loader-built initial states, incl. over-populated single-valued ends
    (duplicate identifying values) that the relate API cannot produce.'''
    name = schema.name
    if name in ('a_1c_1c', 'b_1_mc', 'd_m_m'):
        return [[['A', dict(Id=101, N=0, S='a')], ['A', dict(Id=101, N=1, S='a')],
                 ['B', dict(Id=201, A_Id=101, N=0, S='b')], ['B', dict(Id=202, A_Id=101, N=0, S='a')]]]
    if name == 'c_mc_1c_other_side':
        return [[['B', dict(Id=201, N=1, S='b')], ['B', dict(Id=201, N=0, S='b')],
                 ['A', dict(Id=101, B_Id=201, N=0, S='a')], ['A', dict(Id=102, B_Id=201, N=0, S='a')]]]
    if name == 'e_reflexive_1c_1c':
        return [[['A', dict(Id=101, Next_Id=102, N=1, S='a')], ['A', dict(Id=102, Next_Id=101, N=0, S='a')],
                 ['A', dict(Id=103, Next_Id=101, N=0, S='b')]],
                # two instances agree on the identifier
                [['A', dict(Id=101, N=1, S='a')], ['A', dict(Id=101, N=0, S='a')], ['A', dict(Id=102, Next_Id=101, N=0, S='b')]]]
    if name == 'f_reflexive_1_mc':
        return [[['A', dict(Id=101, Parent_Id=101, N=1, S='a')], ['A', dict(Id=102, Parent_Id=101, N=0, S='a')]],
                [['A', dict(Id=101, N=0, S='a')], ['A', dict(Id=101, N=0, S='b')], ['A', dict(Id=102, Parent_Id=101, N=0, S='a')]]]
    if name == 'g_assoc_class':
        return [[['A', dict(Id=101, N=0, S='a')], ['B', dict(Id=201, N=0, S='a')], ['B', dict(Id=202, N=1, S='a')],
                 ['C', dict(Id=301, A_Id=101, B_Id=202, N=0, S='b')], ['C', dict(Id=302, A_Id=101, B_Id=201, N=0, S='a')]]]
    if name == 'g2_reflexive_assoc_class':
        return [[['A', dict(Id=101, N=0, S='a')], ['A', dict(Id=102, N=1, S='a')],
                 ['C', dict(Id=301, One_Id=101, Other_Id=102, N=0, S='b')], ['C', dict(Id=302, One_Id=102, Other_Id=102, N=0, S='a')]]]
    if name == 'h_subsuper':
        return [[['P', dict(Id=101, N=0, S='a')], ['P', dict(Id=102, N=1, S='a')],
                 ['S1', dict(Id=101, N=0, S='b')], ['S2', dict(Id=102, N=0, S='a')]],
                # two supertype instances agree on the identifier; both subtypes refer to it
                [['P', dict(Id=101, N=0, S='a')], ['P', dict(Id=101, N=1, S='a')],
                 ['S1', dict(Id=101, N=0, S='b')], ['S2', dict(Id=101, N=0, S='a')]]]
    return []


CAPS = {
    'a_1c_1c': ({'A': 1, 'B': 2}, {'A': 2, 'B': 2}),
    'b_1_mc': ({'A': 2, 'B': 2}, {'A': 2, 'B': 3}),
    'c_mc_1c_other_side': ({'A': 2, 'B': 1}, {'A': 2, 'B': 2}),
    'd_m_m': ({'A': 2, 'B': 2}, {'A': 2, 'B': 2}),
    'e_reflexive_1c_1c': ({'A': 2}, {'A': 3}),
    'f_reflexive_1_mc': ({'A': 2}, {'A': 3}),
    'g_assoc_class': ({'A': 1, 'B': 1, 'C': 2}, {'A': 2, 'B': 1, 'C': 2}),
    'g2_reflexive_assoc_class': ({'A': 2, 'C': 1}, {'A': 2, 'C': 2}),
    'h_subsuper': ({'P': 1, 'S1': 1, 'S2': 1}, {'P': 2, 'S1': 1, 'S2': 1}),
}


def models(ctx):
    out = []
    for schema in schemas.shapes(EXTRA):
        caps = CAPS[schema.name][0 if ctx.quick else 1]
        out.append(QueryModel(with_identifiers(schema), caps, seeds_for(schema), ctx.tier))
    return out


def run(ctx):
    total = 0
    for m in explorer.rotate(models(ctx), ctx.seed):
        res = explorer.bfs(ctx, m, chunk=4, label=m.schema.name)
        total += res['states']
        print('  %-28s caps=%s states=%d depth=%d closed=%s t=%.0fs' % (m.schema.name, m.caps, res['states'], res['depth'], res['closed'], ctx.elapsed()), flush=True)
        ctx.sample(dict(schema=m.schema.name, caps=m.caps, states=res['states'],
                        deepest_history=max(res['seen'].values(), key=len)))
    ctx.require(total >= 300, 'too few states (%d)' % total)
    etotal = 0
    for m in explorer.rotate(extent_models(ctx), ctx.seed):
        label = 'extent:' + m.schema.name
        res = explorer.bfs(ctx, m, chunk=8, label=label)
        etotal += res['states']
        print('  %-28s caps=%s states=%d depth=%d closed=%s t=%.0fs' % (label, m.caps, res['states'], res['depth'], res['closed'], ctx.elapsed()), flush=True)
        ctx.sample(dict(family='extent', schema=m.schema.name, caps=m.caps, states=res['states'],
                        deepest_history=max(res['seen'].values(), key=len)))
    ctx.require(etotal >= 100, 'select-in-history family: too few states (%d)' % etotal)
    ctx.require(ctx.n('extent_states_pool_changed_same_size') >= 20,
                'select-in-history family: too few states whose pool changed, at equal size, since the last select of the history (%d)'
                % ctx.n('extent_states_pool_changed_same_size'))
    ctx.require(ctx.n('requery_rounds_after_attribute_write') >= 1000 and ctx.n('requery_rounds') >= 2000,
                'too few ask / change / ask again rounds (%d, %d after an attribute write)'
                % (ctx.n('requery_rounds'), ctx.n('requery_rounds_after_attribute_write')))
    ctx.require(ctx.n('mutation_probes') >= 1000, 'too few re-queries after changing a returned set (%d)' % ctx.n('mutation_probes'))
    ctx.require(ctx.n('queries') >= 10000 and ctx.n('navigations') >= 10000, 'too few queries evaluated')
    ctx.require(ctx.n('mixed_navigations_returning_several') >= 1000,
                'too few navigations from heterogeneous sets that return several instances (%d)' % ctx.n('mixed_navigations_returning_several'))
    ctx.require(ctx.n('identifier_filters_matching_several') >= 1000,
                'too few equality filters on an identifier that several instances share (%d)' % ctx.n('identifier_filters_matching_several'))
    ctx.require(ctx.nd('nontrivial') >= 50, 'too few navigations returning several instances (%d)' % ctx.nd('nontrivial'))


def replay(ctx, case):
    schema = with_identifiers(schemas.by_name(case['schema'], EXTRA))
    cls = ExtentModel if case.get('family') == 'extent' else QueryModel
    m = cls(schema, case['caps'], seeds_for(schema), case.get('tier', 'quick'))
    explorer.replay_case(ctx, m, case['hist'], case.get('op'))


def coverage(ctx):
    closed = all(v.get('closed') for v in ctx.notes.values() if isinstance(v, dict))
    return dict(
        states=ctx.n('states'),
        transitions=ctx.n('transitions'),
        traces_validated_against_impl=ctx.n('queries') + ctx.n('navigations') + ctx.n('requery_queries'),
        evaluations=ctx.n('queries') + ctx.n('navigations') + ctx.n('requery_queries'),
        queries=ctx.n('queries'), navigations=ctx.n('navigations'),
        mixed_navigations=ctx.n('mixed_navigations'), mixed_navigations_returning_several=ctx.n('mixed_navigations_returning_several'),
        identifier_filters=ctx.n('identifier_filters'), identifier_filters_matching_several=ctx.n('identifier_filters_matching_several'),
        distinct_nontrivial=ctx.nd('nontrivial'),
        distinct_outcomes=ctx.nd('outcomes'),
        requeries_after_changing_a_returned_set=ctx.n('mutation_probes'),
        ask_change_ask_again=dict(rounds=ctx.n('requery_rounds'), rounds_after_an_attribute_write=ctx.n('requery_rounds_after_attribute_write'),
                                  queries=ctx.n('requery_queries')),
        select_in_history=dict(select_operations=ctx.n('extent_select_operations'), queries=ctx.n('extent_queries'),
                               states_probed_after_a_select=ctx.n('extent_states_selected_before'),
                               states_pool_changed_since_select=ctx.n('extent_states_pool_changed_since_select'),
                               states_pool_changed_at_equal_size=ctx.n('extent_states_pool_changed_same_size')),
        rule='in every reachable state (API histories and loader-built seeds) every select_many/select_one/select_any with '
             'every operator sequence of the menu and every type-correct navigation chain from None / instance / QuerySet / '
             'list / generator handles with every closer is evaluated; non-trivial = a navigation that returned more than one '
             'instance, distinct by (schema, start class, handle kind, chain, result, closer); second family: every history of '
             'new / delete / unfiltered select within the caps up to the canonical state (model state + pool seen by the last '
             'select of each class), each select compared when executed and every state probed without any earlier query',
        per_schema=dict((k, v) for k, v in ctx.notes.items() if isinstance(v, dict)),
        bounds=dict(pool_caps=dict((k, v[0 if ctx.quick else 1]) for k, v in CAPS.items()),
                    operator_sequence_length=2 if ctx.quick else 3, chain_length=3 if ctx.quick else 4,
                    select_in_history_pool_caps=dict((k, v[0 if ctx.quick else 1]) for k, v in EXTENT_CAPS.items())),
        exhaustive=bool(closed) and not ctx.caps_hit,
    )
