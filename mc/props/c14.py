'''
C14 -- component extraction mirrors the BridgePoint class model.

E1: breadth-first search over edit scripts applied to the rows of a real BridgePoint
model (tests/resources/Simple_Model.xtuml) and of a synthesised diagram holding every
construct of the abstract form; E2: a family of synthesised one-relationship diagrams
(all multiplicity/conditionality combinations, reflexive or not, key arity 1-2, either
class formalising, 1-3 subtypes); E3: every order of the rows.

Reference: mc.refs.bpsynth (abstract diagram extracted from the rows by ids, independent
of bridgepoint.ooaofooa; expected_schema computed from the diagram).  In every state the
schema of mk_component / build_component (serialize_schema + serialize_unique_identifiers)
must equal expected_schema for derived_attributes in {False, True} and for the whole model
and every named component; the file of persist_database / gen_sql_schema.main must load
back to the same definitions; the reversed model text must give the same result; the
difference to the parent state must stay inside the edited item.
'''
import itertools
import json
import os
import sys

from mc import core, explorer
from mc.refs import bpsynth as bp

NEEDS_BRIDGEPOINT = True
BUDGET_S = {'quick': 3600, 'thorough': 14400}
ASSUMPTIONS = [
    'models: Simple_Model.xtuml (all 326 rows in file order; global data types from the loader); "simple2" = the same plus a '
    'sibling component, a component nested in the package "Classes" and a package reference (EP_PKGREF) to the sibling\'s '
    'package; synthesised diagrams (bpsynth.rich_diagram, bpsynth.packaging_diagram, bpsynth.family); unformalized and '
    'derived (composed) relationships, imported classes and structured types are outside the abstract form and not generated',
    'scope: an element is in a component when the component is reached from its package / component through parents '
    '(R8000, R8001, R8003) and through packages that refer to a package on the way (R1402); every component (outer, nested, '
    'sibling) is built by name; chains of references (a referring package that is itself only referred to) are not generated',
    'edit scripts of length <= 2 (quick) / 3 (thorough) on Simple_Model and <= 1 / 2 on simple2, the rich and the packaging '
    'diagram (there every class and relationship is moved into every package / component); values per site come '
    'from small palettes (VERIF_SEED selects among equivalent palettes of names, phrases and numbers)',
    'identifier attribute lists and (referential, identifying) key pairs are compared as sets, attribute order exactly, '
    'types upper-cased; the order of definitions inside the serialized text is not compared',
    'phrases are expected for reflexive relationships only (mk_component documents phrase-less relate for the others)',
    'an O_ID without attributes is not a modeled identifier; attributes of unsupported types (instance references, dates '
    'over inst<Mapping>) have no column; such attributes are never made identifying or referred to',
    'an identifier over a derived attribute is expected only when derived attributes are requested',
    'classes are moved out of a scope only together with their relationships (a relationship whose class is outside the '
    'component has no defined result)',
    'gen_sql_schema.main (argv route, 0.25 s per call for parsing the ooaofooa schema) runs in every state of depth <= 1 '
    '(thorough: <= 2); in deeper states xtuml.persist_database, the only step main adds, is called directly; all four '
    'option combinations each time',
    'live edits: on the loaded start model of the packaging diagram and of simple2 (thorough: also rich and Simple_Model) '
    'every edit of the menu that has an API-level form (rename / retype attribute, move class or relationship, multiplicity, '
    'conditionality, phrase, number, toggle derived) is applied with setattr / relate / unrelate / new / delete between two '
    'mk_component rounds on the SAME metamodel object; the second round must equal expected_schema of the edited diagram',
    'row orders: reversal of the whole file in every state; every rotation of the file and every permutation of every '
    'group of <= 6 rows (rows of one table belonging to one class / relationship, and whole small tables) in the initial '
    'states; permutations of the groups of the edited tables in every single-edit state (groups of <= 3 rows in quick); the '
    'diagram layout rows (GD_*, DIM_*) are left out of the group permutation runs',
]

PALETTES = [
    dict(attr_names=['Renamed', 'Alt'], phrases=['is led by', 'leads', ''], numbers=[8, 12], kl=['Zed']),
    dict(attr_names=['Value_9', 'x'], phrases=['alpha', 'beta', ''], numbers=[40, 7], kl=['Q7']),
    dict(attr_names=['Table', 'Name2'], phrases=['owns', 'is owned by', ''], numbers=[99, 100], kl=['Other_K']),
    dict(attr_names=['ident', 'From'], phrases=['a b c', 'd', ''], numbers=[5, 6], kl=['KL']),
]
TYPES_LEAN = ['integer', 'Colour']
TYPES_QUICK = ['integer', 'string', 'My_Enum', 'My_Integer', 'Colour', 'Price']
TYPES_THOROUGH = ['boolean', 'integer', 'real', 'string', 'unique_id', 'timestamp', 'My_Enum', 'My_Integer', 'Colour',
                  'Money', 'Price', 'Shade']
UNSUPPORTED = ['inst_ref<Object>', 'date']

# (base, palette level, edit depth, main() up to depth, reversed file up to depth, permutations: max group in single-edit states)
PLAN = {
    'quick': [('pack', 'lean', 1, 0, 99, None), ('simple2', 'quick', 1, 0, 99, None), ('simple', 'quick', 2, 1, 99, 3),
              ('rich', 'quick', 1, 0, 99, 0)],
    'thorough': [('pack', 'quick', 1, 1, 99, 4), ('simple2', 'quick', 2, 1, 99, None), ('simple', 'quick', 3, 1, 2, 6), ('simple', 'full', 2, 1, 99, None), ('rich', 'lean', 2, 1, 99, 4)],
}

# start models on which every API-level ("live") edit of the menu is applied to the loaded metamodel
LIVE = {'quick': [('pack', 'lean'), ('simple2', 'quick')],
        'thorough': [('pack', 'quick'), ('simple2', 'quick'), ('rich', 'lean'), ('simple', 'full')]}

TOUCHED = {
    'rename_attr': ['O_ATTR'], 'retype_attr': ['O_ATTR', 'S_DT'], 'move_attr': ['O_ATTR'], 'add_attr': ['O_ATTR', 'O_BATTR'],
    'set_derived': ['O_BATTR', 'O_NBATTR', 'O_DBATTR', 'O_ATTR'], 'id_add': ['O_OIDA', 'O_ID'], 'id_del': ['O_OIDA', 'O_ID'],
    'set_end': ['R_PART', 'R_FORM', 'R_AONE', 'R_AOTH', 'R_OIR', 'R_RTO', 'R_RGO', 'O_REF', 'O_RTIDA'],
    'renumber': ['R_REL', 'R_OIR'], 'move_elem': ['O_OBJ', 'R_REL', 'EP_PKG'],
}


# ---------------------------------------------------------------------------
# the model: menu of edits and the state check
# ---------------------------------------------------------------------------

class SchemaModel(bp.EditModel):
    '''level: 'lean' | 'quick' | 'full' -- size of the value palettes per edit site.'''

    def __init__(self, base, tier='quick', seed=0, main_depth=None, level=None, reverse_depth=99):
        bp.EditModel.__init__(self, base, tier, seed)
        self.palette = PALETTES[seed % len(PALETTES)]
        self.level = level or 'quick'
        self.full = self.level == 'full'
        self.lean = self.level == 'lean'
        self.main_depth = main_depth if main_depth is not None else (1 if tier == 'quick' else 2)
        self.reverse_depth = reverse_depth

    def case(self, hist, op):
        return dict(base=self.name, hist=hist, op=op, tier=self.tier, seed=self.seed, level=self.level)

    # -- menu -------------------------------------------------------------------
    def menu(self, w):
        d = w.d
        P = self.palette
        ops = []
        names = P['attr_names'] if self.full else P['attr_names'][:1]
        phrases = P['phrases'] if self.full else P['phrases'][:1]
        numbers = P['numbers'][:1]
        tnames = TYPES_THOROUGH if self.full else TYPES_LEAN if self.lean else TYPES_QUICK
        types = [t.id for n in tnames for t in d.types.values() if t.name == n]
        unsupported = [t.id for n in UNSUPPORTED for t in d.types.values() if t.name == n]
        oids = (0, 1, 2) if self.full else (1,) if self.lean else (0, 1)
        targets = bp.key_target_oids(d)
        for c in d.classes:
            taken = set(a.name for a in c.attrs)
            n = len(c.attrs)
            for i, a in enumerate(c.attrs):
                if self.lean and i not in (0, 1, n - 1):
                    continue            # lean palette: first two and last attribute of every class
                for nm in names:
                    if nm not in taken:
                        ops.append(['rename_attr', c.id, a.id, nm])
                target = bp.is_key_target(d, c, a)
                if a.kind != 'ref':
                    free = not bp.is_identifying(c, a) and not target
                    for t in types + (unsupported if free else []):
                        if t != a.dt:
                            ops.append(['retype_attr', c.id, a.id, t])
                    if not target:
                        ops.append(['set_derived', c.id, a.id, a.kind != 'derived'])
                for j in ([i + 1] if self.lean else sorted(set([0, n - 1, i - 1, i + 1]))):
                    if 0 <= j < n and j != i:
                        ops.append(['move_attr', c.id, a.id, j])
                _, b = d.base_attr(c.id, a.id)
                if b.kind != 'ref' and d.core_type(b.dt) is not None:
                    for oid in oids:
                        if oid in c.ids and a.id not in c.ids[oid]:
                            ops.append(['id_add', c.id, oid, a.id])
            for oid in sorted(c.ids):
                for aid in c.ids[oid]:
                    if (c.id, oid, aid) not in targets:
                        ops.append(['id_del', c.id, oid, aid])
        used_numbers = set(r.numb for r in d.rels)
        homes = self.homes(d)
        for r in d.rels:
            for en in ('form', 'part', 'one', 'oth'):
                if en in r.ends:
                    e = r.ends[en]
                    ops.append(['set_end', r.id, en, 'Mult', 1 - e.mult])
                    ops.append(['set_end', r.id, en, 'Cond', 1 - e.cond])
                    for ph in phrases:
                        if ph != e.phrase:
                            ops.append(['set_end', r.id, en, 'Txt_Phrs', ph])
            for nb in numbers:
                if nb not in used_numbers:
                    ops.append(['renumber', r.id, nb])
            # (round 12, C14-22) the number of another simple relationship between other classes: numbers need not be unique
            if r.kind == 'simple':
                mine = set(d.classes_of_rel(r))
                for o in d.rels:
                    if o.id != r.id and o.kind == 'simple' and o.numb != r.numb and not (mine & set(d.classes_of_rel(o))) \
                            and [x.numb for x in d.rels].count(o.numb) == 1 and [x.numb for x in d.rels].count(r.numb) == 1:
                        ops.append(['renumber', r.id, o.numb])
                        break
            for h in homes:
                if h != r.home and bp.packaging_valid(d, {('rel', r.id): h}):
                    ops.append(['move_elem', 'rel', r.id, h])
        for c in d.classes:
            for h in homes:
                if h != c.home and bp.packaging_valid(d, {('class', c.id): h}):
                    ops.append(['move_elem', 'class', c.id, h])
        return ops

    def homes(self, d):
        tops = sorted(c.id for c in d.conts.values() if c.kind == 'pkg' and c.parent is None)
        comps = sorted(c.id for c in d.conts.values() if c.kind == 'comp')
        if self.full or self.name == 'pack':
            return [None] + sorted(d.conts)
        inner = sorted(c.id for c in d.conts.values() if c.kind == 'pkg' and c.parent in comps)
        out = tops[:1] + comps[:1] + ([] if self.lean else inner[-1:])
        for h in bp.special_homes(d):       # packages of nested components, referenced packages
            if h not in out:
                out.append(h)
        return out

    # -- the oracle ------------------------------------------------------------
    def check(self, ctx, w, hist, routes=None, perm=None, live=None):
        check_state(ctx, self, w, hist, routes, perm, live)


def scopes(d):
    '''[(component id or None, name or None)...] -- whole model and every named component.'''
    out = [(None, None)]
    for c in sorted(d.conts.values(), key=lambda c: c.id):
        if c.kind == 'comp':
            out.append((c.id, c.name))
    return out


def observe(metamodel):
    import xtuml
    return bp.parse_sql_schema(xtuml.serialize_schema(metamodel) + xtuml.serialize_unique_identifiers(metamodel))


def observe_file(path):
    import xtuml
    l = xtuml.ModelLoader()
    l.filename_input(path)
    return observe(l.build_metamodel())


def tmpfile(tag):
    from mc import bootstrap
    return os.path.join(bootstrap.tmpdir(), 'c14-%d-%s' % (os.getpid(), tag))


def run_main(text, comp_name, derived):
    '''gen_sql_schema.main through argv; returns the path of the file it wrote.'''
    from bridgepoint import gen_sql_schema
    src, out = tmpfile('model.xtuml'), tmpfile('main.sql')
    with open(src, 'w') as f:
        f.write(text)
    if os.path.exists(out):
        os.remove(out)
    argv = ['gen_sql_schema', '-o', out]
    if comp_name is not None:
        argv += ['-c', comp_name]
    if derived:
        argv += ['-d']
    argv.append(src)
    old = sys.argv
    sys.argv = argv
    try:
        gen_sql_schema.main()
    finally:
        sys.argv = old
    return out


def allowed_change(op, dp, dc):
    '''Result items an edit may change: set of ('class', kl) / ('index', kl) / ('assoc', numb).'''
    name = op[0]
    out = set()

    def of_class(obj):
        for d in (dp, dc):
            c = d.cls(obj)
            out.add(('class', c.kl))
            out.add(('index', c.kl))
            for r in bp.rels_of_class(d, obj):
                out.add(('assoc', r.numb))
    if name in ('rename_attr', 'move_attr', 'add_attr', 'set_derived', 'id_add', 'id_del'):
        of_class(op[1])
    elif name == 'retype_attr':
        for c in dc.classes:
            for a in c.attrs:
                bc, b = dc.base_attr(c.id, a.id)
                if (bc.id, b.id) == (op[1], op[2]):
                    out.add(('class', c.kl))
    elif name in ('set_end', 'renumber'):
        out.add(('assoc', dp.rel(op[1]).numb))
        out.add(('assoc', dc.rel(op[1]).numb))
    elif name == 'move_elem':
        if op[1] == 'class':
            c = dc.cls(op[2])
            out.add(('class', c.kl))
            out.add(('index', c.kl))
        elif op[1] == 'rel':
            out.add(('assoc', dc.rel(op[2]).numb))
    return out


def check_state(ctx, model, w, hist, routes=None, perm=None, live=None):
    '''
    Compare every route of the implementation with expected_schema in one state.
    routes: None = by depth; 'all' = everything (replay).  perm: rows already permuted by the caller
    (only the build route is compared then; violations carry the roworder signature).  live: an edit applied
    to the LOADED metamodel through the xtuml API between two mk_component rounds on the same metamodel object.
    '''
    import xtuml
    from bridgepoint import ooaofooa
    d = w.d
    depth = model.depth_of(hist)
    deep = routes == 'all' or depth <= model.main_depth
    text = w.text()
    key = core.h64(text)
    ctx.distinct('inputs', key)
    if hist or perm is not None or model.base != 'simple':
        ctx.distinct('nontrivial_inputs', key)        # anything but the unmodified Simple_Model.xtuml
    ctx.count('states_checked')

    def bad(route, scope, derived, fam, kind, msg, exp=None, obs=None, line=None):
        case = dict(base=model.name, hist=hist, tier=model.tier, seed=model.seed, level=model.level,
                    op=['probe', route, scope[1], derived], perm=perm, live=live)
        ctx.violation('c14:%s:%s:%s' % (route, fam, kind), case,
                      '%s after %s, %s, derived_attributes=%s, route %s: %s' %
                      (model.name, json.dumps(hist), 'component %s' % scope[1] if scope[1] else 'whole model', derived,
                       route, msg), exp, obs,
                      unit_test=unit_test(model.base, w, scope[1], derived, route, line, live))

    def compare(route, scope, derived, exp, obs):
        diffs = bp.diff_schema(exp, obs)
        ctx.count('evaluations')
        for fam, kind, key, e, o in diffs[:4]:
            line = e if isinstance(e, str) else None
            bad(route, scope, derived, fam, kind, '%s %s: expected %r, observed %r' % (fam, key, e, o), e, o, line)
        return not diffs

    def guarded(route, scope, derived, fn):
        try:
            return fn()
        except Exception as e:
            ctx.count('evaluations')
            bad(route, scope, derived, 'exception', type(e).__name__, 'raised %s: %s' % (type(e).__name__, e),
                'a component', '%s: %s' % (type(e).__name__, e))
            return None

    combos = [(s, der) for s in scopes(d) for der in (False, True)]
    expected = dict(((s[0], der), bp.expected_schema(d, s[0], der)) for s, der in combos)

    def build_all(txt, route, mm=None):
        '''mk_component on one loaded metamodel for every combination -> {(scope id, derived): (component, obs)}.'''
        out = {}
        if mm is None:
            loader = guarded(route, (None, None), False, lambda: bp.load_model(txt))
            mm = guarded(route, (None, None), False, lambda: loader.build_metamodel()) if loader else None
        if mm is None:
            return out
        for s, der in combos:
            def one():
                c_c = None
                if s[0] is not None:
                    hits = [x for x in mm.select_many('C_C') if x.Id == s[0]]
                    c_c = hits[0]
                c = ooaofooa.mk_component(mm, c_c, der)
                return c, observe(c)
            res = guarded(route, s, der, one)
            if res:
                out[(s[0], der)] = res
        return out

    if live is not None:
        # build, edit the loaded metamodel through the xtuml API, build again from the same object
        w2 = w.clone()
        w2.apply(live)
        mm = guarded('live', (None, None), False, lambda: bp.load_model(text).build_metamodel())
        if mm is None:
            return
        built = build_all(None, 'live-before', mm=mm)
        for s, der in combos:
            if (s[0], der) in built:
                ctx.count('traces')
                compare('live-before', s, der, expected[(s[0], der)], built[(s[0], der)][1])
        bp.live_apply(mm, d, w2.d, live)
        if bp.extract(bp.tables_of_metamodel(mm)) != w2.d:
            raise core.HarnessError('live edit %r after %r does not give the population of the mirrored diagram' % (live, hist))
        combos[:] = [(s, der) for s in scopes(w2.d) for der in (False, True)]
        expected.clear()
        expected.update(((s[0], der), bp.expected_schema(w2.d, s[0], der)) for s, der in combos)
        built = build_all(None, 'live', mm=mm)
        for s, der in combos:
            if (s[0], der) in built:
                ctx.count('traces')
                ctx.count('live_runs')
                compare('live', s, der, expected[(s[0], der)], built[(s[0], der)][1])
        ctx.count('live:' + live[0])
        return

    if perm is not None:
        built = build_all(text, 'roworder')
        for s, der in combos:
            if (s[0], der) in built:
                ctx.count('traces')
                compare('roworder', s, der, expected[(s[0], der)], built[(s[0], der)][1])
        return

    built = build_all(text, 'build')
    ok = True
    for s, der in combos:
        if (s[0], der) not in built:
            ok = False
            continue
        comp, obs = built[(s[0], der)]
        ctx.count('traces')
        ctx.distinct('outcomes', json.dumps([sorted(obs['classes'].items()), sorted(map(repr, obs['indices'].items())),
                                             list(map(repr, obs['assocs']))], default=repr))
        if not compare('build', s, der, expected[(s[0], der)], obs):
            ok = False
            continue
        # the written schema loads back to the same definitions
        path = tmpfile('persist.sql')

        def reload():
            xtuml.persist_database(comp, path)
            return observe_file(path)
        obs2 = guarded('reload', s, der, reload)
        if obs2 is not None:
            ctx.count('traces')
            compare('reload', s, der, expected[(s[0], der)], obs2)

    # difference to the parent state stays inside the edited item
    if depth > 0 and ok:
        parent = model.build(hist[:-1])
        allowed = allowed_change(hist[-1], parent.d, d)
        for s, der in combos:
            if (s[0], der) not in built:
                continue
            if s[0] is not None and s[0] not in parent.d.conts:
                continue
            before = bp.expected_schema(parent.d, s[0], der)
            changed = bp.changed_items(before, built[(s[0], der)][1])
            ctx.count('locality_checks')
            if changed:
                ctx.count('locality_nonempty')
            if not changed <= allowed:
                ctx.count('evaluations')
                bad('build', s, der, 'locality', hist[-1][0],
                    'edit %s changed %s, outside %s' % (hist[-1], sorted(changed - allowed), sorted(allowed)),
                    sorted(allowed), sorted(changed))

    # every order of the rows: the reversed file
    built_rev = {}
    if routes == 'all' or depth <= model.reverse_depth:
        built_rev = build_all(bp.render(bp.reversed_rows(w.rows)), 'reversed')
    for s, der in combos:
        if (s[0], der) in built_rev:
            ctx.count('traces')
            ctx.count('reversed_runs')
            compare('reversed', s, der, expected[(s[0], der)], built_rev[(s[0], der)][1])

    if deep:
        loader = bp.load_model(text)
        for s, der in combos:
            def api():
                return observe(loader.build_component(s[1], der))
            obs = guarded('api', s, der, api)
            if obs is not None:
                ctx.count('traces')
                ctx.count('api_runs')
                compare('api', s, der, expected[(s[0], der)], obs)

            def main():
                try:
                    return observe_file(run_main(text, s[1], der))
                except SystemExit as e:
                    raise RuntimeError('gen_sql_schema.main exited with %r' % (e.code,))
            obs = guarded('main', s, der, main)
            if obs is not None:
                ctx.count('traces')
                ctx.count('main_runs')
                compare('main', s, der, expected[(s[0], der)], obs)


def unit_test(base, w, comp_name, derived, route, line, live=None):
    if live is not None:
        lines = bp.snippet_model(base, w)
        lines += ['import xtuml',
                  'from bridgepoint import ooaofooa',
                  'l = ooaofooa.ModelLoader()',
                  'l.input(text)',
                  'm = l.build_metamodel()',
                  'c_c = lambda: m.select_any("C_C", lambda s: s.Name == %r)' % comp_name,
                  'for c in [None] + list(m.select_many("C_C")):',
                  '    ooaofooa.mk_component(m, c)                # first round, whole model and every component',
                  '# edit of the loaded metamodel: %r' % (live,)]
        lines += bp.live_snippet(w.d, live)
        lines += ['c = ooaofooa.mk_component(m, c_c(), %r)          # second round, same metamodel' % derived,
                  'print(xtuml.serialize_schema(c) + xtuml.serialize_unique_identifiers(c))',
                  '# compare the printed definitions with the expected value recorded in this replay file']
        return '\n'.join(lines)
    if route == 'reversed':
        lines = ['text = %r    # the INSERT statements of the model in reverse order' % bp.render(bp.reversed_rows(w.rows))]
    else:
        lines = bp.snippet_model(base, w)
    lines += ['import xtuml',
              'from bridgepoint import ooaofooa',
              'l = ooaofooa.ModelLoader()',
              'l.input(text)',
              'c = l.build_component(%r, derived_attributes=%r)' % (comp_name, derived),
              's = xtuml.serialize_schema(c) + xtuml.serialize_unique_identifiers(c)',
              'print(s)']
    if route in ('reload', 'main'):
        lines += ['import tempfile, os',
                  "path = os.path.join(tempfile.mkdtemp(), 'schema.sql')",
                  'xtuml.persist_database(c, path)',
                  'l2 = xtuml.ModelLoader(); l2.filename_input(path); m2 = l2.build_metamodel()',
                  's = xtuml.serialize_schema(m2) + xtuml.serialize_unique_identifiers(m2)',
                  'print(s)']
    if line:
        lines.append('assert %r in s, "expected definition is missing"' % ('CREATE ROP REF_ID ' + line + ';'))
    else:
        lines.append('# compare the printed definitions with the expected value recorded in this replay file')
    return '\n'.join(lines)


# ---------------------------------------------------------------------------
# row-order tasks
# ---------------------------------------------------------------------------

def perm_tasks(ctx, model, max_group_initial, max_group_edit):
    '''[(base, hist, label, positions, [perm...])...] -- chunks of permutations to run (max_group_edit 0: initial state only).'''
    tasks = []
    h0 = list(model.prefix)
    w0 = model.build(h0)
    states = [(h0, None)]
    for op in model.menu(w0) if max_group_edit else []:
        states.append((h0 + [op], TOUCHED.get(op[0])))
    for hist, tables in states:
        w = model.build(hist)
        groups = bp.row_groups(w.rows, tables, max_group_initial if hist == h0 else max_group_edit)
        for key, pos in groups:
            perms = [p for p in itertools.permutations(range(len(pos))) if list(p) != list(range(len(pos)))]
            perms = explorer.rotate(perms, ctx.seed)
            for i in range(0, len(perms), 24):
                tasks.append(dict(base=model.name, level=model.level, hist=hist, kind='group', label=repr(key), pos=pos,
                                  perms=[list(p) for p in perms[i:i + 24]]))
    n = len([r for r in w0.rows if not r.g])
    ks = list(range(1, n))
    for i in range(0, len(ks), 12):
        tasks.append(dict(base=model.name, level=model.level, hist=h0, kind='rotate', label='rotation', pos=[],
                          perms=ks[i:i + 12]))
    return tasks


def live_tasks(model):
    '''One task per edit of the menu that has an API-level form, applied to the loaded start model.'''
    h0 = list(model.prefix)
    ops = [op for op in model.menu(model.build(h0)) if bp.live_supported(op)]
    return [dict(base=model.name, level=model.level, hist=h0, live=op) for op in ops]


def run_live_task(sub, task):
    model = SchemaModel(task['base'], sub.tier, sub.seed, level=task['level'])
    explorer.guarded(sub, model, task['hist'], ['live', task['live']],
                     lambda: check_state(sub, model, model.build(task['hist']), task['hist'], live=task['live']))
    return None


def permute(w, perm):
    '''World with the rows rotated (whole file) or one group permuted (layout tables GD_*/DIM_* left out).'''
    if perm['kind'] == 'rotate':
        rows = bp.rotated_rows(w.rows, perm['perm'])
    else:
        rows = bp.without_graphics(bp.permuted(w.rows, perm['pos'], perm['perm']))
    return bp.World(rows, w.d, w.fresh)


def run_perm_task(sub, task):
    model = SchemaModel(task['base'], sub.tier, sub.seed, level=task['level'])
    w = model.build(task['hist'])
    for p in task['perms']:
        def one():
            w2 = permute(w, dict(kind=task['kind'], pos=task['pos'], perm=p))
            check_state(sub, model, w2, task['hist'], perm=dict(kind=task['kind'], pos=task['pos'], perm=p))
        sub.count('permutations_run')
        sub.count('perm:' + task['kind'])
        explorer.guarded(sub, model, task['hist'], ['perm', task['kind'], task['pos'], p], one)
    return None


def run_family_task(sub, name):
    model = SchemaModel(name if name.startswith('regen:') else 'family:' + name, sub.tier, sub.seed, main_depth=-1)
    explorer.guarded(sub, model, [], ['probe'], lambda: model.check(sub, model.build([]), []))
    sub.count('family_diagrams')
    sub.count('family:' + name.split('-')[0])
    return None


# ---------------------------------------------------------------------------
# entry points
# ---------------------------------------------------------------------------

def run(ctx):
    # warm the per-process caches before any fork
    problems = bp.selftest()
    if problems:
        raise core.HarnessError('bpsynth self-test failed: ' + '; '.join(problems))
    bp.load_model('')
    for b in ('simple', 'rich', 'pack'):
        bp.base_world(b)
    bp.prefix_of('simple2')
    fam = [n for n, _ in bp.family()]
    bp.base_world('family:' + fam[0])

    # E2 first: the synthesised one-relationship diagrams (cheap, and the smallest counterexamples)
    ctx.pmap(run_family_task, ['regen:simple'] + explorer.rotate(fam, ctx.seed), chunk=4)
    ctx.sample(dict(family_member=fam[len(fam) // 2]))
    if new_violations(ctx):
        return

    total = 0
    for base, level, depth, main_depth, reverse_depth, perm_edit in PLAN[ctx.tier]:
        model = SchemaModel(base, ctx.tier, ctx.seed, main_depth=main_depth, level=level, reverse_depth=reverse_depth)
        label = '%s/%s' % (base, level)
        w0 = model.build(list(model.prefix))
        err = bp.selfcheck_world(w0) or '; '.join(w0.d.check())
        ctx.require(not err, 'base model %s: %s' % (base, err))
        loaded = bp.extract(bp.tables_of_metamodel(bp.load_model(w0.text()).build_metamodel()))
        ctx.require(loaded == w0.d, 'base model %s: the loaded ooaofooa population is not what the rows say' % base)
        res = explorer.bfs(ctx, model, max_depth=depth, chunk=2, label=label)
        ctx.caps_hit[:] = [c for c in ctx.caps_hit if 'depth bound' not in c]      # the depth bound is the stated bound
        total += res['states']
        print('  %s: states=%d depth=%d menu=%d' % (label, res['states'], res['depth'], len(model.menu(w0))))
        hs = sorted(res['seen'].values(), key=lambda h: (len(h), repr(h)))
        ctx.sample(dict(base=base, edit_script=hs[-1]))
        ctx.notes['menu_' + label] = len(model.menu(w0))
        if perm_edit is not None:
            tasks = perm_tasks(ctx, model, 6, perm_edit)
            ctx.pmap(run_perm_task, tasks, chunk=1)
            print('  %s: permutation tasks=%d' % (label, len(tasks)))
        if (base, level) in LIVE[ctx.tier]:
            tasks = live_tasks(model)
            ctx.pmap(run_live_task, tasks, chunk=4)
            print('  %s: live edits=%d' % (label, len(tasks)))
        if new_violations(ctx):
            return          # the property is already refuted; the remaining stages would only add more of the same

    # vacuity guards
    for kind in ('rename_attr', 'retype_attr', 'move_attr', 'set_derived', 'id_add', 'id_del', 'set_end', 'renumber',
                 'move_elem'):
        ctx.require(ctx.n('edit:' + kind) >= 1, 'edit kind %s was never applied' % kind)
    ctx.require(ctx.n('family:regen:simple') == 1, 'the regenerated rows of Simple_Model were not checked')
    for kind in ('simple', 'linked', 'subsup'):
        ctx.require(ctx.n('family:' + kind) >= 1, 'no %s relationship in the synthesised family' % kind)
    ctx.require(total >= (800 if ctx.quick else 5000), 'too few states (%d)' % total)
    ctx.require(ctx.n('permutations_run') >= 500, 'too few row permutations (%d)' % ctx.n('permutations_run'))
    ctx.require(ctx.n('perm:rotate') >= 300, 'file rotations did not run')
    ctx.require(ctx.n('reversed_runs') >= (total if ctx.quick else 5000), 'reversed files did not run in every state')
    ctx.require(ctx.n('main_runs') >= 100, 'gen_sql_schema.main ran only %d times' % ctx.n('main_runs'))
    ctx.require(ctx.nd('outcomes') >= 200, 'too few distinct schemas observed (%d)' % ctx.nd('outcomes'))
    ctx.require(ctx.n('locality_nonempty') >= 100, 'locality checks saw no change')
    for kind in ('move_elem', 'rename_attr', 'retype_attr', 'set_end'):
        ctx.require(ctx.n('live:' + kind) >= 1, 'no live (API-level) edit of kind %s ran' % kind)


def new_violations(ctx):
    '''Violations of this run that no open known finding accounts for.'''
    known = set(e.get('sig') for e in core.load_known(ctx.prop) if e.get('status') == 'known')
    return [v for v in ctx.violations if v['sig'] not in known]


def replay(ctx, case):
    model = SchemaModel(case['base'], case.get('tier', 'quick'), case.get('seed', 0), level=case.get('level'))
    hist = case['hist']
    perm = case.get('perm')

    def one():
        w = model.build(hist)
        if case.get('live'):
            check_state(ctx, model, w, hist, live=case['live'])
        elif perm:
            check_state(ctx, model, permute(w, perm), hist, perm=perm)
        else:
            check_state(ctx, model, w, hist, routes='all')
    explorer.guarded(ctx, model, hist, case.get('op'), one)


def coverage(ctx):
    bfs_notes = dict((k, v) for k, v in ctx.notes.items() if isinstance(v, dict))
    return dict(
        states=ctx.n('states') + ctx.n('family_diagrams'),
        transitions=ctx.n('transitions'),
        traces_validated_against_impl=ctx.n('traces'),
        evaluations=ctx.n('evaluations'),
        distinct_nontrivial=ctx.nd('nontrivial_inputs'),
        distinct_inputs=ctx.nd('inputs'),
        distinct_outcomes=ctx.nd('outcomes'),
        rule='a case is one BridgePoint model text (Simple_Model.xtuml after an edit script, a synthesised diagram, or a '
             'row permutation of one); distinct by the hash of the text, non-trivial = anything but the unmodified '
             'Simple_Model.xtuml.  Every case is loaded and built for derived_attributes in {False, True} x (whole model + '
             'each component); a trace / evaluation is one (case, options, route) whose schema was compared with '
             'expected_schema; distinct_outcomes counts the distinct schemas observed',
        states_checked=ctx.n('states_checked'),
        bfs=bfs_notes,
        family_diagrams=ctx.n('family_diagrams'),
        permutations_run=ctx.n('permutations_run'),
        file_rotations=ctx.n('perm:rotate'),
        reversed_runs=ctx.n('reversed_runs'),
        main_runs=ctx.n('main_runs'),
        live_runs=ctx.n('live_runs'),
        live_edits=dict((k[5:], v) for k, v in ctx.counts.items() if k.startswith('live:')),
        api_runs=ctx.n('api_runs'),
        locality_checks=ctx.n('locality_checks'),
        edits=dict((k[5:], v) for k, v in ctx.counts.items() if k.startswith('edit:')),
        bounds=dict(plan=[dict(base=p[0], palette=p[1], edit_depth=p[2], main_up_to_depth=p[3], reversed_up_to_depth=p[4])
                          for p in PLAN[ctx.tier]],
                    menu_sizes=dict((k[5:], v) for k, v in ctx.notes.items() if k.startswith('menu_')),
                    palettes='1 name / phrase / number per site (quick), 2-3 (thorough); %d data types' %
                             len(TYPES_QUICK if ctx.quick else TYPES_THOROUGH),
                    permutation_group=6, options='derived_attributes x (whole model + every component)'),
        exhaustive=not ctx.caps_hit,
    )
